import BigtreeModel.Helper
import BigtreeModel.HelperDiff
import BigtreeProofs.Lemmas.DiffDefs
import BigtreeProofs.Lemmas.DiffWalk
import BigtreeProofs.Lemmas.DiffMark
import BigtreeProofs.Lemmas.DiffJoin
import BigtreeProofs.Lemmas.DiffRows
import BigtreeProofs.Lemmas.DiffRebuild
import BigtreeProofs.Lemmas.DiffMain
/-!
# C15 — get_tree_diff reports exactly the differences between two trees

Model: `Helper.treeDiff` (Model B, written at the level the Python works on: the two data-frame
exports as lists of rows with `path_name` strings, the outer merge with indicator, `_add_suffix`
on the split path string, the per-attribute comparison, `dataframe_to_tree` as a fold of path
insertions, `add_dict_to_tree_by_path` for the value pairs and for the ` (~)` renames in
reverse-sorted order of the path strings).

Specification (component level, `HelperDiff.lean`): a node of a tree is identified by the list of
names from the root (`compPaths`); `status` compares the two trees at a path; `keptPaths` are the
paths the result must contain; `expected` lists, for every kept path, its marked form
(`markFull`: every component carries the mark of the prefix ending there) and the value pairs it
carries. `diff_spec` says that the result of `treeDiff` has exactly these rows (as a multiset of
(component path, attributes)); the other theorems are read off from it.

Domain (`DiffOK`): same root name; names non-empty, without the separator character, not ending in
one of the three marks, distinct among siblings; the separator is none of the mark characters.
-/
namespace C15
open Helper

/-! ## the example of the non-vacuity checks -/

def age : Str := ['a', 'g', 'e']

/-- `r(b, bc, a[age=1](x))` -/
def ex1 : Tree :=
  .node 0 ['r'] [] [
    .node 1 ['b'] [] [],
    .node 2 ['b', 'c'] [] [],
    .node 3 ['a'] [(age, .int 1)] [.node 4 ['x'] [] []]]

/-- `r(bc, a[age=2](x, y))` -/
def ex2 : Tree :=
  .node 0 ['r'] [] [
    .node 1 ['b', 'c'] [] [],
    .node 2 ['a'] [(age, .int 2)] [.node 3 ['x'] [] [], .node 4 ['y'] [] []]]

theorem ex1_ok : NamesOK '/' ex1 :=
  ⟨by decide, by decide, by unfold endsWithMark; decide, by decide⟩
theorem ex2_ok : NamesOK '/' ex2 :=
  ⟨by decide, by decide, by unfold endsWithMark; decide, by decide⟩
theorem ex_ok : DiffOK '/' ex1 ex2 := ⟨by decide, ex1_ok, ex2_ok, rfl⟩
theorem ex_self_ok : DiffOK '/' ex1 ex1 := ⟨by decide, ex1_ok, ex1_ok, rfl⟩

/-- the model's answer on the example: `r(b (-), a (~)[age=(1,2)](y (+)))` -/
def exDiff : Tree :=
  .node 0 ['r'] [] [
    .node 0 ['b', ' ', '(', '-', ')'] [] [],
    .node 0 ['a', ' ', '(', '~', ')'] [(age, .int 1), (age, .int 2)] [
      .node 0 ['y', ' ', '(', '+', ')'] [] []]]

theorem ex_result : treeDiff ['/'] ex1 ex2 true [age] = .ok (some exDiff) := rfl

/-! ## the core theorem -/

/-- **`get_tree_diff` returns exactly the expected rows.** No kept path: `None` (the function
    returns nothing). Otherwise a tree whose nodes are — as (component path, attributes), up to
    order — exactly the kept paths, each in its marked form and carrying its value pairs. -/
theorem diff_spec (c : Char) (t1 t2 : Tree) (onlyDiff : Bool) (attrList : List Str)
    (hA : attrList.Nodup) (h : DiffOK c t1 t2) :
    (keptPaths attrList t1 t2 onlyDiff = [] → treeDiff [c] t1 t2 onlyDiff attrList = .ok none) ∧
    (keptPaths attrList t1 t2 onlyDiff ≠ [] →
      ∃ D, treeDiff [c] t1 t2 onlyDiff attrList = .ok (some D) ∧
        (compRows D).Perm (expected attrList t1 t2 onlyDiff)) := by
  constructor
  · intro he
    exact diff_none c t1 t2 onlyDiff attrList h ((keptPaths_eq_nil_iff attrList t1 t2 onlyDiff).mp he)
  · intro hne
    exact diff_main c t1 t2 onlyDiff attrList hA h
      (fun he => hne ((keptPaths_eq_nil_iff attrList t1 t2 onlyDiff).mpr he))

example : ∃ D, treeDiff ['/'] ex1 ex2 true [age] = .ok (some D) ∧
    (compRows D).Perm (expected [age] ex1 ex2 true) :=
  (diff_spec '/' ex1 ex2 true [age] (by decide) ex_ok).2 (by decide)
example : treeDiff ['/'] ex1 ex1 true [age] = .ok none :=
  (diff_spec '/' ex1 ex1 true [age] (by decide) ex_self_ok).1 (by decide)

/-- a result `some D` determines the rows -/
theorem rows_of_result (c : Char) (t1 t2 : Tree) (onlyDiff : Bool) (attrList : List Str)
    (hA : attrList.Nodup) (h : DiffOK c t1 t2) (D : Tree)
    (hD : treeDiff [c] t1 t2 onlyDiff attrList = .ok (some D)) :
    (compRows D).Perm (expected attrList t1 t2 onlyDiff) := by
  have hs := diff_spec c t1 t2 onlyDiff attrList hA h
  by_cases he : keptPaths attrList t1 t2 onlyDiff = []
  · rw [hs.1 he] at hD; cases hD
  · obtain ⟨D', hD', hp⟩ := hs.2 he
    rw [hD] at hD'
    cases hD'
    exact hp

/-! ## status facts -/

theorem status_removed_iff (attrList : List Str) (t1 t2 : Tree) (p : List Str) :
    status attrList t1 t2 p = .removed ↔ p ∈ compPaths t1 ∧ p ∉ compPaths t2 := by
  rw [← attrsAt_eq_none_iff, ← attrsAt_isSome_iff]
  unfold status
  cases attrsAt t1 p <;> cases attrsAt t2 p <;> simp
  split <;> simp

theorem status_added_iff (attrList : List Str) (t1 t2 : Tree) (p : List Str) :
    status attrList t1 t2 p = .added ↔ p ∉ compPaths t1 ∧ p ∈ compPaths t2 := by
  rw [← attrsAt_eq_none_iff, ← attrsAt_isSome_iff]
  unfold status
  cases attrsAt t1 p <;> cases attrsAt t2 p <;> simp
  split <;> simp

theorem status_changed_iff' (attrList : List Str) (t1 t2 : Tree) (p : List Str) :
    status attrList t1 t2 p = .changed ↔
      ∃ a1 a2, attrsAt t1 p = some a1 ∧ attrsAt t2 p = some a2 ∧
        ∃ k ∈ attrList, getAttr a1 k ≠ getAttr a2 k := by
  unfold status
  cases attrsAt t1 p <;> cases attrsAt t2 p <;> simp
  rename_i a1 a2
  rw [← changedAttrs_ne_nil_iff]

theorem kept_nomark (c : Char) (t1 t2 : Tree) (onlyDiff : Bool) (attrList : List Str) (h : DiffOK c t1 t2)
    (p : List Str) (hp : p ∈ keptPaths attrList t1 t2 onlyDiff) :
    p ≠ [] ∧ ∀ n ∈ p, ¬ endsWithMark n := by
  have := allPaths_good c t1 t2 h p (keptPaths_sub attrList t1 t2 onlyDiff p hp)
  exact ⟨this.1, fun n hn => (this.2 n hn).2.2⟩

/-! ## the marks -/

/-- every node of the result is a kept path in marked form, carries that path's value pairs,
    un-marks to the path, and its own (last) mark says what happened to it: ` (-)` iff it is in the
    first tree only, ` (+)` iff in the second only, ` (~)` iff in both with a listed attribute
    differing -/
theorem diff_marks (c : Char) (t1 t2 : Tree) (onlyDiff : Bool) (attrList : List Str)
    (hA : attrList.Nodup) (h : DiffOK c t1 t2) (D : Tree)
    (hD : treeDiff [c] t1 t2 onlyDiff attrList = .ok (some D)) :
    ∀ m av, (m, av) ∈ compRows D →
      ∃ p, p ∈ keptPaths attrList t1 t2 onlyDiff ∧ m = markFull (status attrList t1 t2) p ∧
        av = carried attrList t1 t2 p ∧ unmark m = p ∧
        (sufRemoved <:+ m.getLastD [] ↔ p ∈ compPaths t1 ∧ p ∉ compPaths t2) ∧
        (sufAdded <:+ m.getLastD [] ↔ p ∉ compPaths t1 ∧ p ∈ compPaths t2) ∧
        (sufChanged <:+ m.getLastD [] ↔
          ∃ a1 a2, attrsAt t1 p = some a1 ∧ attrsAt t2 p = some a2 ∧
            ∃ k ∈ attrList, getAttr a1 k ≠ getAttr a2 k) := by
  intro m av hm
  have hp := rows_of_result c t1 t2 onlyDiff attrList hA h D hD
  have hm' := hp.mem_iff.mp hm
  unfold expected at hm'
  obtain ⟨p, hpk, he⟩ := List.mem_map.mp hm'
  simp only [Prod.mk.injEq] at he
  obtain ⟨rfl, rfl⟩ := he
  obtain ⟨hne, hnm⟩ := kept_nomark c t1 t2 onlyDiff attrList h p hpk
  have hlast : ¬ endsWithMark (p.getLast hne) := hnm _ (List.getLast_mem hne)
  refine ⟨p, hpk, rfl, rfl, unmark_markFull _ p hnm, ?_, ?_, ?_⟩
  · rw [getLastD_markFull _ p hne, sufRemoved_suffix_iff _ _ hlast, status_removed_iff]
  · rw [getLastD_markFull _ p hne, sufAdded_suffix_iff _ _ hlast, status_added_iff]
  · rw [getLastD_markFull _ p hne, sufChanged_suffix_iff _ _ hlast, status_changed_iff']

example : ∃ m av, (m, av) ∈ compRows exDiff ∧ sufChanged <:+ m.getLastD [] ∧ av ≠ [] :=
  ⟨[['r'], ['a', ' ', '(', '~', ')']], [(age, .int 1), (age, .int 2)], by decide, by decide, by decide⟩

/-! ## which nodes are shown -/

/-- nothing else changes: un-marking the result gives back exactly the kept paths (each once), and
    no two nodes of the result have the same path -/
theorem diff_no_other_change (c : Char) (t1 t2 : Tree) (onlyDiff : Bool) (attrList : List Str)
    (hA : attrList.Nodup) (h : DiffOK c t1 t2) (D : Tree)
    (hD : treeDiff [c] t1 t2 onlyDiff attrList = .ok (some D)) :
    ((compRows D).map fun r => unmark r.1).Perm (keptPaths attrList t1 t2 onlyDiff)
    ∧ (keptPaths attrList t1 t2 onlyDiff).Nodup
    ∧ ((compRows D).map (·.1)).Nodup := by
  have hp := rows_of_result c t1 t2 onlyDiff attrList hA h D hD
  have hnd := keptPaths_nodup c attrList t1 t2 h onlyDiff
  refine ⟨?_, hnd, ?_⟩
  · refine (hp.map fun r => unmark r.1).trans (List.Perm.of_eq ?_)
    unfold expected
    rw [List.map_map]
    conv => rhs; rw [← List.map_id (keptPaths attrList t1 t2 onlyDiff)]
    apply List.map_congr_left
    intro p hpk
    exact unmark_markFull _ p (kept_nomark c t1 t2 onlyDiff attrList h p hpk).2
  · refine ((hp.map (·.1)).nodup_iff).mpr ?_
    unfold expected
    rw [List.map_map]
    apply nodup_map_on _ _ _ hnd
    intro x hx y hy he
    exact markFull_inj _ x y (kept_nomark c t1 t2 onlyDiff attrList h x hx).2
      (kept_nomark c t1 t2 onlyDiff attrList h y hy).2 he

example : ((compRows exDiff).map fun r => unmark r.1).Perm (keptPaths [age] ex1 ex2 true) :=
  (diff_no_other_change '/' ex1 ex2 true [age] (by decide) ex_ok exDiff ex_result).1

theorem mem_unmarked_iff (c : Char) (t1 t2 : Tree) (onlyDiff : Bool) (attrList : List Str)
    (hA : attrList.Nodup) (h : DiffOK c t1 t2) (D : Tree)
    (hD : treeDiff [c] t1 t2 onlyDiff attrList = .ok (some D)) (p : List Str) :
    p ∈ (compRows D).map (fun r => unmark r.1) ↔ p ∈ keptPaths attrList t1 t2 onlyDiff :=
  (diff_no_other_change c t1 t2 onlyDiff attrList hA h D hD).1.mem_iff

/-- `only_diff=True`: the nodes shown are exactly the paths of either tree that lie on the way to
    (or are) a removed / added / changed node -/
theorem diff_nodes_only_diff (c : Char) (t1 t2 : Tree) (attrList : List Str)
    (hA : attrList.Nodup) (h : DiffOK c t1 t2) (D : Tree)
    (hD : treeDiff [c] t1 t2 true attrList = .ok (some D)) :
    ∀ p, p ∈ (compRows D).map (fun r => unmark r.1) ↔
      (p ∈ compPaths t1 ∨ p ∈ compPaths t2) ∧
      ∃ q, (q ∈ compPaths t1 ∨ q ∈ compPaths t2) ∧ status attrList t1 t2 q ≠ .same ∧ p <+: q := by
  intro p
  rw [mem_unmarked_iff c t1 t2 true attrList hA h D hD]
  unfold keptPaths
  simp only [if_true, List.mem_filter, List.any_eq_true, Bool.and_eq_true, bne_iff_ne, ne_eq,
    List.isPrefixOf_iff_prefix, mem_allPaths]

example : [['r'], ['a']] ∈ (compRows exDiff).map (fun r => unmark r.1) ∧
    [['r'], ['b', 'c']] ∉ (compRows exDiff).map (fun r => unmark r.1) := by decide

/-- `only_diff=False`: every path of either tree is shown, and nothing else -/
theorem diff_nodes_all (c : Char) (t1 t2 : Tree) (attrList : List Str)
    (hA : attrList.Nodup) (h : DiffOK c t1 t2) (D : Tree)
    (hD : treeDiff [c] t1 t2 false attrList = .ok (some D)) :
    ∀ p, p ∈ (compRows D).map (fun r => unmark r.1) ↔ (p ∈ compPaths t1 ∨ p ∈ compPaths t2) := by
  intro p
  rw [mem_unmarked_iff c t1 t2 false attrList hA h D hD]
  unfold keptPaths
  simp only [Bool.false_eq_true, if_false, mem_allPaths]

example : ∃ D, treeDiff ['/'] ex1 ex2 false [age] = .ok (some D) ∧
    [['r'], ['b', 'c']] ∈ (compRows D).map (fun r => unmark r.1) := by
  obtain ⟨D, hD, _⟩ := (diff_spec '/' ex1 ex2 false [age] (by decide) ex_ok).2 (by decide)
  exact ⟨D, hD, (diff_nodes_all '/' ex1 ex2 [age] (by decide) ex_ok D hD _).mpr (by decide)⟩

/-! ## identical trees -/

/-- no difference anywhere ⇒ `only_diff=True` returns nothing -/
theorem diff_identical_none (c : Char) (t1 t2 : Tree) (attrList : List Str)
    (hA : attrList.Nodup) (h : DiffOK c t1 t2)
    (hsame : ∀ p, status attrList t1 t2 p = .same) :
    treeDiff [c] t1 t2 true attrList = .ok none := by
  apply (diff_spec c t1 t2 true attrList hA h).1
  unfold keptPaths
  simp only [if_true]
  rw [List.filter_eq_nil_iff]
  intro p _
  simp [hsame]

example : ∀ p, status [] ex1 ex1 p = .same := by
  intro p; unfold status; cases attrsAt ex1 p <;> simp [changedAttrs]

theorem status_self (attrList : List Str) (t : Tree) (p : List Str) : status attrList t t p = .same := by
  unfold status
  cases attrsAt t p with
  | none => rfl
  | some a =>
    have : changedAttrs attrList a a = [] := (changedAttrs_eq_nil_iff attrList a a).mpr (fun _ _ => rfl)
    simp [this]

/-- a tree compared with itself: nothing -/
theorem diff_identical_self (c : Char) (t : Tree) (attrList : List Str)
    (hA : attrList.Nodup) (h : DiffOK c t t) :
    treeDiff [c] t t true attrList = .ok none :=
  diff_identical_none c t t attrList hA h (status_self attrList t)

example : treeDiff ['/'] ex1 ex1 true [age] = .ok none :=
  diff_identical_self '/' ex1 [age] (by decide) ex_self_ok

end C15
