import BigtreeModel.Iter
import BigtreeProofs.Lemmas.Iter
/-!
# C04 — traversals visit each node once, in the documented order, honouring filters

Model: `BigtreeModel/Iter.lean` (implementation-shaped `preImpl`, `postImpl`, `levelImpl`,
`zigImpl`, the grouped variants, `inorderImpl`). Specification: gate the tree first (`gateL`
removes exactly the subtrees rooted at nodes that exceed `max_depth` or satisfy the stop
condition), then traverse the obvious way (`pre`, `post`, `layersL`, `alternate`), then filter.
All statements are about node identities (`Tree.id`), for every tree, every start depth `d`,
every filter/stop predicate and every `max_depth` — no bound on size, depth or fan-out.
-/

namespace C04
open Iter

/-- pre-order iterator = filter of the pre-order of the gated tree -/
theorem preorder_eq (c : Cfg) (d : Nat) (t : Tree) :
    (preImpl c d t).map Tree.id = (preL (gateL c d [t])).filter c.filt :=
  preImpl_ids c d t

/-- post-order iterator = filter of the post-order of the gated tree -/
theorem postorder_eq (c : Cfg) (d : Nat) (t : Tree) :
    (postImpl c d t).map Tree.id = (postL (gateL c d [t])).filter c.filt :=
  postImpl_ids c d t

/-- level-order iterator = depth layers of the gated tree, left to right, filtered
    (the fuel `height t` given by the public entry point suffices) -/
theorem levelorder_eq (c : Cfg) (d : Nat) (t : Tree) :
    (levelorder c d t).map Tree.id = ((layersL (gateL c d [t])).flatten).filter c.filt := by
  unfold levelorder
  rw [levelImpl_ids, layersUpTo_flatten_ge]
  have := heightL_gateL_le c d [t]
  simpa [height.heightL] using this

/-- zigzag iterator = depth layers of the gated tree with every second layer reversed, filtered -/
theorem zigzag_eq (c : Cfg) (d : Nat) (t : Tree) :
    (zigzag c d t).map Tree.id = ((alternate false (layersL (gateL c d [t]))).flatten).filter c.filt := by
  unfold zigzag
  have h := zigImpl_ids c (height t) d false [t]
  simp only [Bool.false_eq_true, if_false] at h
  rw [h, alternate_layersUpTo_flatten_ge]
  have := heightL_gateL_le c d [t]
  simpa [height.heightL] using this

/-- the grouped level-order flattens to the ungrouped one -/
theorem levelgroup_flatten (c : Cfg) (d : Nat) (t : Tree) :
    (levelordergroup c d t).flatten = levelorder c d t :=
  levelGroup_flatten c (height t) d [t]

/-- the grouped zigzag flattens to the ungrouped one -/
theorem zigzaggroup_flatten (c : Cfg) (d : Nat) (t : Tree) :
    (zigzaggroup c d t).flatten = zigzag c d t :=
  zigGroup_flatten c (height t) d false [t]

/-- group `k` is exactly layer `k` of the gated tree (filtered); there is one group per kept
    layer, plus at most one trailing group (empty: all candidates of that depth were stopped) -/
theorem levelgroup_eq (c : Cfg) (d : Nat) (t : Tree) :
    (levelordergroup c d t).map (·.map Tree.id)
      = ((List.range (levelordergroup c d t).length).map fun k =>
          (layer.layerL k (gateL c d [t])).filter c.filt) ∧
    height.heightL (gateL c d [t]) ≤ (levelordergroup c d t).length ∧
    (levelordergroup c d t).length ≤ height.heightL (gateL c d [t]) + 1 := by
  refine ⟨?_, ?_⟩
  · have := levelGroup_layers c (height t) d [t]
    simp only [layersUpTo, List.map_map] at this
    exact this
  · have ht : 0 < height t := height_pos t
    exact levelGroup_length c (height t) d [t] (by simp [height.heightL]) ht

/-- same for zigzag groups, with every second group reversed -/
theorem zigzaggroup_eq (c : Cfg) (d : Nat) (t : Tree) :
    (zigzaggroup c d t).map (·.map Tree.id)
      = (alternate false ((List.range (zigzaggroup c d t).length).map fun k =>
          layer.layerL k (gateL c d [t]))).map (·.filter c.filt) ∧
    height.heightL (gateL c d [t]) ≤ (zigzaggroup c d t).length ∧
    (zigzaggroup c d t).length ≤ height.heightL (gateL c d [t]) + 1 := by
  refine ⟨?_, ?_⟩
  · have := zigGroup_layers c (height t) d false [t]
    simpa [layersUpTo, zigzaggroup] using this
  · have hl := zigGroup_length_eq c (height t) d false [t]
    simp only [Bool.false_eq_true, if_false] at hl
    unfold zigzaggroup
    rw [hl]
    exact levelGroup_length c (height t) d [t] (by simp [height.heightL]) (height_pos t)

/-- in-order on binary trees with empty slots: left subtree, node, right subtree of the tree
    cut at `max_depth`, filtered -/
theorem inorder_eq (filt : Nat → Bool) (md d : Nat) (t : BTree) :
    inorderImpl filt md d t = (inorder (bgate md d t)).filter filt :=
  inorderImpl_eq filt md d t

/-! ### each node exactly once -/

/-- without a filter, pre-order yields a permutation of … itself being the reference listing:
    the nodes of the gated tree; it is duplicate-free whenever identities are distinct -/
theorem preorder_perm_nodes (c : Cfg) (d : Nat) (t : Tree) (hall : ∀ i, c.filt i = true) :
    ((preImpl c d t).map Tree.id).Perm (preL (gateL c d [t])) := by
  rw [preorder_eq]
  rw [List.filter_eq_self.2 (fun i _ => hall i)]

theorem postorder_perm_pre (c : Cfg) (d : Nat) (t : Tree) :
    ((postImpl c d t).map Tree.id).Perm ((preImpl c d t).map Tree.id) := by
  rw [preorder_eq, postorder_eq]
  exact (postL_perm_preL _).filter _

theorem levelorder_perm_pre (c : Cfg) (d : Nat) (t : Tree) :
    ((levelorder c d t).map Tree.id).Perm ((preImpl c d t).map Tree.id) := by
  rw [preorder_eq, levelorder_eq]
  exact (layers_perm_preL _).filter _

theorem zigzag_perm_pre (c : Cfg) (d : Nat) (t : Tree) :
    ((zigzag c d t).map Tree.id).Perm ((preImpl c d t).map Tree.id) := by
  rw [preorder_eq, zigzag_eq]
  exact ((alternate_flatten_perm _ _).trans (layers_perm_preL _)).filter _

/-- distinct identities in the input ⇒ no node is yielded twice (by any of the iterators, via
    the permutation theorems above) -/
theorem pre_nodup (c : Cfg) (d : Nat) (t : Tree) (h : (pre t).Nodup) :
    ((preImpl c d t).map Tree.id).Nodup := by
  rw [preorder_eq]
  have h1 : (preL [t]).Nodup := by simpa [preL] using h
  exact ((List.filter_sublist).trans (preL_gateL_sublist c d [t])).nodup h1

/-- a filter condition yields exactly the subsequence of nodes satisfying it
    (stated for all four generic iterators) -/
theorem filter_subsequence (c : Cfg) (d : Nat) (t : Tree) :
    let c0 : Cfg := { c with filt := fun _ => true }
    (preImpl c d t).map Tree.id = ((preImpl c0 d t).map Tree.id).filter c.filt ∧
    (postImpl c d t).map Tree.id = ((postImpl c0 d t).map Tree.id).filter c.filt ∧
    (levelorder c d t).map Tree.id = ((levelorder c0 d t).map Tree.id).filter c.filt ∧
    (zigzag c d t).map Tree.id = ((zigzag c0 d t).map Tree.id).filter c.filt := by
  intro c0
  have hg : ∀ d ts, gateL c0 d ts = gateL c d ts := by
    intro d ts
    have hadm : ∀ d t, c0.admit d t = c.admit d t := fun _ _ => rfl
    suffices h : (∀ (t : Tree) d, gate c0 d t = gate c d t) by
      induction ts with
      | nil => rfl
      | cons t ts ih => simp [gateL, hadm, h, ih]
    intro t
    induction t using Tree.ind with
    | h i n a cs ihc =>
      intro d
      simp only [gate]
      congr 1
      induction cs with
      | nil => rfl
      | cons x xs ihx =>
        have h1 := ihc x List.mem_cons_self (d + 1)
        have h2 := ihx (fun y hy => ihc y (List.mem_cons_of_mem _ hy))
        simp [gateL, hadm, h1, h2]
  refine ⟨?_, ?_, ?_, ?_⟩
  · rw [preorder_eq, preorder_eq, hg]; simp [c0]
  · rw [postorder_eq, postorder_eq, hg]; simp [c0]
  · rw [levelorder_eq, levelorder_eq, hg]
    have : (List.filter c0.filt (layersL (gateL c d [t])).flatten) = (layersL (gateL c d [t])).flatten :=
      List.filter_eq_self.2 (fun _ _ => rfl)
    rw [this]
  · rw [zigzag_eq, zigzag_eq, hg]
    have : (List.filter c0.filt (alternate false (layersL (gateL c d [t]))).flatten)
        = (alternate false (layersL (gateL c d [t]))).flatten :=
      List.filter_eq_self.2 (fun _ _ => rfl)
    rw [this]

/-- a stop condition removes exactly the subtrees rooted at nodes satisfying it and `max_depth`
    keeps exactly the nodes whose depth does not exceed it: a node is in the gated tree iff it
    and all its ancestors up to the start node pass the gate -/
theorem gate_mem_iff (c : Cfg) (d : Nat) (t : Tree) (i : Nat) :
    i ∈ preL (gateL c d [t]) ↔ Kept c d [t] i :=
  mem_preL_gateL c d [t] i

/-- pre-order: a parent precedes all its descendants, subtrees of siblings follow left to right -/
theorem preorder_parent_before_child (i : Nat) (n : Str) (a : Attrs) (cs : List Tree) :
    pre (.node i n a cs) = i :: (cs.map pre).flatten := by
  simp only [pre]
  congr 1
  induction cs with
  | nil => rfl
  | cons c cs ih => simp [preL, ih]

/-- post-order: all descendants precede the parent, subtrees of siblings left to right -/
theorem postorder_child_before_parent (i : Nat) (n : Str) (a : Attrs) (cs : List Tree) :
    post (.node i n a cs) = (cs.map post).flatten ++ [i] := by
  simp only [post]
  congr 1
  induction cs with
  | nil => rfl
  | cons c cs ih => simp [postL, ih]

/-! ### non-vacuity: a concrete tree exercising gate, stop and filter -/

private def ex : Tree :=
  .node 0 [] [] [.node 1 [] [] [.node 3 [] [] [], .node 4 [] [] [.node 6 [] [] []]],
                 .node 2 [] [] [.node 5 [] [] []]]
private def exCfg : Cfg := { filt := fun i => i != 3, stop := fun i => i == 2, maxDepth := 3 }

example : (preImpl exCfg 1 ex).map Tree.id = [0, 1, 4] := by decide
example : (zigzag exCfg 1 ex).map Tree.id = [0, 1, 4] := by decide
example : (levelordergroup exCfg 1 ex).map (·.map Tree.id) = [[0], [1], [4]] := by decide
example : (pre ex).Nodup := by decide
example : Kept exCfg 1 [ex] 4 :=
  .under (t := ex) (List.mem_singleton.2 rfl) (by decide)
    (.under (t := .node 1 [] [] [.node 3 [] [] [], .node 4 [] [] [.node 6 [] [] []]])
      (by simp [ex]) (by decide)
      (.root (t := .node 4 [] [] [.node 6 [] [] []]) (by simp) (by decide)))

end C04
