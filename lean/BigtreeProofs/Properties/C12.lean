import BigtreeModel.Query
import BigtreeProofs.Lemmas.QueryAddr
import BigtreeProofs.Lemmas.QueryPre
import BigtreeProofs.Lemmas.QueryProps
import BigtreeProofs.Lemmas.QueryGoTo
import BigtreeProofs.Lemmas.QueryGoToPath
import BigtreeProofs.Lemmas.QueryBinary
import BigtreeProofs.Lemmas.QueryDiameter
import BigtreeProofs.Lemmas.QueryExamples
/-!
# C12 — derived node queries agree with their definitions

A node is a root tree `R` plus an address `a` (child indices from the root).  Each query, written
the way the Python is written (`BigtreeModel/Query.lean`), equals its first-principles definition
on addresses, for every tree and every node.
-/

namespace C12
open Query

/-- `ancestors` = the proper prefixes of the address, nearest first. -/
theorem ancestors_eq (a : Addr) :
    ancestors a = (List.range a.length).reverse.map fun k => a.take k :=
  ancestors_eq_spec a

example : ancestors [0, 1, 0] = [[0, 1], [0], []] := by decide

/-- `descendants` = the pre-order of the node's subtree without the node itself
    (`subtreeLocs` starts with the node). -/
theorem descendants_eq (R : Tree) (a : Addr) : descendants R a = (subtreeLocs R a).tail :=
  descendants_eq_tail R a

example : descendants exTree [0] = [[0, 0], [0, 1], [0, 1, 0]] := by decide
example : subtreeLocs exTree [0] = [[0], [0, 0], [0, 1], [0, 1, 0]] := by decide

/-- `leaves` = the childless nodes of the subtree, in pre-order. -/
theorem leaves_eq (R : Tree) (a : Addr) :
    leaves R a = (subtreeLocs R a).filter fun b => (childrenOf R b).isEmpty := by
  rw [leaves_eq_filter]
  apply List.filter_congr
  intro b _
  simp only [isLeaf]
  cases childrenOf R b <;> simp

example : leaves exTree [] = [[0, 0], [0, 1, 0], [1]] := by decide

/-- `siblings` = the other children of the parent, in order; none at the root. -/
theorem siblings_eq (R : Tree) :
    siblings R [] = [] ∧
    ∀ (p : Addr) (t : Tree) (k : Nat), sub R p = some t →
      siblings R (p ++ [k]) =
        ((List.range t.children.length).filter fun j => j != k).map fun j => p ++ [j] :=
  ⟨siblings_nil R, fun _ _ k h => siblings_snoc h k⟩

example : sub exWide [] = some exWide ∧ siblings exWide [2] = [[0], [1], [3], [4]] := by decide

/-- `left_sibling` = the child just before the node in the parent's list (none for a first child
    and for the root). -/
theorem left_sibling_eq (R : Tree) :
    leftSibling R [] = none ∧
    ∀ (p : Addr) (t : Tree) (k : Nat), sub R p = some t → k < t.children.length →
      leftSibling R (p ++ [k]) = if k = 0 then none else some (p ++ [k - 1]) :=
  ⟨leftSibling_nil R, fun _ _ _ h hk => leftSibling_snoc h hk⟩

example : sub exTree [0] = some (.node 1 ['a'] [] [.node 2 ['c'] [] [], .node 3 ['d'] [] [.node 4 ['e'] [] []]])
    ∧ leftSibling exTree [0, 1] = some [0, 0] ∧ leftSibling exTree [0, 0] = none := by decide

/-- `right_sibling` = the child just after the node (none for a last child and for the root). -/
theorem right_sibling_eq (R : Tree) :
    rightSibling R [] = none ∧
    ∀ (p : Addr) (t : Tree) (k : Nat), sub R p = some t → k < t.children.length →
      rightSibling R (p ++ [k]) = if k + 1 < t.children.length then some (p ++ [k + 1]) else none :=
  ⟨rightSibling_nil R, fun _ _ _ h hk => rightSibling_snoc h hk⟩

example : rightSibling exTree [0, 0] = some [0, 1] ∧ rightSibling exTree [0, 1] = none := by decide

/-- `node_path` = all prefixes of the address, root first. -/
theorem node_path_eq (a : Addr) :
    nodePath a = (List.range (a.length + 1)).map fun k => a.take k :=
  nodePath_eq_spec a

example : nodePath [0, 1, 0] = [[], [0], [0, 1], [0, 1, 0]] := by decide

/-- `root` = the empty address. -/
theorem root_eq (a : Addr) : root a = [] := root_eq_nil a

example : root [0, 1, 0] = [] := by decide

/-- `is_root` holds exactly at the empty address, i.e. when there are no ancestors. -/
theorem is_root_iff (a : Addr) :
    (isRoot a = true ↔ a = []) ∧ (isRoot a = true ↔ ancestors a = []) := by
  refine ⟨isRoot_iff a, ?_⟩
  rw [isRoot_iff, ancestors_eq_spec]
  constructor
  · rintro rfl; rfl
  · intro h
    have := congrArg List.length h
    rw [length_ancestorsSpec] at this
    exact List.eq_nil_of_length_eq_zero this

example : isRoot [] = true ∧ isRoot [1] = false := by decide

/-- `is_leaf` holds exactly when the node has no children; on a BinaryNode exactly when both
    slots are empty, which is the same as `is_leaf` of its generic view. -/
theorem is_leaf_iff :
    (∀ (R : Tree) (a : Addr) (t : Tree), sub R a = some t → (isLeaf R a = true ↔ t.children = [])) ∧
    (∀ i n at' l r, isLeafB (.node i n at' l r) = true ↔ l = .nil ∧ r = .nil) ∧
    (∀ (b : BTree) (t : Tree), b.toTrees = [t] → isLeafB b = t.children.isEmpty) := by
  refine ⟨?_, ?_, isLeafB_eq⟩
  · intro R a t h
    rw [isLeaf_of_sub h, List.isEmpty_iff]
  · intro i n at' l r
    cases l <;> cases r <;> simp [isLeafB]

example : isLeaf exTree [1] = true ∧ isLeaf exTree [0] = false
    ∧ isLeafB exBin = false ∧ isLeafB (.node 1 ['2'] [] .nil .nil) = true := by decide

/-- `depth` = length of the address + 1 = 1 + number of ancestors. -/
theorem depth_eq (a : Addr) : depth a = a.length + 1 ∧ depth a = 1 + (ancestors a).length := by
  rw [depth_eq_length, ancestors_eq_spec, length_ancestorsSpec]
  exact ⟨rfl, Nat.add_comm _ _⟩

example : depth [0, 1, 0] = 4 := by decide

/-- `max_depth` (of any node) = the height of the whole tree = the largest depth of a node of
    the tree. -/
theorem max_depth_eq (R : Tree) (a : Addr) :
    maxDepth R a = Iter.height R ∧
    (∀ b ∈ subtreeLocs R [], depth b ≤ maxDepth R a) ∧
    (∃ b ∈ subtreeLocs R [], depth b = maxDepth R a) := by
  rw [maxDepth_eq_height, subtreeLocs_of_sub (sub_nil R)]
  refine ⟨rfl, ?_, ?_⟩
  · intro b hb
    rcases List.mem_map.1 hb with ⟨x, hx, rfl⟩
    simpa [depth_eq_length] using locs_length_lt_height R x hx
  · rcases exists_loc_height R with ⟨x, hx, he⟩
    exact ⟨[] ++ x, List.mem_map.2 ⟨x, hx, rfl⟩, by simpa [depth_eq_length] using he⟩

example : maxDepth exTree [1] = 4 := by decide

/-- `go_to` between two nodes of one tree = up from `a` to (excluding) the lowest common
    ancestor, then from it down to `b`. -/
theorem go_to_eq (R : Tree) (a b : Addr) :
    goTo ⟨R, a⟩ ⟨R, b⟩ = some
      (((List.range (a.length - lcpLen a b)).map fun i => a.take (a.length - i))
        ++ ((List.range (b.length - lcpLen a b + 1)).map fun i => b.take (lcpLen a b + i))) := by
  have h : ∀ x, (⟨R, x⟩ : Loc).rootId = some R.id := by
    intro x; simp [Loc.rootId, root_eq_nil, idAt]
  simp [goTo, h, goToSame_eq_spec, goToSpec]

example : goTo ⟨exTree, [0, 0]⟩ ⟨exTree, [0, 1, 0]⟩ = some [[0, 0], [0], [0, 1], [0, 1, 0]] := by decide
example : goTo ⟨exTree, [0, 1, 0]⟩ ⟨exTree, [1]⟩ = some [[0, 1, 0], [0, 1], [0], [], [1]] := by decide

/-- the path of `go_to` starts at `a`, ends at `b`, repeats no node, every step is a
    parent/child link, and it has `dist a b` edges: the unique simple path. -/
theorem go_to_simple_path (R : Tree) (a b : Addr) :
    ∃ p, goTo ⟨R, a⟩ ⟨R, b⟩ = some p ∧
      p.head? = some a ∧ p.getLast? = some b ∧ p.Nodup ∧
      (∀ i (h : i + 1 < p.length), Linked (p[i]'(by omega)) p[i + 1]) ∧
      p.length = dist a b + 1 := by
  refine ⟨goToSpec a b, ?_, goToSpec_head a b, goToSpec_last a b, goToSpec_nodup a b,
    goToSpec_linked a b, length_goToSpec a b⟩
  have h : ∀ x, (⟨R, x⟩ : Loc).rootId = some R.id := by
    intro x; simp [Loc.rootId, root_eq_nil, idAt]
  simp [goTo, h, goToSame_eq_spec]

example : dist [0, 0] [0, 1, 0] = 3 := by decide

/-- nodes of different trees are refused. -/
theorem go_to_other_tree_rej (u v : Loc) (h : u.tree.id ≠ v.tree.id) : goTo u v = none := by
  have hu : u.rootId = some u.tree.id := by simp [Loc.rootId, root_eq_nil, idAt]
  have hv : v.rootId = some v.tree.id := by simp [Loc.rootId, root_eq_nil, idAt]
  simp [goTo, hu, hv, h]

example : exTree.id ≠ exTree2.id ∧ goTo ⟨exTree, [0]⟩ ⟨exTree2, [0]⟩ = none := by decide

/-- `diameter` (the nonlocal-maximum recursion with `heapq.nlargest(2, …)`) = the maximum, over
    the nodes of the subtree, of the sum of the two largest child heights (`diamSpec`); the
    BinaryNode version that skips empty slots computes the same number as on the generic view.
    `top2Sum` (sum of the first two entries of the list sorted in descending order) is pinned
    down independently of any sorting: adding an entry `x` to a list changes it to the larger of
    the old value and `x` + the list's maximum. -/
theorem diameter_eq :
    (∀ t : Tree, diameter t = diamSpec t) ∧
    (∀ (b : BTree) (t : Tree), b.toTrees = [t] → diameterB b = diamSpec t) ∧
    (top2Sum [] = 0 ∧ ∀ x l, top2Sum (x :: l) = max (top2Sum l) (x + lmax l)) :=
  ⟨diameter_eq_diamSpec, fun b t h => by rw [diameterB_eq b t h, diameter_eq_diamSpec],
    top2Sum_nil, top2Sum_cons⟩

example : diameter exWide = 5 ∧ diameter exTree = 4 ∧ diameterB exBin = 1 := by decide

/-- (Tier 2) `diameter` = the number of edges on the longest path inside the subtree: no two
    nodes of the subtree are further apart (`dist u v = |u| + |v| − 2·|common prefix|`, which is
    the number of edges of the `go_to` path, `go_to_simple_path`), and some pair is exactly that
    far apart.  Stated for a whole tree and for the subtree at any node `a` of `R`. -/
theorem diameter_longest_path :
    (∀ t : Tree, (∀ u ∈ locs t, ∀ v ∈ locs t, dist u v ≤ diameter t) ∧
      (∃ u ∈ locs t, ∃ v ∈ locs t, dist u v = diameter t)) ∧
    (∀ (R : Tree) (a : Addr) (t : Tree), sub R a = some t →
      (∀ u ∈ subtreeLocs R a, ∀ v ∈ subtreeLocs R a, dist u v ≤ diameterAt R a) ∧
      (∃ u ∈ subtreeLocs R a, ∃ v ∈ subtreeLocs R a, dist u v = diameterAt R a)) := by
  have h1 : ∀ t : Tree, (∀ u ∈ locs t, ∀ v ∈ locs t, dist u v ≤ diameter t) ∧
      (∃ u ∈ locs t, ∃ v ∈ locs t, dist u v = diameter t) := by
    intro t
    rw [diameter_eq_diamSpec]
    exact ⟨dist_le_diamSpec t, exists_pair_diamSpec t⟩
  refine ⟨h1, ?_⟩
  intro R a t h
  simp only [diameterAt, h, subtreeLocs_of_sub h]
  constructor
  · intro u hu v hv
    rcases List.mem_map.1 hu with ⟨x, hx, rfl⟩
    rcases List.mem_map.1 hv with ⟨y, hy, rfl⟩
    rw [dist_append_left]
    exact (h1 t).1 x hx y hy
  · rcases (h1 t).2 with ⟨x, hx, y, hy, hd⟩
    exact ⟨a ++ x, List.mem_map.2 ⟨x, hx, rfl⟩, a ++ y, List.mem_map.2 ⟨y, hy, rfl⟩,
      by rw [dist_append_left, hd]⟩

example : sub exTree [0] = some (.node 1 ['a'] [] [.node 2 ['c'] [] [], .node 3 ['d'] [] [.node 4 ['e'] [] []]])
    ∧ diameterAt exTree [0] = 3 ∧ dist [0, 0] [0, 1, 0] = 3 := by decide

end C12
