import BigtreeModel.CopyStore
import BigtreeProofs.Lemmas.CopyStore
import BigtreeProofs.Lemmas.CopyStoreGrow
/-!
# C07 — readers never alter or alias their input (Model A, `CopyStore`)

`copy`, `clone_tree`, `prune_tree`, `get_subtree` work on fresh cells (ids `≥ s.n`); the cells of
the input (`< s.n`) are untouched, no `parent`/`children` link crosses the boundary `s.n`
(`Sep`), and hence no later mutation history on one side is visible on the other side.

The non-vacuity examples use `CopyStore.s4` (root "r" = 0 with children "a" = 1, "b" = 2;
"c" = 3 below "a"), defined in `Lemmas/CopyStore.lean`.
-/
namespace C07
open CopyStore

def AllHi (k : Nat) (ops : List Op) : Prop := ∀ op ∈ ops, ∀ a ∈ op.args, k ≤ a
def AllLo (k : Nat) (ops : List Op) : Prop := ∀ op ∈ ops, ∀ a ∈ op.args, a < k
def OneSided (k : Nat) (ops : List Op) : Prop :=
  ∀ op ∈ ops, (∀ a ∈ op.args, a < k) ∨ (∀ a ∈ op.args, k ≤ a)

/-! ## the copy is fresh -/

theorem copy_fresh (s : Store) (v : Nat) (hc : Closed s) :
    (∀ i, i < s.n → (deepCopy s v).1.cell? i = s.cell? i)
    ∧ s.n ≤ (deepCopy s v).2
    ∧ Sep (deepCopy s v).1 s.n
    ∧ Closed (deepCopy s v).1
    ∧ ∀ f, toTree (deepCopy s v).1 f (deepCopy s v).2 = shiftIds s.n (toTree s f v) :=
  ⟨fun i hi => deepCopy_cell_lo s v i hi,
    by rw [deepCopy_snd]; omega,
    sep_deepCopy s v s.n (closed_sep s hc) (Nat.le_refl _),
    closed_deepCopy s v hc,
    fun f => toTree_deepCopy s v f v⟩

/-- non-vacuity: `s4` is closed, the copy of "a" (id 1) is the fresh id 5, the copy has 8 cells,
    and the tree read at the copy is the tree at "a" with shifted ids -/
example : Closed s4 ∧ s4.n = 4 ∧ (deepCopy s4 1).2 = 5 ∧ (deepCopy s4 1).1.n = 8
    ∧ toTree (deepCopy s4 1).1 8 5
        = .node 5 ['a'] [(['x'], .int 1)] [.node 7 ['c'] [] []]
    ∧ toTree s4 8 1 = .node 1 ['a'] [(['x'], .int 1)] [.node 3 ['c'] [] []] :=
  ⟨s4_closed, rfl, rfl, rfl, rfl, rfl⟩
example : (∀ i, i < 4 → (deepCopy s4 1).1.cell? i = s4.cell? i) ∧ Sep (deepCopy s4 1).1 4 :=
  have h := copy_fresh s4 1 s4_closed
  ⟨h.1, h.2.2.1⟩

/-! ## a mutation stays on its side -/

theorem sep_step (s : Store) (k : Nat) (op : Op) (hs : Sep s k) :
    ((∀ a ∈ op.args, k ≤ a) → Sep (step s op) k ∧ ∀ i, i < k → (step s op).cell? i = s.cell? i)
    ∧ ((∀ a ∈ op.args, a < k) → Sep (step s op) k ∧ ∀ i, k ≤ i → (step s op).cell? i = s.cell? i) :=
  ⟨fun ha => (inv_step op (inv_hi_of_sep hs) ha).hi,
    fun ha => (inv_step op (inv_lo_of_sep hs) ha).lo⟩

/-- non-vacuity: on the copy of `s4` (separated at 4) re-parenting the copied "c" (7) under the
    copied "b" (6) is a high operation that really changes the store; `del root.children` on the
    original (0) is a low operation that really changes the store -/
example : Sep (deepCopy s4 1).1 4
    ∧ (∀ a ∈ (Op.setParent 7 (some 6)).args, 4 ≤ a)
    ∧ step (deepCopy s4 1).1 (.setParent 7 (some 6)) ≠ (deepCopy s4 1).1
    ∧ (∀ a ∈ (Op.delChildren 0).args, a < 4)
    ∧ step (deepCopy s4 1).1 (.delChildren 0) ≠ (deepCopy s4 1).1 :=
  ⟨(copy_fresh s4 1 s4_closed).2.2.1, by decide, by decide, by decide, by decide⟩

theorem sep_run (s : Store) (k : Nat) (ops : List Op) (hs : Sep s k) (h1 : OneSided k ops) :
    Sep (run s ops) k := by
  induction ops generalizing s with
  | nil => exact hs
  | cons op ops ih =>
    unfold run
    rw [List.foldl_cons]
    refine ih (step s op) ?_ (fun o ho => h1 o (List.mem_cons_of_mem _ ho))
    rcases h1 op List.mem_cons_self with h | h
    · exact ((sep_step s k op hs).2 h).1
    · exact ((sep_step s k op hs).1 h).1

/-- non-vacuity: an interleaved history on the copy of `s4`, each operation on one side -/
example : OneSided 4 [.setParent 3 (some 2), .setParent 7 (some 6), .delChildren 0, .setName 5 ['z']] := by
  unfold OneSided; decide
example : Sep (run (deepCopy s4 1).1
    [.setParent 3 (some 2), .setParent 7 (some 6), .delChildren 0, .setName 5 ['z']]) 4 :=
  sep_run _ 4 _ (copy_fresh s4 1 s4_closed).2.2.1 (by unfold OneSided; decide)
/-- the hypothesis `OneSided` is not idle: a cross-boundary re-parenting breaks `Sep` -/
example : ¬ OneSided 4 [.setParent 7 (some 2)] := by unfold OneSided; decide

/-! ## no aliasing between the original and the copy -/

theorem no_alias_after_copy (s : Store) (v : Nat) (hc : Closed s) (ops : List Op) :
    (AllHi s.n ops → ∀ i, i < s.n → (run (deepCopy s v).1 ops).cell? i = s.cell? i)
    ∧ (AllLo s.n ops → ∀ i, s.n ≤ i → (run (deepCopy s v).1 ops).cell? i = (deepCopy s v).1.cell? i) := by
  have hs : Sep (deepCopy s v).1 s.n := (copy_fresh s v hc).2.2.1
  refine ⟨fun h i hi => ?_, fun h i hi => ?_⟩
  · rw [← deepCopy_cell_lo s v i hi]
    exact (inv_run ops _ (inv_hi_of_sep hs) h).hi.2 i hi
  · exact (inv_run ops _ (inv_lo_of_sep hs) h).lo.2 i hi

/-- non-vacuity: a high history that rewires, prunes, renames and re-attributes the copy of `s4`
    (and really changes it), and a low history that does the same to the original -/
example : AllHi s4.n [.setParent 7 (some 6), .delChildren 4, .setName 5 ['z'], .setAttr 6 ['k'] (.bool true)]
    ∧ (run (deepCopy s4 1).1
        [.setParent 7 (some 6), .delChildren 4, .setName 5 ['z'], .setAttr 6 ['k'] (.bool true)]).cell? 6
      = some ⟨none, [7], ['b'], [(['k'], .bool true)]⟩
    ∧ (deepCopy s4 1).1.cell? 6 = some ⟨some 4, [], ['b'], []⟩ :=
  ⟨by unfold AllHi; decide, rfl, rfl⟩
example : AllLo s4.n [.setParent 3 (some 2), .delChildren 0, .setName 1 ['z']]
    ∧ (run (deepCopy s4 1).1 [.setParent 3 (some 2), .delChildren 0, .setName 1 ['z']]).cell? 1
      = some ⟨none, [], ['z'], [(['x'], .int 1)]⟩
    ∧ (deepCopy s4 1).1.cell? 1 = some ⟨some 0, [3], ['a'], [(['x'], .int 1)]⟩ :=
  ⟨by unfold AllLo; decide, rfl, rfl⟩

/-! ## the mutating "readers" -/

theorem clone_frame (s : Store) (v : Nat) (hc : Closed s) :
    (∀ i, i < s.n → (cloneA s v).1.cell? i = s.cell? i)
    ∧ s.n ≤ (cloneA s v).2 ∧ Sep (cloneA s v).1 s.n :=
  cloneA_frame v hc

/-- non-vacuity: cloning from "c" (3) clones the whole tree from the root: four fresh cells
    4 … 7, the clone of the root is 4 and has two children -/
example : (cloneA s4 3).2 = 4 ∧ (cloneA s4 3).1.n = 8
    ∧ (cloneA s4 3).1.cell? 4 = some ⟨none, [5, 7], ['r'], []⟩ :=
  ⟨rfl, rfl, rfl⟩

theorem prune_frame (treeSep : Str) (s : Store) (v : Nat) (paths : List Str) (exact : Bool) (sepArg : Str)
    (md : Nat) (hc : Closed s) (r : Store × Nat) (h : pruneA treeSep s v paths exact sepArg md = .ok r) :
    (∀ i, i < s.n → r.1.cell? i = s.cell? i) ∧ s.n ≤ r.2 ∧ Sep r.1 s.n :=
  pruneA_frame_gen s.n (closed_sep s hc) (Nat.le_refl _) h

/-- non-vacuity: `prune_tree(root, "r/a", exact=True, max_depth=2)` succeeds on `s4`, returns the
    fresh node 4, and has really detached the copies of "b" (6) and "c" (7) -/
example : ∃ r, pruneA ['/'] s4 0 [['r', '/', 'a']] true ['/'] 2 = .ok r
    ∧ r.2 = 4 ∧ r.1.cell? 4 = some ⟨none, [5], ['r'], []⟩
    ∧ r.1.parentOf 6 = none ∧ r.1.parentOf 7 = none ∧ (deepCopy s4 0).1.parentOf 7 = some 5 :=
  ⟨_, rfl, rfl, rfl, rfl, rfl, rfl⟩
/-- the error branches are reachable as well (so `h` is a genuine hypothesis) -/
example : pruneA ['/'] s4 0 [] false ['/'] 0 = .error .valueError
    ∧ pruneA ['/'] s4 0 [['q']] false ['/'] 0 = .error .notFound :=
  ⟨rfl, rfl⟩

theorem get_subtree_frame (treeSep : Str) (s : Store) (v : Nat) (q : Str) (md : Nat) (hc : Closed s)
    (r : Store × Nat) (h : getSubtreeA treeSep s v q md = .ok r) :
    (∀ i, i < s.n → r.1.cell? i = s.cell? i) ∧ s.n ≤ r.2 ∧ Sep r.1 s.n :=
  getSubtreeA_frame hc h

/-- non-vacuity: `get_subtree(root, "a", max_depth=1)` succeeds on `s4`; it copies twice (16
    cells), returns the fresh node 13 (the copy of the copy of "a") with its children removed;
    without a depth limit it returns the first copy 5, detached from its parent -/
example : ∃ r, getSubtreeA ['/'] s4 0 ['a'] 1 = .ok r
    ∧ r.2 = 13 ∧ r.1.n = 16 ∧ r.1.cell? 13 = some ⟨none, [], ['a'], [(['x'], .int 1)]⟩ :=
  ⟨_, rfl, rfl, rfl, rfl⟩
example : ∃ r, getSubtreeA ['/'] s4 0 ['a'] 0 = .ok r
    ∧ r.2 = 5 ∧ r.1.cell? 5 = some ⟨none, [7], ['a'], [(['x'], .int 1)]⟩ :=
  ⟨_, rfl, rfl, rfl⟩
example : getSubtreeA ['/'] s4 0 ['q'] 0 = .error .valueError := rfl

/-! ## Tier 2: interleaved histories -/

/-- In a history each of whose operations has all its arguments on one side of `k`, started in a
    store separated at `k`: at every position the store is still separated, and the operation at
    that position changes cells of its own side only. -/
theorem mixed_history_frame (s : Store) (k : Nat) (ops : List Op) (hs : Sep s k) (h1 : OneSided k ops)
    (pre : List Op) (op : Op) (post : List Op) (he : ops = pre ++ op :: post) :
    Sep (run s pre) k
    ∧ run s (pre ++ [op]) = step (run s pre) op
    ∧ ((∀ a ∈ op.args, k ≤ a) → ∀ i, i < k → (run s (pre ++ [op])).cell? i = (run s pre).cell? i)
    ∧ ((∀ a ∈ op.args, a < k) → ∀ i, k ≤ i → (run s (pre ++ [op])).cell? i = (run s pre).cell? i) := by
  subst he
  have hpre : Sep (run s pre) k :=
    sep_run s k pre hs (fun o ho => h1 o (List.mem_append_left _ ho))
  have hr : run s (pre ++ [op]) = step (run s pre) op := by
    simp [run, List.foldl_append]
  refine ⟨hpre, hr, fun ha => ?_, fun ha => ?_⟩
  · rw [hr]; exact ((sep_step _ k op hpre).1 ha).2
  · rw [hr]; exact ((sep_step _ k op hpre).2 ha).2

/-- consequence for the copy: whatever one-sided history is run on `deepCopy s v`, a high
    operation never changes an original cell and a low operation never changes a copy cell -/
theorem mixed_history_after_copy (s : Store) (v : Nat) (hc : Closed s) (ops : List Op)
    (h1 : OneSided s.n ops) (pre : List Op) (op : Op) (post : List Op) (he : ops = pre ++ op :: post) :
    ((∀ a ∈ op.args, s.n ≤ a) → ∀ i, i < s.n →
        (run (deepCopy s v).1 (pre ++ [op])).cell? i = (run (deepCopy s v).1 pre).cell? i)
    ∧ ((∀ a ∈ op.args, a < s.n) → ∀ i, s.n ≤ i →
        (run (deepCopy s v).1 (pre ++ [op])).cell? i = (run (deepCopy s v).1 pre).cell? i) :=
  have h := mixed_history_frame (deepCopy s v).1 s.n ops (copy_fresh s v hc).2.2.1 h1 pre op post he
  ⟨h.2.2.1, h.2.2.2⟩

/-- non-vacuity: the interleaved history of `sep_run`'s example, split at its high operation -/
example :
    let ops : List Op := [.setParent 3 (some 2), .setParent 7 (some 6), .delChildren 0, .setName 5 ['z']]
    OneSided s4.n ops ∧ ops = [.setParent 3 (some 2)] ++ .setParent 7 (some 6) :: [.delChildren 0, .setName 5 ['z']]
    ∧ (∀ a ∈ (Op.setParent 7 (some 6)).args, s4.n ≤ a)
    ∧ run (deepCopy s4 1).1 [.setParent 3 (some 2), .setParent 7 (some 6)]
        ≠ run (deepCopy s4 1).1 [.setParent 3 (some 2)] :=
  ⟨by unfold OneSided; decide, rfl, by decide, by decide⟩

/-! ## histories that also attach fresh nodes

`Node(name, parent=v)` allocates a fresh id, so the sides of a copy are no longer an id range: a
`World` carries the side of every id and a grown node joins the side of the node it is attached to
(`CopyStore.hstep`). -/

/-- the store after `deepCopy s v` with its two sides: ids `< s.n` the original, ids `≥ s.n` the copy -/
def copyWorld (s : Store) (v : Nat) : World := ⟨(deepCopy s v).1, fun i => decide (s.n ≤ i)⟩

theorem copyWorld_ok (s : Store) (v : Nat) (hc : Closed s) :
    Closed (copyWorld s v).st ∧ WSep (copyWorld s v) := by
  obtain ⟨_, _, hsep, hcl, _⟩ := copy_fresh s v hc
  refine ⟨hcl, ?_⟩
  have := (sep_iff_ge _ _).mp hsep
  intro i c hic
  have h := this i c hic
  exact ⟨fun p hp => by simpa [copyWorld] using h.1 p hp, fun ch hch => by simpa [copyWorld] using h.2 ch hch⟩

/-- **no_alias_after_copy, with growth.** Any history on the copy — re-parenting, detaching,
    `del children`, attribute changes, renames AND attaching brand-new nodes (which may in turn be
    operated on) — leaves every cell of the original exactly as it was; and any such history on the
    original leaves every cell of the copy as `deepCopy` made it. -/
theorem no_alias_with_growth (s : Store) (v : Nat) (hc : Closed s) (ops : List HOp) :
    (AllOn true (copyWorld s v) ops →
      ∀ i, i < s.n → (hrun (copyWorld s v) ops).st.cell? i = s.cell? i)
    ∧ (AllOn false (copyWorld s v) ops →
      ∀ i, s.n ≤ i → i < s.n + s.n → (hrun (copyWorld s v) ops).st.cell? i = (deepCopy s v).1.cell? i) := by
  obtain ⟨hcl, hsep⟩ := copyWorld_ok s v hc
  have hn : (copyWorld s v).st.n = s.n + s.n := deepCopy_n s v
  refine ⟨fun h i hi => ?_, fun h i h1 h2 => ?_⟩
  · have := (hrun_frame true ops _ hcl hsep h).2.2 i (by rw [hn]; omega) (by simp [copyWorld]; omega)
    rw [this]
    exact (copy_fresh s v hc).1 i hi
  · exact (hrun_frame false ops _ hcl hsep h).2.2 i (by rw [hn]; omega) (by simp [copyWorld]; omega)

/-- interleaved histories with growth: as long as every operation acts on one side (as the sides
    are at that moment), no link ever joins the two sides, and each single operation leaves the
    other side's cells unchanged -/
theorem mixed_growth_frame (w : World) (hc : Closed w.st) (hs : WSep w) (ops : List HOp)
    (h : EachOneSided w ops) :
    Closed (hrun w ops).st ∧ WSep (hrun w ops) :=
  hrun_sep ops w hc hs h

theorem growth_step_frame (w : World) (op : HOp) (b : Bool) (hc : Closed w.st) (hs : WSep w)
    (ha : ∀ a ∈ op.args, w.side a = b) :
    WSep (hstep w op) ∧ (∀ i, i < w.st.n → (hstep w op).side i = w.side i)
      ∧ (∀ i, i < w.st.n → w.side i ≠ b → (hstep w op).st.cell? i = w.st.cell? i) :=
  let h := hstep_frame w op b hc hs ha
  ⟨h.2.1, h.2.2.2.1, h.2.2.2.2⟩

/-- a one-node tree -/
def s1 : Store := ⟨[⟨none, [], ['r'], []⟩]⟩

/-- non-vacuity (the one-node case, where a copy that shared the child list with its original
    would show): the copy of `s1` is cell 1; growing a child under the copy, then a grandchild under
    that new node, is a history on the copy's side; it really changes the copy and leaves the
    original cell 0 without children -/
example : Closed s1
    ∧ AllOn true (copyWorld s1 0) [.grow 1 ['n'], .grow 2 ['m'], .op (.setName 2 ['q'])]
    ∧ ((hrun (copyWorld s1 0) [.grow 1 ['n'], .grow 2 ['m'], .op (.setName 2 ['q'])]).st.cell? 1).map (·.children) = some [2]
    ∧ ((hrun (copyWorld s1 0) [.grow 1 ['n'], .grow 2 ['m'], .op (.setName 2 ['q'])]).st.cell? 2).map (·.children) = some [3]
    ∧ ((hrun (copyWorld s1 0) [.grow 1 ['n'], .grow 2 ['m'], .op (.setName 2 ['q'])]).st.cell? 0) = s1.cell? 0 :=
  ⟨closed_of_closedB s1 (by decide), by simp [AllOn, HOp.args, hstep, copyWorld, Op.args, s1, deepCopy, Store.n, grow, alloc], by decide, by decide, by decide⟩

/-- and growing under the original is a history on the original's side that leaves the copy alone -/
example : AllOn false (copyWorld s1 0) [.grow 0 ['n'], .grow 2 ['m']]
    ∧ ((hrun (copyWorld s1 0) [.grow 0 ['n'], .grow 2 ['m']]).st.cell? 0).map (·.children) = some [2]
    ∧ (hrun (copyWorld s1 0) [.grow 0 ['n'], .grow 2 ['m']]).st.cell? 1 = (deepCopy s1 0).1.cell? 1 :=
  ⟨by simp [AllOn, HOp.args, hstep, copyWorld, s1, deepCopy, Store.n, grow, alloc], by decide, by decide⟩

end C07
