import BigtreeModel.Relation
import BigtreeProofs.Lemmas.Heap
import BigtreeProofs.Lemmas.Nested
/-!
# C13 — relation, nested-dict and heap-list constructors build exactly the given edges
-/
open Paths

namespace C13

/-! ## list_to_binarytree -/

/-- A non-empty list is never refused, and `node_list` ends up heap-shaped: slot `p` holds
    `xs[p]` and points to `2p+1` / `2p+2` exactly when these positions exist. -/
theorem heap_store (xs : List Int) (h : xs ≠ []) :
    Heap.listToStore xs = .ok (Heap.specStore xs) := Heap.listToStore_eq xs h

/-- The element at position `i ≥ 1` is the child of the element at position `(i-1)/2`
    (which is what the Python index expression computes), in the left slot for odd `i`, in the
    right slot for even `i`; and no other slot points to it. -/
theorem heap_parent (xs : List Int) (st : List Heap.Slot) (h : Heap.listToStore xs = .ok st)
    (i : Nat) (h1 : 1 ≤ i) (hi : i < xs.length) :
    Heap.parentIdx i = (i - 1) / 2 ∧
    (∃ s, st[(i - 1) / 2]? = some s ∧ xs[(i - 1) / 2]? = some s.val ∧
      (if i % 2 = 1 then s.left = some i else s.right = some i)) ∧
    (∀ p s, st[p]? = some s → (s.left = some i ∨ s.right = some i) → p = (i - 1) / 2) := by
  have hne : xs ≠ [] := by intro e; subst e; simp at hi
  rw [heap_store xs hne] at h
  cases h
  refine ⟨by unfold Heap.parentIdx; omega, ?_, ?_⟩
  · have hp : (i - 1) / 2 < xs.length := by omega
    refine ⟨Heap.slotOf xs.length ((i - 1) / 2) xs[(i - 1) / 2], ?_, ?_, ?_⟩
    · rw [Heap.specStore_get, List.getElem?_eq_getElem hp]; rfl
    · rw [List.getElem?_eq_getElem hp]; rfl
    · simp only [Heap.slotOf]
      split
      · rw [if_pos (by omega)]; congr 1; omega
      · rw [if_pos (by omega)]; congr 1; omega
  · intro p s hs hor
    rw [Heap.specStore_get] at hs
    cases hx : xs[p]? with
    | none => rw [hx] at hs; cases hs
    | some v =>
      rw [hx] at hs
      simp only [Option.map, Option.some.injEq] at hs
      subst hs
      simp only [Heap.slotOf] at hor
      rcases hor with hor | hor
      · split at hor
        · cases hor; omega
        · cases hor
      · split at hor
        · cases hor; omega
        · cases hor

example : Heap.listToStore [5, 3, 8, 1] =
    .ok [⟨5, some 1, some 2⟩, ⟨3, some 3, none⟩, ⟨8, none, none⟩, ⟨1, none, none⟩] := by rfl

/-- The returned tree is the heap-shaped tree read directly off the list. -/
theorem heap_tree (xs : List Int) (h : xs ≠ []) :
    Heap.listToBinary xs = .ok (Heap.heapTree xs xs.length 0) := by
  unfold Heap.listToBinary
  rw [heap_store xs h]
  simp only [Heap.specStore_length, Heap.readBack_spec]

example : Heap.listToBinary [1, 2, 3, 4] = .ok
    (.node 0 ['1'] [] (.node 1 ['2'] [] (.node 3 ['4'] [] .nil .nil) .nil) (.node 2 ['3'] [] .nil .nil)) := by
  rw [heap_tree _ (by simp)]; simp [Heap.heapTree]; decide

/-- An empty list is refused with `ValueError`. -/
theorem heap_empty_refused : Heap.listToBinary [] = .error .value := rfl

/-! ## nested_dict_to_tree -/

/-- The tree mirrors the nesting exactly: reading the result back as a nested dictionary
    (names, attributes, children in order) gives the input. -/
theorem nested_mirror (d : NDict) (t : Tree) (h : d.toTree = .ok t) : NDict.ofTree t = d :=
  NDict.toTree_mirror d t h

/-- A nested dictionary is accepted exactly when its names are non-empty and sibling names
    are pairwise different (what a `Node` tree can represent). -/
theorem nested_accepted_iff (d : NDict) : (∃ t, d.toTree = .ok t) ↔ NDict.WF d :=
  ⟨fun ⟨t, h⟩ => NDict.toTree_wf d t h, NDict.toTree_accepts d⟩

example : (NDict.mk ['a'] [(['v'], .int 1)] [.mk ['b'] [] [.mk ['a'] [] []], .mk ['c'] [] []]).toTree =
    .ok (.node 0 ['a'] [(['v'], .int 1)] [.node 0 ['b'] [] [.node 0 ['a'] [] []], .node 0 ['c'] [] []]) := by
  rfl

example : NDict.WF (.mk ['a'] [] [.mk ['b'] [] [], .mk ['c'] [] []]) := by
  simp [NDict.WF, NDict.WFL, NDict.name]

example : (NDict.mk ['a'] [] [.mk ['b'] [] [], .mk ['b'] [] []]).toTree = .error .tree := by rfl

end C13
