import BigtreeModel.Relation
import BigtreeProofs.Lemmas.Heap
import BigtreeProofs.Lemmas.Nested
import BigtreeProofs.Lemmas.RelationBuild
import BigtreeProofs.Lemmas.RelationTree
import BigtreeProofs.Lemmas.RelationCheck
/-!
# C13 — relation, nested-dict and heap-list constructors build exactly the given edges
-/
open Paths

namespace C13

/-! ## list_to_binarytree -/

/-- A non-empty list is never refused, and `node_list` ends up heap-shaped: slot `p` holds
    `xs[p]` and points to `2p+1` / `2p+2` exactly when these positions exist. -/
theorem heap_store (xs : List Int) (h : xs ≠ []) :
    Heap.listToStore xs = .ok (Heap.specStore xs) := Heap.listToStore_eq xs h

/-- The element at position `i ≥ 1` is the child of the element at position `(i-1)/2`
    (which is what the Python index expression computes), in the left slot for odd `i`, in the
    right slot for even `i`; and no other slot points to it. -/
theorem heap_parent (xs : List Int) (st : List Heap.Slot) (h : Heap.listToStore xs = .ok st)
    (i : Nat) (h1 : 1 ≤ i) (hi : i < xs.length) :
    Heap.parentIdx i = (i - 1) / 2 ∧
    (∃ s, st[(i - 1) / 2]? = some s ∧ xs[(i - 1) / 2]? = some s.val ∧
      (if i % 2 = 1 then s.left = some i else s.right = some i)) ∧
    (∀ p s, st[p]? = some s → (s.left = some i ∨ s.right = some i) → p = (i - 1) / 2) := by
  have hne : xs ≠ [] := by intro e; subst e; simp at hi
  rw [heap_store xs hne] at h
  cases h
  refine ⟨by unfold Heap.parentIdx; omega, ?_, ?_⟩
  · have hp : (i - 1) / 2 < xs.length := by omega
    refine ⟨Heap.slotOf xs.length ((i - 1) / 2) xs[(i - 1) / 2], ?_, ?_, ?_⟩
    · rw [Heap.specStore_get, List.getElem?_eq_getElem hp]; rfl
    · rw [List.getElem?_eq_getElem hp]; rfl
    · simp only [Heap.slotOf]
      split
      · rw [if_pos (by omega)]; congr 1; omega
      · rw [if_pos (by omega)]; congr 1; omega
  · intro p s hs hor
    rw [Heap.specStore_get] at hs
    cases hx : xs[p]? with
    | none => rw [hx] at hs; cases hs
    | some v =>
      rw [hx] at hs
      simp only [Option.map, Option.some.injEq] at hs
      subst hs
      simp only [Heap.slotOf] at hor
      rcases hor with hor | hor
      · split at hor
        · cases hor; omega
        · cases hor
      · split at hor
        · cases hor; omega
        · cases hor

example : Heap.listToStore [5, 3, 8, 1] =
    .ok [⟨5, some 1, some 2⟩, ⟨3, some 3, none⟩, ⟨8, none, none⟩, ⟨1, none, none⟩] := by rfl

/-- The returned tree is the heap-shaped tree read directly off the list. -/
theorem heap_tree (xs : List Int) (h : xs ≠ []) :
    Heap.listToBinary xs = .ok (Heap.heapTree xs xs.length 0) := by
  unfold Heap.listToBinary
  rw [heap_store xs h]
  simp only [Heap.specStore_length, Heap.readBack_spec]

example : Heap.listToBinary [1, 2, 3, 4] = .ok
    (.node 0 ['1'] [] (.node 1 ['2'] [] (.node 3 ['4'] [] .nil .nil) .nil) (.node 2 ['3'] [] .nil .nil)) := by
  rw [heap_tree _ (by simp)]; simp [Heap.heapTree]; decide

/-- An empty list is refused with `ValueError`. -/
theorem heap_empty_refused : Heap.listToBinary [] = .error .value := rfl

/-! ## nested_dict_to_tree -/

/-- The tree mirrors the nesting exactly: reading the result back as a nested dictionary
    (names, attributes, children in order) gives the input. -/
theorem nested_mirror (d : NDict) (t : Tree) (h : d.toTree = .ok t) : NDict.ofTree t = d :=
  NDict.toTree_mirror d t h

/-- A nested dictionary is accepted exactly when its names are non-empty and sibling names
    are pairwise different (what a `Node` tree can represent). -/
theorem nested_accepted_iff (d : NDict) : (∃ t, d.toTree = .ok t) ↔ NDict.WF d :=
  ⟨fun ⟨t, h⟩ => NDict.toTree_wf d t h, NDict.toTree_accepts d⟩

example : (NDict.mk ['a'] [(['v'], .int 1)] [.mk ['b'] [] [.mk ['a'] [] []], .mk ['c'] [] []]).toTree =
    .ok (.node 0 ['a'] [(['v'], .int 1)] [.node 0 ['b'] [] [.node 0 ['a'] [] []], .node 0 ['c'] [] []]) := by
  rfl

example : NDict.WF (.mk ['a'] [] [.mk ['b'] [] [], .mk ['c'] [] []]) := by
  simp [NDict.WF, NDict.WFL, NDict.name]

example : (NDict.mk ['a'] [] [.mk ['b'] [] [], .mk ['b'] [] []]).toTree = .error .tree := by rfl

/-! ## *_by_relation -/

/-- `relToTree` rows that are ANY permutation of the edge list of a tree `T` (sibling names
    pairwise different, names non-empty, the name of a non-leaf carried by no other node —
    leaf names may repeat) are accepted, whatever `allow_duplicates` is:

    * the root is the unique root candidate (`rootNames rows = [T.name]`, see `root_candidates`);
    * the result has exactly the given edges (`edges` of the result is a permutation of the
      rows, cells without value dropped) — so the fuel `rows.length + 1` sufficed;
    * at every node of the result the children are the rows naming it as parent, in row order,
      each carrying its own row's non-null cells (`ChildSpec`). -/
theorem relation_exact (T : Tree) (hsu : SibUnique T) (hu : Rel.NonLeafUnique T)
    (hne : ∀ b n, nodeAt b T = some n → n.name ≠ []) (rows : List Rel.Row)
    (hperm : rows.Perm (Rel.edges T)) (hrows : rows ≠ []) (allowDup : Bool) :
    Rel.rootNames rows = [T.name] ∧
    ∃ cs, Rel.relToTree allowDup rows = .ok (.node 0 T.name [] cs) ∧
      (Rel.edges (.node 0 T.name [] cs)).Perm (rows.map Rel.norm) ∧
      ∀ a n, nodeAt a (.node 0 T.name [] cs) = some n → Rel.ChildSpec rows n :=
  Rel.relToTree_tree T hsu hu hne rows hperm hrows allowDup

/-- The same with a row `(root, no parent, cells)` anywhere among the rows (the documented way to
    give the root attributes): accepted, same root, same edges, and the root carries that row's
    non-null cells. -/
theorem relation_exact_rootrow (T : Tree) (hsu : SibUnique T) (hu : Rel.NonLeafUnique T)
    (hne : ∀ b n, nodeAt b T = some n → n.name ≠ []) (cells : Attrs) (rows : List Rel.Row)
    (hperm : rows.Perm (⟨T.name, none, cells⟩ :: Rel.edges T)) (allowDup : Bool) :
    Rel.rootNames rows = [T.name] ∧
    ∃ cs, Rel.relToTree allowDup rows = .ok (.node 0 T.name (cells.filter fun kv => kv.2 ≠ .null) cs) ∧
      (Rel.edges (.node 0 T.name [] cs)).Perm ((Rel.edges T).map Rel.norm) ∧
      ∀ a n, nodeAt a (.node 0 T.name (cells.filter fun kv => kv.2 ≠ .null) cs) = some n →
        Rel.ChildSpec rows n :=
  Rel.relToTree_tree_rootrow T hsu hu hne cells rows hperm allowDup

example : Rel.relToTree false [⟨['b'], some ['a'], []⟩, ⟨['a'], none, [(['v'], .int 9), (['w'], .null)]⟩] =
    .ok (.node 0 ['a'] [(['v'], .int 9)] [.node 0 ['b'] [] []]) := by rfl

/-- Whatever the input: if the constructor returns a tree, the children of every node are the
    rows naming it as parent, in row order, with the row's non-null cells as attributes. -/
theorem relation_children_in_row_order (allowDup : Bool) (rows : List Rel.Row) (t : Tree)
    (h : Rel.relToTree allowDup rows = .ok t) :
    ∀ a n, nodeAt a t = some n → Rel.ChildSpec rows n := by
  unfold Rel.relToTree at h
  split at h
  · cases h
  · split at h
    · cases h
    · split at h
      · rename_i rootName _
        simp only at h
        split at h
        · cases h
        · cases hb : Rel.build rows (rows.length + 1) rootName with
          | error e => rw [hb] at h; cases h
          | ok cs =>
            rw [hb] at h
            simp only [Except.ok.injEq] at h
            subst h
            obtain ⟨s1, s2⟩ := Rel.build_spec rows _ _ cs hb
            intro a n hn
            cases a with
            | nil => simp at hn; subst hn; exact s1
            | cons k ks =>
              rw [nodeAt_cons] at hn
              simp only [Tree.children_node] at hn
              cases hk : cs[k]? with
              | none => rw [hk] at hn; cases hn
              | some d => rw [hk] at hn; exact s2 d (List.mem_of_getElem? hk) ks n hn
      · cases h

/-- non-vacuity: `a(b(x), c(x, y))` — the leaf name `x` occurs twice -/
def exT : Tree := .node 0 ['a'] []
  [.node 1 ['b'] [] [.node 2 ['x'] [(['v'], .int 1)] []],
   .node 3 ['c'] [] [.node 4 ['x'] [(['v'], .null)] [], .node 5 ['y'] [] []]]

example : SibUnique exT := by simp [exT, SibUnique, SibUniqueL]
example : Rel.NonLeafUnique exT := Rel.nonLeafUnique_of_check exT (by rfl)
example : Rel.edges exT = [⟨['b'], some ['a'], []⟩, ⟨['c'], some ['a'], []⟩, ⟨['x'], some ['b'], [(['v'], .int 1)]⟩,
    ⟨['x'], some ['c'], [(['v'], .null)]⟩, ⟨['y'], some ['c'], []⟩] := by rfl
/-- the rows of `exT` in another order: children come out in ROW order (`c` before `b`, `y` before `x`) -/
example : Rel.relToTree false [⟨['y'], some ['c'], []⟩, ⟨['x'], some ['c'], [(['v'], .null)]⟩, ⟨['c'], some ['a'], []⟩,
    ⟨['x'], some ['b'], [(['v'], .int 1)]⟩, ⟨['b'], some ['a'], []⟩] =
  .ok (.node 0 ['a'] [] [.node 0 ['c'] [] [.node 0 ['y'] [] [], .node 0 ['x'] [] []],
                          .node 0 ['b'] [] [.node 0 ['x'] [(['v'], .int 1)] []]]) := by rfl

/-- the root candidates are: children of rows without parent, and parents that are never a child;
    each is listed once -/
theorem root_candidates (rows : List Rel.Row) (x : Str) :
    (x ∈ Rel.rootNames rows ↔ Rel.IsRootCand rows x) ∧ (Rel.rootNames rows).Nodup :=
  ⟨Rel.mem_rootNames rows x, Rel.nodup_rootNames rows⟩

/-- Zero or several possible roots ⇒ `ValueError`; a child named under two different parents
    that is itself a parent ⇒ `ValueError` (with `allow_duplicates=False`). -/
theorem relation_refused (rows : List Rel.Row) :
    (∀ allowDup, (¬ ∃ x, ∀ y, Rel.IsRootCand rows y ↔ y = x) → Rel.relToTree allowDup rows = .error .value) ∧
    ((∃ r1 ∈ rows, ∃ r2 ∈ rows, ∃ r3 ∈ rows, r1.child = r2.child ∧ r1.parent ≠ r2.parent ∧
        r3.parent = some r1.child) → Rel.relToTree false rows = .error .value) := by
  constructor
  · intro allowDup h
    apply Rel.refused_of_rootNames
    intro x hx
    apply h
    refine ⟨x, fun y => ?_⟩
    rw [← Rel.mem_rootNames, hx]
    simp
  · rintro ⟨r1, h1, r2, h2, r3, h3, hc, hp, hpar⟩
    exact Rel.refused_of_dupChildren rows (Rel.dupChildren_of rows r1 r2 r3 h1 h2 h3 hc hp hpar)

/-- two roots -/
example : Rel.relToTree true [⟨['b'], some ['a'], []⟩, ⟨['d'], some ['c'], []⟩] = .error .value := by rfl
/-- no root (a cycle) -/
example : Rel.relToTree true [⟨['b'], some ['a'], []⟩, ⟨['a'], some ['b'], []⟩] = .error .value := by rfl
/-- `x` is a parent and occurs under `a` and under `b` -/
example : Rel.relToTree false [⟨['x'], some ['a'], []⟩, ⟨['b'], some ['a'], []⟩, ⟨['x'], some ['b'], []⟩,
    ⟨['y'], some ['x'], []⟩] = .error .value := by rfl

end C13
