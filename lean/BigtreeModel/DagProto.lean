import BigtreeModel.Proto
import BigtreeModel.Dag
/-! Protocol helpers shared by the C16 / C17 driver handlers (driver side only).

* edges `0>2,1>2` (`-` = none), in construction order;
* node attributes `A=<id>:<attrs>;<id>:<attrs>` with `<attrs>` as in `Proto` but `,` → `&`
  inside so that `;` and `,` stay free: here simply `Proto.showAttrs` (`xk:val,xk:val`);
* dict entries / rows `<name>/<parents p.q.r | - | ~>/<attrs>` separated by `;`
  (`~` = no parent key / null parent). -/
namespace DagProto
open Proto Dag

def parseEdge (s : String) : Option Edge :=
  match s.splitOn ">" with
  | [a, b] => do pure ((← a.toNat?), (← b.toNat?))
  | _ => none

def parseEdges (s : String) : Option (List Edge) :=
  if s == "-" || s == "" then some [] else (s.splitOn ",").mapM parseEdge

def showEdge (e : Edge) : String := toString e.1 ++ ">" ++ toString e.2
def showEdges (l : List Edge) : String := if l.isEmpty then "-" else ",".intercalate (l.map showEdge)

/-- `A=0:xk:i1,xj:sx61;3:xk:i2` → attribute function -/
def parseNodeAttrs (s : String) : Option (List (Nat × Attrs)) :=
  if s == "-" || s == "" then some [] else
  (s.splitOn ";").mapM fun item =>
    match item.splitOn ":" with
    | i :: rest => do pure ((← i.toNat?), (← parseAttrs (":".intercalate rest)))
    | _ => none

def attrFun (l : List (Nat × Attrs)) : Nat → Attrs := fun i => (l.lookup i).getD []

def showDots (l : List Nat) : String := ".".intercalate (l.map toString)

def parseDots (s : String) : Option (List Nat) :=
  if s == "" then some [] else (s.splitOn ".").mapM String.toNat?

def showEntry (e : DEntry) : String :=
  toString e.key ++ "/" ++ (match e.parents with | none => "~" | some [] => "-" | some ps => showDots ps)
    ++ "/" ++ showAttrs e.attrs

def showRow (r : Row) : String :=
  toString r.name ++ "/" ++ (match r.parent with | none => "~" | some p => toString p) ++ "/" ++ showAttrs r.attrs

def joinSemi (l : List String) : String := if l.isEmpty then "-" else ";".intercalate l

def parseEntry (s : String) : Option DEntry :=
  match s.splitOn "/" with
  | [k, ps, a] => do
    let key ← k.toNat?
    let attrs ← parseAttrs a
    let parents ← if ps == "~" then some none else if ps == "-" then some (some []) else (parseDots ps).map some
    pure { key, parents, attrs }
  | _ => none

def parseRow (s : String) : Option Row :=
  match s.splitOn "/" with
  | [k, p, a] => do
    let name ← k.toNat?
    let attrs ← parseAttrs a
    let parent ← if p == "~" then some none else p.toNat?.map some
    pure { name, parent, attrs }
  | _ => none

def parseSemi {α} (f : String → Option α) (s : String) : Option (List α) :=
  if s == "-" || s == "" then some [] else (s.splitOn ";").mapM f

/-- `sel=all` | `sel=pick:<xk>><xv>,<xk>><xv>` | `sel=pick:` (no attribute) -/
def parseSel (s : String) : Option AttrSel :=
  if s == "all" then some .all
  else if s.startsWith "pick:" then
    let body := (s.drop 5).toString
    if body == "" then some (.pick [])
    else ((body.splitOn ",").mapM fun (kv : String) =>
      match kv.splitOn ">" with
      | [k, v] => do pure ((← unhex k), (← unhex v))
      | _ => none).map .pick
  else none

def edgeLe (a b : Edge) : Bool := a.1 < b.1 || (a.1 == b.1 && a.2 ≤ b.2)

/-- canonical description of what a constructor handed back: the weakly connected component of
    the returned node — its nodes, its edges and the attributes of its nodes, all sorted -/
def showBuilt (b : Built) : String :=
  match b.ret with
  | none => "ret=dummy"
  | some r =>
    let st := b.dag.dagRun r
    let ns := st.vis.mergeSort (fun a b => a ≤ b)
    let es := st.out.mergeSort edgeLe
    "ret=" ++ toString r ++ " N=" ++ showNats ns ++ " E=" ++ showEdges es ++ " A=" ++
      joinSemi (ns.map fun i => toString i ++ ":" ++ showAttrs (sortByKey (b.dag.attrs i)))

def showErr : Err → String
  | .tree => "rej:TreeError"
  | .value => "rej:ValueError"

def showResult : Except Err Built → String
  | .ok b => showBuilt b
  | .error e => showErr e

end DagProto
