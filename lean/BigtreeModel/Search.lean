import BigtreeModel.Basic
import BigtreeModel.Query
/-!
# Search functions (bigtree/tree/search.py)

Model B: the searched tree is `R : Tree`, the start node an address `a` into it (`Query.Addr`);
`sep` is the separator stored at the root (`root._sep`, what `tree.sep` returns for every node).
A condition is a function of the located node (`Addr → Bool`), so conditions may read upwards
(`path_name`).  Results are lists of addresses, `SearchError` / `ValueError` are `Err.search` /
`Err.value`.

Strings are `List Char`; `lstrip/rstrip` strip a *set* of characters and `split` splits at
non-overlapping occurrences of the separator *string*, as Python's do.
-/

namespace Search
open Query

/-! ## strings -/

/-- `s.lstrip(chars)` -/
def lstrip (chars s : Str) : Str := s.dropWhile fun c => chars.contains c
/-- `s.rstrip(chars)` -/
def rstrip (chars s : Str) : Str := (s.reverse.dropWhile fun c => chars.contains c).reverse

def consHead (c : Char) : List Str → List Str
  | [] => [[c]]
  | w :: ws => (c :: w) :: ws

/-- `s.split(sep)` for a non-empty `sep`; the counter skips the remaining characters of a
    separator occurrence that has just been matched -/
def splitGo (sep : Str) : Nat → Str → List Str
  | _, [] => [[]]
  | k + 1, _ :: cs => splitGo sep k cs
  | 0, c :: cs =>
    if sep.isPrefixOf (c :: cs) then [] :: splitGo sep (sep.length - 1) cs
    else consHead c (splitGo sep 0 cs)

def split (sep s : Str) : List Str := splitGo sep 0 s

/-- `sep.join(xs)` -/
def join (sep : Str) (xs : List Str) : Str := sep.intercalate xs

/-- `s.endswith(t)` -/
def endsWith (s t : Str) : Bool := t.isSuffixOf s
/-- `s.startswith(t)` -/
def startsWith (s t : Str) : Bool := t.isPrefixOf s

/-! ## Node.path_name -/

/-- `Node.path_name`: `sep + sep.join(names of reversed([self] + ancestors))` -/
def pathName (R : Tree) (sep : Str) (a : Addr) : Str :=
  let ancestors := a :: Query.ancestors a
  sep ++ join sep (ancestors.reverse.map fun b => (nameAt R b).getD [])

/-! ## result-count contract, findall, find -/

inductive Err where
  | search      -- SearchError
  | value       -- ValueError
  | unmodelled  -- the absolute-path branch of find_relative_paths (out of scope, DESIGN §5)
  deriving DecidableEq, Repr

/-- `__check_result_count` -/
def checkResultCount (n minCount maxCount : Nat) : Except Err Unit :=
  if minCount != 0 && n < minCount then .error .search
  else if maxCount != 0 && n > maxCount then .error .search
  else .ok ()

/-- `findall`: the tuple of the filtered pre-order, then the count check -/
def findall (R : Tree) (a : Addr) (cond : Addr → Bool) (maxDepth minCount maxCount : Nat) :
    Except Err (List Addr) :=
  let result := preorderFrom R cond maxDepth a
  match checkResultCount result.length minCount maxCount with
  | .error e => .error e
  | .ok () => .ok result

/-- `find`: `findall(..., max_count=1)`, then `result[0]` if the tuple is non-empty -/
def find (R : Tree) (a : Addr) (cond : Addr → Bool) (maxDepth : Nat) : Except Err (Option Addr) :=
  match findall R a cond maxDepth 0 1 with
  | .error e => .error e
  | .ok result => .ok result.head?

/-! ## name, path and attribute predicates -/

def nameIs (R : Tree) (name : Str) (b : Addr) : Bool := nameAt R b == some name

def findName (R : Tree) (a : Addr) (name : Str) (maxDepth : Nat) : Except Err (Option Addr) :=
  find R a (nameIs R name) maxDepth

def findNames (R : Tree) (a : Addr) (name : Str) (maxDepth : Nat) : Except Err (List Addr) :=
  findall R a (nameIs R name) maxDepth 0 0

/-- the predicate of `find_path(s)`: `_node.path_name.endswith(path_name.rstrip(sep))` -/
def pathEndsWith (R : Tree) (sep q : Str) (b : Addr) : Bool :=
  endsWith (pathName R sep b) (rstrip sep q)

def findPath (R : Tree) (sep : Str) (a : Addr) (q : Str) : Except Err (Option Addr) :=
  find R a (pathEndsWith R sep q) 0

def findPaths (R : Tree) (sep : Str) (a : Addr) (q : Str) : Except Err (List Addr) :=
  findall R a (pathEndsWith R sep q) 0 0 0

/-- Python's `==` on the modelled attribute values (`True == 1`) -/
def pyEq : Val → Val → Bool
  | .null, .null => true
  | .int i, .int j => i == j
  | .str s, .str t => s == t
  | .bool b, .bool c => b == c
  | .bool b, .int i => (if b then 1 else 0) == i
  | .int i, .bool b => i == (if b then 1 else 0)
  | _, _ => false

/-- `node.get_attr(k)` (default `None`) -/
def getAttr (attrs : Attrs) (k : Str) : Val := (attrs.lookup k).getD .null

def attrIs (R : Tree) (k : Str) (v : Val) (b : Addr) : Bool := pyEq (getAttr (attrsAt R b) k) v

def findAttr (R : Tree) (a : Addr) (k : Str) (v : Val) (maxDepth : Nat) : Except Err (Option Addr) :=
  find R a (attrIs R k v) maxDepth

def findAttrs (R : Tree) (a : Addr) (k : Str) (v : Val) (maxDepth : Nat) : Except Err (List Addr) :=
  findall R a (attrIs R k v) maxDepth 0 0

/-! ## children only -/

/-- `find_children`: `[_node for _node in tree.children if _node and condition(_node)]`
    (on the generic view of a BinaryNode the empty slots are already gone) -/
def findChildren (R : Tree) (a : Addr) (cond : Addr → Bool) (minCount maxCount : Nat) :
    Except Err (List Addr) :=
  let result := (childrenOf R a).filter cond
  match checkResultCount result.length minCount maxCount with
  | .error e => .error e
  | .ok () => .ok result

def findChild (R : Tree) (a : Addr) (cond : Addr → Bool) : Except Err (Option Addr) :=
  match findChildren R a cond 0 1 with
  | .error e => .error e
  | .ok result => .ok result.head?

def findChildByName (R : Tree) (a : Addr) (name : Str) : Except Err (Option Addr) :=
  findChild R a (nameIs R name)

/-- `find_children` on a BinaryNode: the slots `[left, right]`, the `if _node` skips empty ones -/
def findChildrenB (cond : Nat → Bool) : BTree → List BTree
  | .nil => []
  | .node _ _ _ l r =>
    [l, r].filter fun c =>
      match c with
      | .nil => false
      | .node i _ _ _ _ => cond i

/-! ## find_full_path -/

/-- the loop `for child_name in path_list[1:]` with its two variables -/
def fullPathLoop (R : Tree) : List Str → Addr → Option Addr → Except Err (Option Addr)
  | [], _, childNode => .ok childNode
  | childName :: rest, parentNode, _ =>
    match findChildByName R parentNode childName with
    | .error e => .error e
    | .ok none => .ok none
    | .ok (some c) => fullPathLoop R rest c (some c)

def findFullPath (R : Tree) (sep : Str) (a : Addr) (q : Str) : Except Err (Option Addr) :=
  let pathList := split sep (lstrip sep (rstrip sep q))
  let rootNode := Query.root a
  if pathList.head? != some ((nameAt R rootNode).getD []) then .error .value
  else fullPathLoop R (pathList.drop 1) rootNode (some rootNode)

/-! ## find_relative_paths -/

/-- the inner function `resolve(node, path_idx)`; `comps` is `path_list[path_idx:]`, the list
    `resolved_nodes` is threaded (`acc`), an exception aborts everything -/
def resolve (R : Tree) (wild : Bool) : List Str → Addr → List Addr → Except Err (List Addr)
  | [], a, acc => .ok (acc ++ [a])
  | c :: cs, a, acc =>
    if c == ['.'] then resolve R wild cs a acc
    else if c == ['.', '.'] then
      match parent a with
      | none => .error .search
      | some p => resolve R wild cs p acc
    else if c == ['*'] then
      (childrenOf R a).foldlM (fun acc' ch => resolve R wild cs ch acc') acc
    else
      match findChildByName R a c with
      | .error e => .error e
      | .ok none => if wild then .ok acc else .error .search
      | .ok (some ch) => resolve R wild cs ch acc

def findRelativePaths (R : Tree) (sep : Str) (a : Addr) (q : Str) (minCount maxCount : Nat) :
    Except Err (List Addr) :=
  if startsWith q sep then .error .unmodelled
  else
    let q' := lstrip sep (rstrip sep q)
    let pathList := split sep q'
    let wild := q'.contains '*'
    match resolve R wild pathList a [] with
    | .error e => .error e
    | .ok result =>
      match checkResultCount result.length minCount maxCount with
      | .error e => .error e
      | .ok () => .ok result

def findRelativePath (R : Tree) (sep : Str) (a : Addr) (q : Str) : Except Err (Option Addr) :=
  match findRelativePaths R sep a q 0 1 with
  | .error e => .error e
  | .ok result => .ok result.head?

/-! ## specifications -/

/-- the nodes of the searched subtree within `max_depth`, in pre-order -/
def searched (R : Tree) (a : Addr) (maxDepth : Nat) : List Addr :=
  (subtreeLocs R a).filter fun b => maxDepth == 0 || decide (b.length + 1 ≤ maxDepth)

/-- the children of `a` called `name` -/
def childrenNamed (R : Tree) (a : Addr) (name : Str) : List Addr :=
  (childrenOf R a).filter (nameIs R name)

/-- what a path denotes from `a`, file-system style: `.` stay, `..` parent (error at the root),
    `*` every child in order, a name that child (several: ambiguous, error; none: error unless
    the query contains a wildcard, then nothing) -/
def resolveSpec (R : Tree) (wild : Bool) : List Str → Addr → Except Err (List Addr)
  | [], a => .ok [a]
  | c :: cs, a =>
    if c == ['.'] then resolveSpec R wild cs a
    else if c == ['.', '.'] then
      match parent a with
      | none => .error .search
      | some p => resolveSpec R wild cs p
    else if c == ['*'] then
      ((childrenOf R a).mapM fun ch => resolveSpec R wild cs ch).map List.flatten
    else
      match childrenNamed R a c with
      | [] => if wild then .ok [] else .error .search
      | [ch] => resolveSpec R wild cs ch
      | _ => .error .search

/-- names of the nodes on the way from the root to `a` -/
def pathNames (R : Tree) (a : Addr) : List Str :=
  (nodePathSpec a).map fun b => (nameAt R b).getD []

end Search
