import BigtreeModel.DagBridge
/-!
# `DAGNode.copy()` = `copy.deepcopy(self)` on the adjacency store, and the two sides of a copy

`copy.deepcopy` duplicates everything reachable from the node through the private `__parents` /
`__children` lists, i.e. the node's whole weakly connected component; the model mirrors the *whole*
store at ids `≥ s.n` (cells of other components are copied too and are unreachable garbage, as in
`CopyStore` for trees).  The duplicate of node `v` is `v + s.n`; every list of a duplicate is the list
of its original shifted by `s.n`, in the same order.

Graph-level vocabulary for the no-aliasing theorems (`BigtreeProofs/Properties/C07.lean`): the edges with
both ends below / not below a boundary `k`, and the ids a call mentions.
-/

namespace DagStore

/-- `copy.deepcopy` applied to any node of the store -/
def deepCopy (s : DStore) : DStore where
  n := 2 * s.n
  names := fun i => if i < s.n then s.names i else s.names (i - s.n)
  parents := fun i =>
    if i < s.n then s.parents i else if i < 2 * s.n then (s.parents (i - s.n)).map (· + s.n) else []
  children := fun i =>
    if i < s.n then s.children i else if i < 2 * s.n then (s.children (i - s.n)).map (· + s.n) else []

/-- the duplicate of node `v` -/
def copyOf (s : DStore) (v : Nat) : Nat := v + s.n

def shiftE (k : Nat) (e : Nat × Nat) : Nat × Nat := (e.1 + k, e.2 + k)

/-- the edges among the nodes below the boundary -/
def lowE (k : Nat) (E : List (Nat × Nat)) : List (Nat × Nat) := E.filter fun e => decide (e.1 < k ∧ e.2 < k)
/-- the edges among the nodes at or above the boundary -/
def highE (k : Nat) (E : List (Nat × Nat)) : List (Nat × Nat) := E.filter fun e => decide (k ≤ e.1 ∧ k ≤ e.2)

/-- the node ids a call mentions: the receiver and the members of its argument -/
def Op.ids : Op → List Nat
  | .setParents v a _ => v :: a.items.getD []
  | .setChildren v a _ => v :: a.items.getD []
  | .rshift v o _ => [v, o]
  | .lshift v o _ => [v, o]
  | .delChildren v => [v]
  | .delItem v _ => [v]
  | .construct _ ps cs _ _ => ps.items.getD [] ++ cs.items.getD []

def Op.isConstruct : Op → Bool
  | .construct .. => true
  | _ => false

end DagStore
