import BigtreeModel.DagStore
import BigtreeModel.Dag
/-!
# Bridge between the `DAGNode` adjacency store (`DagStore`, C10) and DAG graphs (`Dag`, C16/C17)

* `DagStore.toDag s` — the graph a reader of the Python objects sees: the nodes are the ids
  `0 .. n-1` in allocation order, the adjacency lists are the store's private lists
  `_DAGNode__parents` / `_DAGNode__children` *as they are* (same order), the user attributes are
  handed in (`DagStore` does not model them; they never influence a structural operation).
* `DagStore.edges s` — the edge list of the store, oriented parent → child: for every node in id
  order, its `children` list in list order.
* store-level vocabulary for the transfer theorems: `Desc` (directed reachability along the
  `children` lists), `Linked` (undirected reachability: weak connectivity), `Chain` (a directed path
  as its vertex list).

The theorems (`BigtreeProofs/Properties/DagBridge.lean`) say that `toDag` of every store reachable by
a history of `DAGNode` calls satisfies `Dag.DWF`, the hypothesis of every C16/C17 theorem.
-/

namespace DagStore

/-- the graph read off a store -/
def toDag (s : DStore) (attrs : Nat → Attrs := fun _ => []) : Dag where
  nodes := List.range s.n
  parents := s.parents
  children := s.children
  attrs := attrs

/-- all edges of the store as (parent, child), read off the `children` lists in id / list order -/
def edges (s : DStore) : List (Nat × Nat) :=
  (List.range s.n).flatMap fun p => (s.children p).map fun c => (p, c)

/-- the same edges read off the `parents` lists (for every node in id order, its parents in order) -/
def edgesUp (s : DStore) : List (Nat × Nat) :=
  (List.range s.n).flatMap fun c => (s.parents c).map fun p => (p, c)

/-- `Desc s a b`: `b` is a proper descendant of `a` (at least one step along `children` lists) -/
inductive Desc (s : DStore) : Nat → Nat → Prop
  | edge {a b : Nat} : b ∈ s.children a → Desc s a b
  | step {a b c : Nat} : b ∈ s.children a → Desc s b c → Desc s a c

/-- `Linked s a b`: `b` can be reached from `a` walking `parents` and `children` lists in any
direction (reflexive): `a` and `b` lie in the same weakly connected component -/
inductive Linked (s : DStore) : Nat → Nat → Prop
  | refl (a : Nat) : Linked s a a
  | step {a b c : Nat} : Linked s a b → (c ∈ s.parents b ∨ c ∈ s.children b) → Linked s a c

/-- `Chain s l`: `l` is a non-empty list of nodes each of which lists the next one as a child -/
def Chain (s : DStore) : List Nat → Prop
  | [] => False
  | [_] => True
  | a :: b :: rest => b ∈ s.children a ∧ Chain s (b :: rest)

/-- `l` is a directed path from `u` to `w` through the store's `children` lists -/
def ChainFromTo (s : DStore) (u w : Nat) (l : List Nat) : Prop :=
  Chain s l ∧ l.head? = some u ∧ l.getLast? = some w

/-! ## the documented effect of calls on the edge list alone (no adjacency tables, no order inside a node) -/

/-- graph-level state: how many nodes exist, their names, the edge list -/
structure EState where
  n : Nat
  names : Nat → Str
  E : List (Nat × Nat)

/-- the graph-level view of a store -/
def estate (s : DStore) : EState := ⟨s.n, s.names, edges s⟩

/-- the edges `(parent, child)` an assignment-like call asks for; `n` = number of existing nodes (the
constructor's node gets id `n`) -/
def asked (n : Nat) : Op → List (Nat × Nat)
  | .setParents v a _ => (a.items.getD []).map fun p => (p, v)
  | .setChildren v a _ => (a.items.getD []).map fun c => (v, c)
  | .rshift v o _ => [(v, o)]
  | .lshift v o _ => [(o, v)]
  | .construct _ ps cs _ _ =>
    ((ps.items.getD []).map fun p => (p, n)) ++ ((cs.items.getD []).map fun c => (n, c))
  | .delChildren _ => []
  | .delItem _ _ => []

/-- documented effect of an ACCEPTED call: an assignment adds the asked-for edges that are not there yet;
`del v.children` removes the edges out of `v`; `del v[name]` removes the edge to the child of that name
(when there is exactly one); the constructor allocates the next id -/
def EState.apply (g : EState) : Op → EState
  | .delChildren v => { g with E := g.E.filter fun e => e.1 != v }
  | .delItem v nm =>
    match g.E.filter (fun e => e.1 == v && g.names e.2 == nm) with
    | [e] => { g with E := g.E.filter fun x => x != e }
    | _ => g
  | .construct nm ps cs fp fc =>
    { n := g.n + 1, names := upd g.names g.n nm,
      E := g.E ++ (asked g.n (.construct nm ps cs fp fc)).filter fun e => decide (e ∉ g.E) }
  | op => { g with E := g.E ++ (asked g.n op).filter fun e => decide (e ∉ g.E) }

/-- replay of a history of (call, outcome) pairs: accepted calls have their documented effect, refused
ones none (constructor calls that raise are excluded by the theorems: they may leave a half-built node) -/
def EState.replay (g : EState) : List (Op × Outcome) → EState
  | [] => g
  | (op, .ok) :: r => EState.replay (g.apply op) r
  | (_, .rej) :: r => EState.replay g r

end DagStore
