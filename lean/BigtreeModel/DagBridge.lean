import BigtreeModel.DagStore
import BigtreeModel.Dag
/-!
# Bridge between the `DAGNode` adjacency store (`DagStore`, C10) and DAG graphs (`Dag`, C16/C17)

* `DagStore.toDag s` — the graph a reader of the Python objects sees: the nodes are the ids
  `0 .. n-1` in allocation order, the adjacency lists are the store's private lists
  `_DAGNode__parents` / `_DAGNode__children` *as they are* (same order), the user attributes are
  handed in (`DagStore` does not model them; they never influence a structural operation).
* `DagStore.edges s` — the edge list of the store, oriented parent → child: for every node in id
  order, its `children` list in list order.
* store-level vocabulary for the transfer theorems: `Desc` (directed reachability along the
  `children` lists), `Linked` (undirected reachability: weak connectivity), `Chain` (a directed path
  as its vertex list).

The theorems (`BigtreeProofs/Properties/DagBridge.lean`) say that `toDag` of every store reachable by
a history of `DAGNode` calls satisfies `Dag.DWF`, the hypothesis of every C16/C17 theorem.
-/

namespace DagStore

/-- the graph read off a store -/
def toDag (s : DStore) (attrs : Nat → Attrs := fun _ => []) : Dag where
  nodes := List.range s.n
  parents := s.parents
  children := s.children
  attrs := attrs

/-- all edges of the store as (parent, child), read off the `children` lists in id / list order -/
def edges (s : DStore) : List (Nat × Nat) :=
  (List.range s.n).flatMap fun p => (s.children p).map fun c => (p, c)

/-- the same edges read off the `parents` lists (for every node in id order, its parents in order) -/
def edgesUp (s : DStore) : List (Nat × Nat) :=
  (List.range s.n).flatMap fun c => (s.parents c).map fun p => (p, c)

/-- `Desc s a b`: `b` is a proper descendant of `a` (at least one step along `children` lists) -/
inductive Desc (s : DStore) : Nat → Nat → Prop
  | edge {a b : Nat} : b ∈ s.children a → Desc s a b
  | step {a b c : Nat} : b ∈ s.children a → Desc s b c → Desc s a c

/-- `Linked s a b`: `b` can be reached from `a` walking `parents` and `children` lists in any
direction (reflexive): `a` and `b` lie in the same weakly connected component -/
inductive Linked (s : DStore) : Nat → Nat → Prop
  | refl (a : Nat) : Linked s a a
  | step {a b c : Nat} : Linked s a b → (c ∈ s.parents b ∨ c ∈ s.children b) → Linked s a c

/-- `Chain s l`: `l` is a non-empty list of nodes each of which lists the next one as a child -/
def Chain (s : DStore) : List Nat → Prop
  | [] => False
  | [_] => True
  | a :: b :: rest => b ∈ s.children a ∧ Chain s (b :: rest)

/-- `l` is a directed path from `u` to `w` through the store's `children` lists -/
def ChainFromTo (s : DStore) (u w : Nat) (l : List Nat) : Prop :=
  Chain s l ∧ l.head? = some u ∧ l.getLast? = some w

end DagStore
