import BigtreeModel.Basic
/-!
# Line protocol helpers (driver side only; nothing here is used in a theorem)

Tokens are separated by single blanks. Every string travels hex-encoded (UTF-8 bytes) with an
`x` prefix so the empty string is the token `x`. A tree is written in prefix form
`( <id> <xname> <attrs> child* )`; attrs is `-` or `xkey:val,xkey:val` with
val ∈ `n | t | f | i<int> | s<xhex>`.
-/

namespace Proto

def hexDigit (c : Char) : Option Nat :=
  if '0' ≤ c ∧ c ≤ '9' then some (c.toNat - '0'.toNat)
  else if 'a' ≤ c ∧ c ≤ 'f' then some (c.toNat - 'a'.toNat + 10)
  else none

def hexBytes : List Char → Option (List UInt8)
  | [] => some []
  | [_] => none
  | a :: b :: rest => do
    let x ← hexDigit a
    let y ← hexDigit b
    let r ← hexBytes rest
    pure (UInt8.ofNat (x * 16 + y) :: r)

/-- decode an `x…` token into a `Str` -/
def unhex (tok : String) : Option Str :=
  match tok.toList with
  | 'x' :: cs => do
    let bs ← hexBytes cs
    let s ← String.fromUTF8? (ByteArray.mk bs.toArray)
    pure s.toList
  | _ => none

def nibble (n : Nat) : Char :=
  if n < 10 then Char.ofNat ('0'.toNat + n) else Char.ofNat ('a'.toNat + n - 10)

/-- encode a `Str` as an `x…` token -/
def hex (s : Str) : String :=
  let bs := (String.ofList s).toUTF8.toList
  String.ofList ('x' :: bs.flatMap (fun b => [nibble (b.toNat / 16), nibble (b.toNat % 16)]))

def parseVal (s : String) : Option Val :=
  match s.toList with
  | ['n'] => some .null
  | ['t'] => some (.bool true)
  | ['f'] => some (.bool false)
  | 'i' :: rest => (String.ofList rest).toInt?.map .int
  | 's' :: rest => (unhex (String.ofList rest)).map .str
  | _ => none

def parseAttrs (tok : String) : Option Attrs :=
  if tok == "-" then some [] else
  (tok.splitOn ",").mapM (fun kv =>
    match kv.splitOn ":" with
    | [k, v] => do pure ((← unhex k), (← parseVal v))
    | _ => none)

def showVal : Val → String
  | .null => "n"
  | .bool true => "t"
  | .bool false => "f"
  | .int i => "i" ++ toString i
  | .str s => "s" ++ hex s

def showAttrs (a : Attrs) : String :=
  if a.isEmpty then "-" else ",".intercalate (a.map fun (k, v) => hex k ++ ":" ++ showVal v)

mutual
partial def parseTree : List String → Option (Tree × List String)
  | "(" :: i :: n :: a :: rest => do
    let id ← i.toNat?
    let name ← unhex n
    let attrs ← parseAttrs a
    let (cs, rest') ← parseTrees rest
    pure (.node id name attrs cs, rest')
  | _ => none
partial def parseTrees : List String → Option (List Tree × List String)
  | ")" :: rest => some ([], rest)
  | toks => do
    let (t, rest) ← parseTree toks
    let (ts, rest') ← parseTrees rest
    pure (t :: ts, rest')
end

partial def parseBTree : List String → Option (BTree × List String)
  | "_" :: rest => some (.nil, rest)
  | "(" :: i :: n :: a :: rest => do
    let id ← i.toNat?
    let name ← unhex n
    let attrs ← parseAttrs a
    let (l, r1) ← parseBTree rest
    let (r, r2) ← parseBTree r1
    match r2 with
    | ")" :: r3 => pure (.node id name attrs l r, r3)
    | _ => none
  | _ => none

partial def showTree : Tree → String
  | .node i n a cs =>
    "( " ++ toString i ++ " " ++ hex n ++ " " ++ showAttrs a ++ " "
      ++ String.join (cs.map fun c => showTree c ++ " ") ++ ")"

def showNats (l : List Nat) : String := if l.isEmpty then "-" else ",".intercalate (l.map toString)
def showOptNat : Option Nat → String | none => "-" | some n => toString n

/-- `k=v` lookup among tokens -/
def kv (toks : List String) (key : String) : Option String :=
  toks.findSome? fun t =>
    match t.splitOn "=" with
    | k :: v :: rest => if k == key then some ("=".intercalate (v :: rest)) else none
    | _ => none

def parseNats (s : String) : Option (List Nat) :=
  if s == "" || s == "-" then some [] else (s.splitOn ",").mapM String.toNat?

end Proto
