import BigtreeModel.Basic
/-!
# bigtree/tree/helper.py on Model B (immutable rose trees)

`clone_tree`, `get_subtree`, `prune_tree`, `get_tree_diff`, written the way the Python is written.

Conventions.
* A node of the (copied) tree is identified by its **address** (list of child indices from the
  root) in the tree as it is av the start of the phase that uses the identity: Python's sets of
  node objects (`ancestors_to_prune`, `nodes_to_prune`, the level groups) become lists of
  addresses.
* `tree.copy()` is the identity on values (object freshness is the business of Model A,
  `CopyStore.lean`).
* Strings are `List Char`; `rstrip/lstrip(sep)` are the character-set strips Python performs,
  `split`/`replace` the non-overlapping left-to-right scans.
* `max_depth = 0` means "no limit" (`if max_depth:`).
-/

namespace Helper

abbrev Addr := List Nat

inductive Err where
  | notFound      -- exceptions.NotFoundError
  | valueError    -- ValueError
  | searchError   -- exceptions.SearchError
  | treeError     -- exceptions.TreeError
  deriving DecidableEq, Repr, Inhabited

/-! ## strings -/

/-- `s.rstrip(chars)` -/
def rstrip (chars s : Str) : Str := (s.reverse.dropWhile fun c => chars.contains c).reverse
/-- `s.lstrip(chars)` -/
def lstrip (chars s : Str) : Str := s.dropWhile fun c => chars.contains c
/-- `s.lstrip(chars).rstrip(chars)` -/
def strip (chars s : Str) : Str := rstrip chars (lstrip chars s)

/-- scanning loop of `str.split(sep)`; `skip` = characters of the current separator occurrence
    still to be consumed, `acc` = current piece, reversed -/
def splitGo (sep : Str) : Nat → Str → Str → List Str
  | _, acc, [] => [acc.reverse]
  | skip + 1, acc, _ :: cs => splitGo sep skip acc cs
  | 0, acc, c :: cs =>
    if sep.isPrefixOf (c :: cs) then acc.reverse :: splitGo sep (sep.length - 1) [] cs
    else splitGo sep 0 (c :: acc) cs

/-- `s.split(sep)` for a non-empty separator -/
def split (sep s : Str) : List Str := if sep.isEmpty then [s] else splitGo sep 0 [] s

/-- scanning loop of `str.replace(pat, rep)` -/
def replaceGo (pat rep : Str) : Nat → Str → Str
  | _, [] => []
  | skip + 1, _ :: cs => replaceGo pat rep skip cs
  | 0, c :: cs =>
    if pat.isPrefixOf (c :: cs) then rep ++ replaceGo pat rep (pat.length - 1) cs
    else c :: replaceGo pat rep 0 cs

/-- `s.replace(pat, rep)` for a non-empty pattern -/
def replace (pat rep s : Str) : Str := if pat.isEmpty then s else replaceGo pat rep 0 s

/-- `sep.join(xs)` -/
def join (sep : Str) (xs : List Str) : Str := sep.intercalate xs

/-- `Node.path_name` from the names on the route root … node -/
def pathName (sep : Str) (names : List Str) : Str := sep ++ join sep names

/-! ## reading a tree -/

/-- one visited node: its address, the names from the root down to it, and the subtree -/
structure Visit where
  addr : Addr
  names : List Str
  sub : Tree

mutual
/-- pre-order walk from a node whose address is `a` and whose proper ancestors are named `anc` -/
def walk (a : Addr) (anc : List Str) : Tree → List Visit
  | .node i n av cs => ⟨a, anc ++ [n], .node i n av cs⟩ :: walkL a (anc ++ [n]) 0 cs
def walkL (a : Addr) (anc : List Str) (k : Nat) : List Tree → List Visit
  | [] => []
  | c :: cs => walk (a ++ [k]) anc c ++ walkL a anc (k + 1) cs
end

/-- `find_path(tree, q)`: the unique node of the pre-order walk whose `path_name` ends with
    `q.rstrip(sep)`; none ⇒ `None`, several ⇒ `SearchError` (`find` → `findall(max_count=1)`).
    `anc` = names of the proper ancestors of the start node. -/
def findPath (sep : Str) (anc : List Str) (t : Tree) (q : Str) : Except Err (Option Visit) :=
  let q' := rstrip sep q
  match (walk [] anc t).filter fun v => q'.isSuffixOf (pathName sep v.names) with
  | [] => .ok none
  | [v] => .ok (some v)
  | _ => .error .searchError

/-- height (number of levels) -/
def height : Tree → Nat
  | .node _ _ _ cs => 1 + heightL cs
where heightL : List Tree → Nat
  | [] => 0
  | c :: cs => max (height c) (heightL cs)

/-! ## prune_tree -/

/-- `list(child.ancestors)` as addresses: the proper prefixes -/
def properPrefixes (p : Addr) : List Addr := (List.range p.length).map fun k => p.take k

mutual
/-- the detach loop `for _node in ancestors_to_prune: for child in _node.children: if child not
    in ancestors_to_prune and child not in nodes_to_prune: child.parent = None`, read av the
    node with address `a` (the loop runs over a set; every node's child list is filtered
    independently of the others, so the iteration order is immaterial) -/
def detach (A N : List Addr) (a : Addr) : Tree → Tree
  | .node i n av cs => .node i n av (detachL A N a (A.contains a) 0 cs)
def detachL (A N : List Addr) (a : Addr) (inA : Bool) (k : Nat) : List Tree → List Tree
  | [] => []
  | c :: cs =>
    if inA && !(A.contains (a ++ [k])) && !(N.contains (a ++ [k])) then
      detachL A N a inA (k + 1) cs
    else detach A N (a ++ [k]) c :: detachL A N a inA (k + 1) cs
end

/-- children of the nodes of one level, with their addresses (`next_level`) -/
def nextLevel : List (Addr × Tree) → List (Addr × Tree)
  | [] => []
  | (a, t) :: r => (t.children.zipIdx.map fun (c, k) => (a ++ [k], c)) ++ nextLevel r

/-- `levelordergroup_iter(tree)` without filter/stop/max_depth, as groups of addresses;
    fuel = number of recursive calls allowed -/
def levelGroups : Nat → List (Addr × Tree) → List (List Addr)
  | 0, _ => []
  | f + 1, ts =>
    ts.map (·.1) :: (if (nextLevel ts).isEmpty then [] else levelGroups f (nextLevel ts))

mutual
/-- `del node.children` av the node with address `p` -/
def delChildrenAt (p : Addr) (a : Addr) : Tree → Tree
  | .node i n av cs => if a = p then .node i n av [] else .node i n av (delChildrenAtL p a 0 cs)
def delChildrenAtL (p : Addr) (a : Addr) (k : Nat) : List Tree → List Tree
  | [] => []
  | c :: cs => delChildrenAt p (a ++ [k]) c :: delChildrenAtL p a (k + 1) cs
end

/-- `for depth, level_nodes in enumerate(levelordergroup_iter(tree_copy), 1):
      if depth == max_depth: for level_node in level_nodes: del level_node.children` -/
def depthCut (md : Nat) (t : Tree) : Tree :=
  match (levelGroups (height t) [([], t)])[md - 1]? with
  | some g => g.foldl (fun t p => delChildrenAt p [] t) t
  | none => t

/-- the `for path in prune_path` loop: `find_path` on the copy after `path.replace(sep, tree.sep)`;
    a miss raises `NotFoundError`, an ambiguous path `SearchError` -/
def locate (treeSep : Str) (t : Tree) (sepArg : Str) : List Str → Except Err (List Addr)
  | [] => .ok []
  | q :: qs =>
    match findPath treeSep [] t (replace sepArg treeSep q) with
    | .error e => .error e
    | .ok none => .error .notFound
    | .ok (some v) => (locate treeSep t sepArg qs).map (v.addr :: ·)

/-- the path phase of `prune_tree` (`if len(prune_path):`) -/
def prunePaths (treeSep : Str) (t : Tree) (paths : List Str) (exact : Bool) (sepArg : Str) :
    Except Err Tree :=
  if paths.isEmpty then .ok t else
  (locate treeSep t sepArg paths).map fun N =>
    let A0 := N.flatMap properPrefixes
    let A := if exact then A0 ++ N else A0
    detach A N [] t

/-- `prune_tree(tree, prune_path, exact, sep, max_depth)` for a root `tree` whose separator is
    `treeSep`; `paths` is the list form of `prune_path` (`""` ↦ `[]`) -/
def prune (treeSep : Str) (t : Tree) (paths : List Str) (exact : Bool) (sepArg : Str) (md : Nat) :
    Except Err Tree :=
  if paths.isEmpty && md == 0 then .error .valueError else
  (prunePaths treeSep t paths exact sepArg).map fun t1 => if md == 0 then t1 else depthCut md t1

/-! ## get_subtree -/

/-- `tree = tree.copy(); if node_name_or_path: tree = find_path(…); if not tree: raise ValueError;
    tree.parent = None` -/
def subtreeFind (treeSep : Str) (anc : List Str) (t : Tree) (q : Str) : Except Err Tree :=
  if q.isEmpty then .ok t else
  match findPath treeSep anc t q with
  | .error e => .error e
  | .ok none => .error .valueError
  | .ok (some v) => .ok v.sub

/-- `get_subtree(tree, node_name_or_path, max_depth)`; `tree` is the node with proper ancestors
    named `anc` in a tree whose separator is `treeSep` -/
def getSubtree (treeSep : Str) (anc : List Str) (t : Tree) (q : Str) (md : Nat) : Except Err Tree :=
  (subtreeFind treeSep anc t q).bind fun s =>
    if md == 0 then .ok s else prune treeSep s [] false ['/'] md

/-! ## clone_tree -/

/-- `describe(exclude_prefix="_")` on the attribute part -/
def publicAttrs (a : Attrs) : Attrs := a.filter fun kv => !(['_'].isPrefixOf kv.1)

mutual
/-- `clone_tree`: a node of the target type from the public attributes, children re-attached in
    order (empty binary slots are skipped by `if _child:` and are absent from a `Tree` anyway) -/
def clone : Tree → Tree
  | .node i n av cs => .node i n (publicAttrs av) (cloneL cs)
def cloneL : List Tree → List Tree
  | [] => []
  | c :: cs => clone c :: cloneL cs
end

/-! ## specification side of prune / get_subtree -/

mutual
/-- `t` restricted to the nodes all of whose non-root route nodes satisfy `keep`
    (addresses are those of `t`; sibling order, ids, names and attributes are untouched) -/
def restrict (keep : Addr → Bool) (a : Addr) : Tree → Tree
  | .node i n av cs => .node i n av (restrictL keep a 0 cs)
def restrictL (keep : Addr → Bool) (a : Addr) (k : Nat) : List Tree → List Tree
  | [] => []
  | c :: cs =>
    if keep (a ++ [k]) then restrict keep (a ++ [k]) c :: restrictL keep a (k + 1) cs
    else restrictL keep a (k + 1) cs
end

mutual
/-- addresses (in `t`) of the nodes that `restrict keep` keeps, in pre-order -/
def keptAddrs (keep : Addr → Bool) (a : Addr) : Tree → List Addr
  | .node _ _ _ cs => a :: keptAddrsL keep a 0 cs
def keptAddrsL (keep : Addr → Bool) (a : Addr) (k : Nat) : List Tree → List Addr
  | [] => []
  | c :: cs =>
    if keep (a ++ [k]) then keptAddrs keep (a ++ [k]) c ++ keptAddrsL keep a (k + 1) cs
    else keptAddrsL keep a (k + 1) cs
end

/-- all addresses of `t` in pre-order -/
def addrs (a : Addr) (t : Tree) : List Addr := keptAddrs (fun _ => true) a t

/-- (id, name, attrs) of a node -/
def label (t : Tree) : Nat × Str × Attrs := (t.id, t.name, t.attrs)

/-- the subtree of `t` av address `p` -/
def subAt : Tree → Addr → Option Tree
  | t, [] => some t
  | .node _ _ _ cs, k :: p => match cs[k]? with
    | some c => subAt c p
    | none => none

mutual
/-- labels in pre-order -/
def preLabels : Tree → List (Nat × Str × Attrs)
  | .node i n av cs => (i, n, av) :: preLabelsL cs
def preLabelsL : List Tree → List (Nat × Str × Attrs)
  | [] => []
  | c :: cs => preLabels c ++ preLabelsL cs
end

mutual
/-- remove the children of every node av depth `md` (`d` = depth of the node given) -/
def cutDepth (md d : Nat) : Tree → Tree
  | .node i n av cs => if d = md then .node i n av [] else .node i n av (cutDepthL md (d + 1) cs)
def cutDepthL (md d : Nat) : List Tree → List Tree
  | [] => []
  | c :: cs => cutDepth md d c :: cutDepthL md d cs
end

/-- the kept-node predicate of the property: on a route to a target, or (unless `exact`)
    below a target; and within the depth limit -/
def pruneKeep (targets : List Addr) (exact : Bool) (md : Nat) (b : Addr) : Bool :=
  (targets.isEmpty || targets.any fun p => b.isPrefixOf p || (!exact && p.isPrefixOf b))
    && (md == 0 || decide (b.length + 1 ≤ md))

/-- no target is a proper ancestor of another one -/
def NonNested (ps : List Addr) : Prop := ∀ p ∈ ps, ∀ q ∈ ps, p <+: q → p = q

end Helper
