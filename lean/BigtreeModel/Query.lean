import BigtreeModel.Basic
import BigtreeModel.Iter
/-!
# Derived node queries of `BaseNode` / `BinaryNode` (bigtree/node/basenode.py, binarynode.py)

Model B: a *node of a tree* is a root tree `R : Tree` plus an address `a : Addr` (the list of child
indices from the root, root first).  What the Python reads through `self.parent` is `parent a`
(drop the last index); what it reads through `self.children` is `childrenOf R a`.

Every function is written the way the Python is written (loops and recursive properties with
fuel, the `preorder_iter` call with its filter, the accumulator `diameter` of `_recursive_diameter`,
the index arithmetic of `go_to`).  The obvious specifications they are proved equal to are at the
end of the file (`…Spec`).
-/

namespace Query

abbrev Addr := List Nat

/-- the subtree at an address (`none`: the address does not exist in the tree) -/
def sub : Tree → Addr → Option Tree
  | t, [] => some t
  | .node _ _ _ cs, k :: ks =>
    match cs[k]? with
    | some c => sub c ks
    | none => none

/-- identity of the node at an address -/
def idAt (R : Tree) (a : Addr) : Option Nat := (sub R a).map Tree.id
def nameAt (R : Tree) (a : Addr) : Option Str := (sub R a).map Tree.name
def attrsAt (R : Tree) (a : Addr) : Attrs := ((sub R a).map Tree.attrs).getD []

/-- `self.parent` -/
def parent : Addr → Option Addr
  | [] => none
  | k :: ks => some ((k :: ks).dropLast)

/-- `self.children` (as nodes of the tree `R`) -/
def childrenOf (R : Tree) (a : Addr) : List Addr :=
  match sub R a with
  | some t => (List.range t.children.length).map fun k => a ++ [k]
  | none => []

/-! ## ancestors, depth, root, node_path: walks along `parent` -/

/-- the loop `while node is not None: yield node; node = node.parent` -/
def ancLoop : Nat → Option Addr → List Addr
  | 0, _ => []
  | _ + 1, none => []
  | f + 1, some a => a :: ancLoop f (parent a)

/-- `BaseNode.ancestors`: `node = self.parent` and then the loop -/
def ancestors (a : Addr) : List Addr := ancLoop a.length (parent a)

/-- `BaseNode.depth`: `1` at the root, else `self.parent.depth + 1` (fuel = length of the address) -/
def depthF : Nat → Addr → Nat
  | 0, _ => 1
  | f + 1, a =>
    match parent a with
    | none => 1
    | some p => depthF f p + 1
def depth (a : Addr) : Nat := depthF a.length a

/-- `BaseNode.root`: `self` at the root, else `self.parent.root` -/
def rootF : Nat → Addr → Addr
  | 0, a => a
  | f + 1, a =>
    match parent a with
    | none => a
    | some p => rootF f p
def root (a : Addr) : Addr := rootF a.length a

/-- `BaseNode.is_root` -/
def isRoot (a : Addr) : Bool := (parent a).isNone

/-- `BaseNode.node_path`: `[self]` at the root, else `list(self.parent.node_path) + [self]` -/
def nodePathF : Nat → Addr → List Addr
  | 0, a => [a]
  | f + 1, a =>
    match parent a with
    | none => [a]
    | some p => nodePathF f p ++ [a]
def nodePath (a : Addr) : List Addr := nodePathF a.length a

/-! ## pre-order over located nodes

`preorder_iter(tree, filter_condition, max_depth)` as called by `descendants`, `leaves` and the
search functions (no call site in scope passes a `stop_condition`).  The node handed to the
filter is a located node, so filters may read upwards (`path_name`, `depth`). -/

mutual
def preAt (filt : Addr → Bool) (md : Nat) (a : Addr) : Tree → List Addr
  | .node _ _ _ cs =>
    if md == 0 || !(decide (depth a > md)) then
      (if filt a then [a] else []) ++ preAtL filt md a 0 cs
    else []
def preAtL (filt : Addr → Bool) (md : Nat) (a : Addr) (k : Nat) : List Tree → List Addr
  | [] => []
  | t :: ts => preAt filt md (a ++ [k]) t ++ preAtL filt md a (k + 1) ts
end

/-- `preorder_iter(node, filter_condition=filt, max_depth=md)` started at the node `a` of `R` -/
def preorderFrom (R : Tree) (filt : Addr → Bool) (md : Nat) (a : Addr) : List Addr :=
  match sub R a with
  | some t => preAt filt md a t
  | none => []

/-- `BaseNode.is_leaf`: `not len(list(self.children))` -/
def isLeaf (R : Tree) (a : Addr) : Bool := (childrenOf R a).length == 0

/-- `BaseNode.descendants`: pre-order with the filter `_node != self` -/
def descendants (R : Tree) (a : Addr) : List Addr := preorderFrom R (fun b => b != a) 0 a

/-- `BaseNode.leaves`: pre-order with the filter `_node.is_leaf` -/
def leaves (R : Tree) (a : Addr) : List Addr := preorderFrom R (fun b => isLeaf R b) 0 a

/-! ## siblings -/

/-- `BaseNode.siblings` -/
def siblings (R : Tree) (a : Addr) : List Addr :=
  match parent a with
  | none => []
  | some p => (childrenOf R p).filter fun c => c != a

/-- `BaseNode.left_sibling`: `children.index(self)`, then the element before it unless the index is 0 -/
def leftSibling (R : Tree) (a : Addr) : Option Addr :=
  match parent a with
  | none => none
  | some p =>
    let children := childrenOf R p
    let childIdx := children.idxOf a
    if childIdx != 0 then children[childIdx - 1]? else none

/-- `BaseNode.right_sibling` -/
def rightSibling (R : Tree) (a : Addr) : Option Addr :=
  match parent a with
  | none => none
  | some p =>
    let children := childrenOf R p
    let childIdx := children.idxOf a
    if childIdx + 1 < children.length then children[childIdx + 1]? else none

/-! ## max_depth -/

/-- Python's `max` of a (non-empty) list of naturals -/
def maxList : List Nat → Nat
  | [] => 0
  | x :: xs => xs.foldl max x

/-- `BaseNode.max_depth`: `max([self.root.depth] + [node.depth for node in list(self.root.descendants)])` -/
def maxDepth (R : Tree) (a : Addr) : Nat :=
  maxList (depth (root a) :: (descendants R (root a)).map depth)

/-! ## diameter -/

/-- insertion into a descending list -/
def insertDesc (x : Nat) : List Nat → List Nat
  | [] => [x]
  | y :: ys => if x ≥ y then x :: y :: ys else y :: insertDesc x ys

/-- `sorted(l, reverse=True)` -/
def sortDesc : List Nat → List Nat
  | [] => []
  | x :: xs => insertDesc x (sortDesc xs)

/-- `heapq.nlargest(n, l)` (documented as `sorted(l, reverse=True)[:n]`) -/
def nlargest (n : Nat) (l : List Nat) : List Nat := (sortDesc l).take n

mutual
/-- `_recursive_diameter(node)`; the nonlocal `diameter` is threaded: argument and second result -/
def recDiam (diam : Nat) : Tree → Nat × Nat
  | .node _ _ _ cs =>
    if cs.isEmpty then (1, diam)
    else
      let r := recDiamL diam cs
      let childLength := r.1
      let diam' := max r.2 (nlargest 2 childLength).sum
      (1 + maxList childLength, diam')
/-- the list comprehension `[_recursive_diameter(child) for child in node.children if child]` -/
def recDiamL (diam : Nat) : List Tree → List Nat × Nat
  | [] => ([], diam)
  | c :: cs =>
    let r1 := recDiam diam c
    let r2 := recDiamL r1.2 cs
    (r1.1 :: r2.1, r2.2)
end

/-- `BaseNode.diameter` of the subtree `t` -/
def diameter (t : Tree) : Nat :=
  if t.children.isEmpty then 0 else (recDiam 0 t).2

def diameterAt (R : Tree) (a : Addr) : Nat :=
  match sub R a with
  | some t => diameter t
  | none => 0

/-! ## go_to -/

/-- minimum of a list of naturals (`sorted(...)[0]` on the index component) -/
def minList : List Nat → Nat
  | [] => 0
  | x :: xs => xs.foldl min x

/-- `BaseNode.go_to` for two nodes of the same tree (after the root check) -/
def goToSame (a b : Addr) : List Addr :=
  if a == b then [a]
  else
    let selfPath := a :: ancestors a
    let nodePath := (b :: ancestors b).reverse
    let commonNodes := selfPath.filter fun n => nodePath.contains n
    let selfMinIndex := minList (commonNodes.map fun n => selfPath.idxOf n)
    let minCommonNode := selfPath[selfMinIndex]?.getD []
    let nodeMinIndex := nodePath.idxOf minCommonNode
    selfPath.take selfMinIndex ++ nodePath.drop nodeMinIndex

/-- a node together with the tree it lives in -/
structure Loc where
  tree : Tree
  addr : Addr

/-- identity of `self.root` -/
def Loc.rootId (l : Loc) : Option Nat := idAt l.tree (root l.addr)

/-- `BaseNode.go_to`: `TreeError` (here `none`) when `self.root != node.root` -/
def goTo (u v : Loc) : Option (List Addr) :=
  if u.rootId != v.rootId then none else some (goToSame u.addr v.addr)

/-! ## BinaryNode: two slots, possibly empty -/

/-- `BinaryNode.is_leaf`: `not len([child for child in self.children if child])` -/
def isLeafB : BTree → Bool
  | .nil => true
  | .node _ _ _ l r => ([l, r].filter fun c => c != .nil).length == 0

/-- `_recursive_diameter` on a BinaryNode: `node.children` is `[left, right]`, empty slots are
    skipped by the `if child` of the comprehension (fix D5) -/
def recDiamB (diam : Nat) : BTree → Nat × Nat
  | .nil => (0, diam)
  | .node _ _ _ l r =>
    if ([l, r].filter fun c => c != .nil).length == 0 then (1, diam)
    else
      let r1 : List Nat × Nat :=
        match l with
        | .nil => ([], diam)
        | .node i n a x y => let q := recDiamB diam (.node i n a x y); ([q.1], q.2)
      let r2 : List Nat × Nat :=
        match r with
        | .nil => ([], r1.2)
        | .node i n a x y => let q := recDiamB r1.2 (.node i n a x y); ([q.1], q.2)
      let childLength := r1.1 ++ r2.1
      let diam' := max r2.2 (nlargest 2 childLength).sum
      (1 + maxList childLength, diam')

/-- `diameter` of a BinaryNode subtree -/
def diameterB (b : BTree) : Nat :=
  if isLeafB b then 0 else (recDiamB 0 b).2

/-! ## specifications -/

/-- proper prefixes of the address, nearest first -/
def ancestorsSpec (a : Addr) : List Addr := (List.range a.length).reverse.map fun k => a.take k

/-- all prefixes of the address, root first -/
def nodePathSpec (a : Addr) : List Addr := (List.range (a.length + 1)).map fun k => a.take k

mutual
/-- the addresses of all nodes of a tree, relative to its root, in pre-order -/
def locs : Tree → List Addr
  | .node _ _ _ cs => [] :: locsL 0 cs
def locsL (k : Nat) : List Tree → List Addr
  | [] => []
  | t :: ts => (locs t).map (k :: ·) ++ locsL (k + 1) ts
end

/-- the nodes of the subtree at `a`, as nodes of `R`, in pre-order -/
def subtreeLocs (R : Tree) (a : Addr) : List Addr :=
  match sub R a with
  | some t => (locs t).map (a ++ ·)
  | none => []

/-- length of the longest common prefix -/
def lcpLen : Addr → Addr → Nat
  | x :: xs, y :: ys => if x = y then lcpLen xs ys + 1 else 0
  | _, _ => 0

/-- up from `a` to (excluding) the lowest common ancestor, then down from it to `b` -/
def goToSpec (a b : Addr) : List Addr :=
  let l := lcpLen a b
  ((List.range (a.length - l)).map fun i => a.take (a.length - i))
    ++ ((List.range (b.length - l + 1)).map fun i => b.take (l + i))

/-- number of edges between two nodes of one tree -/
def dist (a b : Addr) : Nat := a.length + b.length - 2 * lcpLen a b

/-- height (in nodes) of a tree = `Iter.height` -/
abbrev height := Iter.height

/-- sum of the two largest entries (0 / the entry itself for shorter lists) -/
def top2Sum (l : List Nat) : Nat := (nlargest 2 l).sum

/-- heights of the children -/
def heights (cs : List Tree) : List Nat := cs.map Iter.height

mutual
/-- max over the nodes `v` of `t` of the sum of the two largest child heights of `v` -/
def diamSpec : Tree → Nat
  | .node _ _ _ cs => max (top2Sum (heights cs)) (diamSpecL cs)
def diamSpecL : List Tree → Nat
  | [] => 0
  | c :: cs => max (diamSpec c) (diamSpecL cs)
end

end Query
