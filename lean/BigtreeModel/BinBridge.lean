import BigtreeModel.BinStore
/-!
# Bridge between the two-slot `BinaryNode` store (`BinStore`, C11) and binary trees (`BTree`, C04 / C12)

* `BinStore.left s v`, `BinStore.right s v` — the properties `BinaryNode.left` / `.right`:
  `self.__children[0]`, `self.__children[1]` (`none` = `None`, also when the raw list is too short —
  `C11.two_slots_always` shows it never is).
* `BinStore.btreeOf s names fuel v` — the read-back: what a reader of the Python objects sees when it
  starts at node `v` and follows `.left` / `.right` recursively; an empty slot is `BTree.nil`.  The store
  does not model names (no structural operation reads them), they are handed in.  The recursion is on
  `fuel` (`BinBridge.btreeOf_fuel`: on a well-formed store every fuel `≥ s.n` gives the same tree).
* `BinStore.Below s r x` — `x` is `r` or is reached from `r` through occupied slots.
-/

namespace BinStore

/-- `v.left` -/
def left (s : Store) (v : Nat) : Option Nat := ((s.slots v)[0]?).join
/-- `v.right` -/
def right (s : Store) (v : Nat) : Option Nat := ((s.slots v)[1]?).join

/-- read-back of the binary tree below `v` (`fuel` levels deep) -/
def btreeOf (s : Store) (names : Nat → Str := fun _ => []) : Nat → Nat → BTree
  | 0, v => .node v (names v) [] .nil .nil
  | f + 1, v =>
    .node v (names v) []
      (match left s v with
       | none => .nil
       | some c => btreeOf s names f c)
      (match right s v with
       | none => .nil
       | some c => btreeOf s names f c)

/-- read-back of what a slot holds -/
def slotTree (s : Store) (names : Nat → Str) (f : Nat) : Option Nat → BTree
  | none => .nil
  | some c => btreeOf s names f c

/-- `x` is `r` or a descendant of `r`, reading occupied slots downwards -/
inductive Below (s : Store) : Nat → Nat → Prop
  | refl (r : Nat) : Below s r r
  | step {r p c : Nat} : Below s r p → some c ∈ s.slots p → Below s r c

end BinStore
