import BigtreeModel.Basic
/-!
# Flat / nested / tabular exports and the matching constructors (Model B)

`bigtree/tree/export.py`: `tree_to_dict`, `tree_to_dataframe` / `tree_to_polars` (one model: a
DataFrame is the list of record dicts handed to `pd.DataFrame(...)` / `pl.DataFrame(...)`, plus the
column normalisation `frame`), `tree_to_nested_dict`.
`bigtree/tree/construct.py`: `dict_to_tree`, `dataframe_to_tree` / `polars_to_tree`,
`nested_dict_to_tree`, all through a self-contained `insertPath` (= `add_path_to_tree` with
`duplicate_name_allowed=True`).

Conventions
* a Python `dict` is an insertion-ordered association list; `dset` is `d[k] = v`
  (an existing key keeps its position), `dget` is `d.get(k)`;
* a start node that is not the root is given by the names of its ancestors, root first (`anc`),
  so `depth = anc.length + 1`, `parent name = anc.getLast?`, `path_name = sep + sep.join(anc ++ [name])`;
* the separator is a single character (multi-character separators: C03/C05 tie only);
* constructed nodes carry id `0`; a rejected construction (any exception) is `none`.
-/

namespace Export

/-! ## strings -/

/-- `sep.join(parts)` for a one-character separator -/
def joinC (c : Char) : List Str → Str
  | [] => []
  | [a] => a
  | a :: b :: rest => a ++ c :: joinC c (b :: rest)

/-- `s.split(sep)` for a one-character separator (always at least one part) -/
def splitC (c : Char) : Str → List Str
  | [] => [[]]
  | x :: xs =>
    if x = c then [] :: splitC c xs
    else match splitC c xs with
      | [] => [[x]]
      | h :: t => (x :: h) :: t

/-- `s.lstrip(sep)` -/
def lstripC (c : Char) (s : Str) : Str := s.dropWhile (· == c)
/-- `s.rstrip(sep)` -/
def rstripC (c : Char) (s : Str) : Str := (s.reverse.dropWhile (· == c)).reverse
/-- `s.lstrip(sep).rstrip(sep)` -/
def stripC (c : Char) (s : Str) : Str := rstripC c (lstripC c s)

/-- code-point lexicographic `<` on strings (Python's `str.__lt__`) -/
def strLt : Str → Str → Bool
  | [], [] => false
  | [], _ :: _ => true
  | _ :: _, [] => false
  | a :: as, b :: bs => decide (a.toNat < b.toNat) || (a == b && strLt as bs)

def strName : Str := "name".toList

/-! ## Python dicts -/

/-- `d[k] = v` -/
def dset {β : Type} : List (Str × β) → Str → β → List (Str × β)
  | [], k, v => [(k, v)]
  | (k', v') :: r, k, v => if k' = k then (k, v) :: r else (k', v') :: dset r k v

/-- `d.get(k)` -/
def dget {β : Type} : List (Str × β) → Str → Option β
  | [], _ => none
  | (k', v') :: r, k => if k' = k then some v' else dget r k

abbrev Rec := List (Str × Val)

/-- `d.update(u)` -/
def dupdate (d : Rec) (u : Rec) : Rec := u.foldl (fun acc kv => dset acc kv.1 kv.2) d

/-- `node.get_attr(k)` (default `None`) -/
def getAttr (a : Attrs) (k : Str) : Val := (dget a k).getD .null

def insertByKey (kv : Str × Val) : Rec → Rec
  | [] => [kv]
  | x :: xs => if strLt kv.1 x.1 then kv :: x :: xs else x :: insertByKey kv xs

/-- `sorted(items, key=lambda item: item[0])` -/
def sortByKey : Rec → Rec
  | [] => []
  | x :: xs => insertByKey x (sortByKey xs)

/-- `node.describe(exclude_attributes=["name"], exclude_prefix="_")` -/
def describe (a : Attrs) : Rec :=
  (sortByKey a).filter fun kv => kv.1 != strName && kv.1.head? != some '_'

/-! ## options and the record of one node -/

structure Opts where
  /-- `path_col` (rows only; `[]` = no path entry; always `[]` for `tree_to_dict`) -/
  pathCol : Str := []
  /-- `name_key` / `name_col` (`[]` = omitted) -/
  nameKey : Str := strName
  /-- `parent_key` / `parent_col` (`[]` = omitted) -/
  parentKey : Str := []
  /-- `attr_dict`: node attribute ↦ key / column -/
  attrDict : List (Str × Str) := []
  allAttrs : Bool := false
  maxDepth : Nat := 0
  skipDepth : Nat := 0
  leafOnly : Bool := false

/-- the triple condition of `_recursive_append` (`d = node.depth`) -/
def Opts.gate (o : Opts) (d : Nat) (isLeaf : Bool) : Bool :=
  (o.maxDepth == 0 || decide (d ≤ o.maxDepth)) && (o.skipDepth == 0 || decide (d > o.skipDepth))
    && (!o.leafOnly || isLeaf)

/-- `node.path_name` -/
def pathName (sep : Char) (anc : List Str) (name : Str) : Str := sep :: joinC sep (anc ++ [name])

def parentVal (anc : List Str) : Val :=
  match anc.getLast? with
  | none => .null
  | some p => .str p

/-- the `all_attrs` / `attr_dict` tail shared by the four exporters -/
def addAttrs (o : Opts) (a : Attrs) (r : Rec) : Rec :=
  if o.allAttrs then dupdate r (describe a)
  else o.attrDict.foldl (fun acc kc => dset acc kc.2 (getAttr a kc.1)) r

/-- `data_child` of `tree_to_dataframe` / `tree_to_polars` / `tree_to_dict` -/
def record (o : Opts) (sep : Char) (anc : List Str) (t : Tree) : Rec :=
  let r1 : Rec := if o.pathCol ≠ [] then dset [] o.pathCol (.str (pathName sep anc t.name)) else []
  let r2 : Rec := if o.nameKey ≠ [] then dset r1 o.nameKey (.str t.name) else r1
  let r3 : Rec := if o.parentKey ≠ [] then dset r2 o.parentKey (parentVal anc) else r2
  addAttrs o t.attrs r3

/-! ## exporters, as written: recursive pre-order append into an accumulator -/

mutual
/-- `_recursive_append` of `tree_to_dataframe` / `tree_to_polars` (`data_list.append`) -/
def appendRows (o : Opts) (sep : Char) (anc : List Str) (acc : List Rec) : Tree → List Rec
  | .node i n a cs =>
    appendRowsL o sep (anc ++ [n])
      (if o.gate (anc.length + 1) cs.isEmpty then acc ++ [record o sep anc (.node i n a cs)] else acc) cs
def appendRowsL (o : Opts) (sep : Char) (anc : List Str) (acc : List Rec) : List Tree → List Rec
  | [] => acc
  | t :: ts => appendRowsL o sep anc (appendRows o sep anc acc t) ts
end

/-- `data_list` of `tree_to_dataframe(start, …)` -/
def treeToRows (o : Opts) (sep : Char) (anc : List Str) (t : Tree) : List Rec :=
  appendRows o sep anc [] t

mutual
/-- `_recursive_append` of `tree_to_dict` (`data_dict[node.path_name] = data_child`) -/
def appendDict (o : Opts) (sep : Char) (anc : List Str) (acc : List (Str × Rec)) : Tree → List (Str × Rec)
  | .node i n a cs =>
    appendDictL o sep (anc ++ [n])
      (if o.gate (anc.length + 1) cs.isEmpty
       then dset acc (pathName sep anc n) (record o sep anc (.node i n a cs)) else acc) cs
def appendDictL (o : Opts) (sep : Char) (anc : List Str) (acc : List (Str × Rec)) :
    List Tree → List (Str × Rec)
  | [] => acc
  | t :: ts => appendDictL o sep anc (appendDict o sep anc acc t) ts
end

/-- `tree_to_dict(start, …)` -/
def treeToDict (o : Opts) (sep : Char) (anc : List Str) (t : Tree) : List (Str × Rec) :=
  appendDict o sep anc [] t

/-- a nested dictionary: the entries other than `child_key`, and the list under `child_key`
    (`[]` = no such entry) -/
inductive Nested where
  | mk (fields : Rec) (kids : List Nested)
  deriving Repr, Inhabited

def Nested.fields : Nested → Rec | .mk f _ => f
def Nested.kids : Nested → List Nested | .mk _ k => k

/-- `data_child` of `tree_to_nested_dict` before the children are appended -/
def nestedFields (o : Opts) (t : Tree) : Rec := addAttrs o t.attrs [(o.nameKey, .str t.name)]

mutual
/-- `_recursive_append` of `tree_to_nested_dict`: what is appended to `parent_dict[child_key]`
    (`d = node.depth`; only `max_depth` gates, and it cuts the whole subtree) -/
def nestedOf (o : Opts) (d : Nat) : Tree → List Nested
  | .node i n a cs =>
    if o.maxDepth == 0 || decide (d ≤ o.maxDepth)
    then [.mk (nestedFields o (.node i n a cs)) (nestedOfL o (d + 1) cs)] else []
def nestedOfL (o : Opts) (d : Nat) : List Tree → List Nested
  | [] => []
  | t :: ts => nestedOf o d t ++ nestedOfL o d ts
end

/-- `tree_to_nested_dict(start, …)` = `data_dict[child_key][0]` (`KeyError` ↦ `none`) -/
def treeToNested (o : Opts) (anc : List Str) (t : Tree) : Option Nested :=
  (nestedOf o (anc.length + 1) t).head?

/-! ## specification side: pre-order with contexts -/

mutual
/-- pre-order list of (ancestor names, node) -/
def preCtx (anc : List Str) : Tree → List (List Str × Tree)
  | .node i n a cs => (anc, .node i n a cs) :: preCtxL (anc ++ [n]) cs
def preCtxL (anc : List Str) : List Tree → List (List Str × Tree)
  | [] => []
  | t :: ts => preCtx anc t ++ preCtxL anc ts
end

/-- is the node selected by `max_depth` / `skip_depth` / `leaf_only` -/
def selected (o : Opts) (x : List Str × Tree) : Bool := o.gate (x.1.length + 1) x.2.children.isEmpty

mutual
/-- the tree cut at absolute depth `md` (`0` = no cut), the root being at depth `d` -/
def cutDepth (md : Nat) (d : Nat) : Tree → Tree
  | .node i n a cs => .node i n a (cutDepthL md (d + 1) cs)
def cutDepthL (md : Nat) (d : Nat) : List Tree → List Tree
  | [] => []
  | t :: ts => if md == 0 || decide (d ≤ md) then cutDepth md d t :: cutDepthL md d ts else cutDepthL md d ts
end

mutual
/-- the nested dictionary that mirrors a tree node for node -/
def mirror (o : Opts) : Tree → Nested
  | .node i n a cs => .mk (nestedFields o (.node i n a cs)) (mirrorL o cs)
def mirrorL (o : Opts) : List Tree → List Nested
  | [] => []
  | t :: ts => mirror o t :: mirrorL o ts
end

/-! ## constructors -/

/-- `assertions.filter_attributes(attrs, omit_keys=["name"], omit_null_values=False)` -/
def filterDictAttrs (r : Rec) : Attrs := r.filter fun kv => kv.1 != strName

/-- `assertions.filter_attributes(row, omit_keys=["name", path_col], omit_null_values=True)` -/
def filterRowAttrs (pathCol : Str) (r : Rec) : Attrs :=
  r.filter fun kv => kv.2 != Val.null && kv.1 != strName && kv.1 != pathCol

/-- the chain of nodes `add_path_to_tree` creates for the missing components `c :: rest`;
    only the last one receives `node_attrs` -/
def mkChain (a : Attrs) : Str → List Str → Tree
  | c, [] => .node 0 c (dupdate a a) []
  | c, c' :: rest => .node 0 c [] [mkChain a c' rest]

mutual
/-- the loop of `add_path_to_tree` below a node: descend by `find_child_by_name`, create what is
    missing as LAST child, `set_attrs` on the final node -/
def insertAt (a : Attrs) : List Str → Tree → Tree
  | [], .node i n at' cs => .node i n (dupdate at' a) cs
  | c :: rest, .node i n at' cs => .node i n at' (insertIn a c rest cs)
def insertIn (a : Attrs) (c : Str) (rest : List Str) : List Tree → List Tree
  | [] => [mkChain a c rest]
  | t :: ts => if t.name = c then insertAt a rest t :: ts else t :: insertIn a c rest ts
end

/-- `add_path_to_tree(root, path, sep, duplicate_name_allowed=True, node_attrs=a)`; returns the
    updated root. Rejections: empty path, different root name, an empty component (it would have
    to be created, and `Node("")` raises — every existing node has a non-empty name). -/
def insertPath (sep : Char) (root : Tree) (path : Str) (a : Attrs) : Option Tree :=
  if path = [] then none else
  match splitC sep (stripC sep path) with
  | [] => none
  | b0 :: rest =>
    if b0 ≠ root.name then none
    else if rest.any (· == []) then none
    else some (insertAt a rest root)

/-- the first non-empty dict of an `x or y or …` chain (the last one if all are empty) -/
def firstNonEmpty : List Rec → Rec
  | [] => []
  | [r] => r
  | r :: rs => if r ≠ [] then r else firstNonEmpty rs

def foldInsert (sep : Char) : Tree → List (Str × Attrs) → Option Tree
  | t, [] => some t
  | t, (p, a) :: rest =>
    match insertPath sep t p a with
    | none => none
    | some t' => foldInsert sep t' rest

/-- `dict_to_tree(path_attrs, sep)` -/
def dictToTree (sep : Char) (d : List (Str × Rec)) : Option Tree :=
  match d with
  | [] => none
  | (k0, _) :: _ =>
    let rootName := (splitC sep (stripC sep k0)).headD []
    let get := fun k => (dget d k).getD []
    let rootAttrs := filterDictAttrs (firstNonEmpty
      [get rootName, get (sep :: rootName), get (rootName ++ [sep]), get (sep :: rootName ++ [sep])])
    if rootName = [] then none
    else foldInsert sep (.node 0 rootName rootAttrs []) (d.map fun pr => (pr.1, filterDictAttrs pr.2))

/-! ### DataFrames -/

/-- columns of `pd.DataFrame(list_of_dicts)`: keys in order of first appearance -/
def columnsOf (rows : List Rec) : List Str :=
  rows.foldl (fun cols r => r.foldl (fun cs kv => if cs.contains kv.1 then cs else cs ++ [kv.1]) cols) []

/-- `pd.DataFrame(data_list)` / `pl.DataFrame(data_list)` as (columns, rows with every column,
    missing ↦ null) — assumed behaviour of the external libraries, exercised by the tie -/
def frame (rows : List Rec) : List Str × List Rec :=
  let cols := columnsOf rows
  (cols, rows.map fun r => cols.map fun c => (c, (dget r c).getD .null))

/-- `str(i)` -/
def intText (i : Int) : Str := (toString i).toList

/-- does column `c` hold both an int and a str somewhere -/
def mixedCol (rows : List Rec) (c : Str) : Bool :=
  rows.any (fun r => match dget r c with | some (.int _) => true | _ => false) &&
  rows.any (fun r => match dget r c with | some (.str _) => true | _ => false)

/-- `pl.DataFrame(data_list, infer_schema_length=None)`: polars columns are typed; a column holding
    both ints and strings becomes a string column (the ints as their decimal text). Assumed
    behaviour of the external library, exercised by the tie; the theorems are about `frame`
    (they apply to polars frames whose columns are type-homogeneous, where the two coincide). -/
def polarsFrame (rows : List Rec) : List Str × List Rec :=
  let f := frame rows
  let mixed := f.1.filter (mixedCol f.2)
  (f.1, f.2.map fun r => r.map fun kv =>
    match kv.2 with
    | .int i => if mixed.contains kv.1 then (kv.1, Val.str (intText i)) else kv
    | _ => kv)

def rowPath (sep : Char) (pc : Str) (r : Rec) : Option Str :=
  match dget r pc with
  | some (.str s) => some (stripC sep s)
  | _ => none

def rowPaths (sep : Char) (pc : Str) : List Rec → Option (List Str)
  | [] => some []
  | r :: rs =>
    match rowPath sep pc r, rowPaths sep pc rs with
    | some p, some ps => some (p :: ps)
    | _, _ => none

/-- `dataframe_to_tree(data, sep=sep)` / `polars_to_tree(data, sep=sep)` with the default
    `path_col` (first column) and `attribute_cols` (all others). The duplicate-path assertion is not
    modelled (exported frames have distinct paths). -/
def rowsToTree (sep : Char) (f : List Str × List Rec) : Option Tree :=
  match f.1, f.2 with
  | pc :: _, _ :: _ =>
    match rowPaths sep pc f.2 with
    | none => none
    | some paths =>
      let rootName := (splitC sep (paths.headD [])).headD []
      let rp := f.2.zip paths
      let rootAttrs := match rp.find? (fun x => x.2 == rootName) with
        | some (r, _) => filterRowAttrs pc r
        | none => []
      if rootName = [] then none
      else foldInsert sep (.node 0 rootName rootAttrs []) (rp.map fun x => (x.2, filterRowAttrs pc x.1))
  | _, _ => none

/-! ### nested dictionaries -/

def dupNames : List Tree → Bool
  | [] => false
  | t :: ts => ts.any (fun u => u.name == t.name) || dupNames ts

mutual
/-- `nested_dict_to_tree(d, name_key, child_key)`: `_recursive_add_child` -/
def nestedToTree (nameKey : Str) : Nested → Option Tree
  | .mk fields kids =>
    match dget fields nameKey with
    | some (.str n) =>
      if n = [] then none else
      match nestedToTreeL nameKey kids with
      | none => none
      | some cs => if dupNames cs then none else some (.node 0 n (fields.filter fun kv => kv.1 != nameKey) cs)
    | _ => none
def nestedToTreeL (nameKey : Str) : List Nested → Option (List Tree)
  | [] => some []
  | x :: xs =>
    match nestedToTree nameKey x, nestedToTreeL nameKey xs with
    | some t, some ts => some (t :: ts)
    | _, _ => none
end

/-! ## what a round trip preserves -/

mutual
/-- the tree with ids forgotten and every attribute list replaced by `f attrs` -/
def canonWith (f : Attrs → Attrs) : Tree → Tree
  | .node _ n a cs => .node 0 n (f a) (canonWithL f cs)
def canonWithL (f : Attrs → Attrs) : List Tree → List Tree
  | [] => []
  | t :: ts => canonWith f t :: canonWithL f ts
end

/-- the tree as an `all_attrs` export shows it: ids forgotten, attributes as `describe` lists them -/
def canon (t : Tree) : Tree := canonWith describe t

/-- what a DataFrame row gives back: for each column in order, the node's public attribute of
    that name unless it is null (`name` and the path column are never attributes) -/
def rowAttrs (pathCol : Str) (cols : List Str) (a : Attrs) : Attrs :=
  filterRowAttrs pathCol (cols.map fun c => (c, getAttr (describe a) c))

/-! ## hypotheses of the round-trip theorems -/

mutual
/-- `P` holds of every node of the tree -/
def AllNodes (P : Tree → Prop) : Tree → Prop
  | .node i n a cs => P (.node i n a cs) ∧ AllNodesL P cs
def AllNodesL (P : Tree → Prop) : List Tree → Prop
  | [] => True
  | t :: ts => AllNodes P t ∧ AllNodesL P ts
end

/-- what the `Node` class guarantees of every node: a non-empty name, attribute keys pairwise
    distinct (`__dict__`), sibling names pairwise distinct -/
def NodeOK (t : Tree) : Prop :=
  t.name ≠ [] ∧ (t.attrs.map Prod.fst).Nodup ∧ (t.children.map Tree.name).Nodup

/-- the name does not contain the separator -/
def SepFree (sep : Char) (t : Tree) : Prop := sep ∉ t.name

/-- the options of a full export that the matching constructor reads back -/
def fullOpts (pathCol : Str) : Opts :=
  { pathCol := pathCol, nameKey := strName, parentKey := [], attrDict := [], allAttrs := true,
    maxDepth := 0, skipDepth := 0, leafOnly := false }

end Export
