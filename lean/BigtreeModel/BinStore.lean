import BigtreeModel.Basic
/-!
# Two-slot pointer store for `BinaryNode` (bigtree/node/binarynode.py, after the D2 `fix:` commit)

Nodes are ids `0 .. n-1`.  The state is exactly the two private fields of the Python class:

* `parent v`  — `v._BinaryNode__parent` (`none` = `None`);
* `slots v`   — `v._BinaryNode__children`, the *raw Python list* (`List (Option Nat)`), so that
  `len(node.children)` is part of the state and "exactly two slots" is a theorem
  (`C11.two_slots_always`), not a typing accident.

Every setter is written statement by statement in the order the Python executes them: the
`if ASSERTIONS:` block, the snapshots, the pre-hook, the body of the `try`, the post-hook and the
explicit roll-back code of the `except` branch (the roll-back is *executed*; it is never replaced
by "return the old state").  A raise inside the `try` is the `Bool` component of the body's
result; the state reached at the raise is what the roll-back code starts from.

Arguments: `Option Nat` — `none` is Python `None`, `some k` with `k < n` is node `k`,
`some k` with `k ≥ n` stands for an object that is not a `BinaryNode`.
`fault` = where the user hook (`_BinaryNode__pre_assign_*` / `__post_assign_*`) raises.
`a` = the value of `ASSERTIONS`.

A list or tuple argument of the children setter is the `List` of its items: after the D7 `fix:`
commit `__check_children_type` returns `list(new_children)`, a fresh list, so the node never shares
the caller's object.  Outside the model: *set* arguments (accepted by the base type check, but their
iteration order is arbitrary — not generated); with `a = false`, arguments that are not nodes
(Python dies with `AttributeError` half-way; C20 speaks only about histories accepted with the
checks on — the driver answers `bad-op`).
-/

namespace BinStore

inductive Fault where
  | none | pre | post
  deriving DecidableEq, Repr, Inhabited

inductive Outcome where
  | ok | rej
  deriving DecidableEq, Repr, Inhabited

structure Store where
  n : Nat
  parent : Nat → Option Nat
  slots : Nat → List (Option Nat)

/-- `n` freshly constructed `BinaryNode`s: no parent, `[None, None]`. -/
def init (n : Nat) : Store := ⟨n, fun _ => none, fun _ => [none, none]⟩

/-! ## primitive field writes -/

/-- `c.__parent = p` -/
def setPar (s : Store) (c : Nat) (p : Option Nat) : Store :=
  { s with parent := fun x => if x = c then p else s.parent x }

/-- `p.__children = l` (rebinding the list) -/
def setSlots (s : Store) (p : Nat) (l : List (Option Nat)) : Store :=
  { s with slots := fun x => if x = p then l else s.slots x }

/-- `p.__children[i] = x` -/
def setSlotAt (s : Store) (p i : Nat) (x : Option Nat) : Store :=
  setSlots s p ((s.slots p).set i x)

/-- `l.index(c)` for a node `c`; `none` = `ValueError` -/
def idx? : List (Option Nat) → Nat → Option Nat
  | [], _ => none
  | x :: xs, c => if x = some c then some 0 else (idx? xs c).map (· + 1)

/-- `self.ancestors` driven for at most `fuel` steps (the Python generator has no fuel; on
acyclic stores `fuel = n` is enough, lemma `anc_complete`). -/
def anc (s : Store) : Nat → Nat → List Nat
  | 0, _ => []
  | f + 1, v =>
    match s.parent v with
    | none => []
    | some p => p :: anc s f p

/-! ## `parent` setter (binarynode.py:162-215) -/

/-- `__check_parent_type`: raises unless `None` or a `BinaryNode` -/
def parentTypeBad (s : Store) (np : Option Nat) : Bool :=
  match np with
  | none => false
  | some k => decide (s.n ≤ k)

/-- `_BaseNode__check_parent_loop`: raises on self or when `self` is among `new_parent.ancestors` -/
def parentLoopBad (s : Store) (v : Nat) (np : Option Nat) : Bool :=
  match np with
  | none => false
  | some p => p == v || (anc s s.n p).contains v

/-- "Remove self from old parent": returns (state, `current_child_idx`, raised).
The raise is the `CorruptedTreeError` branch (`self` not among its parent's children). -/
def detach (s : Store) (v : Nat) (cur : Option Nat) : Store × Option Nat × Bool :=
  match cur with
  | none => (s, none, false)
  | some cp =>
    match idx? (s.slots cp) v with
    | none => (s, none, true)
    | some i => (setSlotAt s cp i none, some i, false)

/-- the `for child_idx, child in enumerate(new_parent.__children)` loop with its `inserted` flag -/
def fillFirst (v : Nat) : List (Option Nat) → Bool → List (Option Nat) × Bool
  | [], ins => ([], ins)
  | c :: cs, ins =>
    if c.isNone && !ins then
      let r := fillFirst v cs true
      (some v :: r.1, r.2)
    else
      let r := fillFirst v cs ins
      (c :: r.1, r.2)

/-- "Assign self to new parent": `self.__parent = new_parent`, fill the first empty slot,
`TreeError("already has 2 children")` when nothing was inserted. Returns (state, raised). -/
def attach (s : Store) (v : Nat) (np : Option Nat) : Store × Bool :=
  let s1 := setPar s v np
  match np with
  | none => (s1, false)
  | some p =>
    let r := fillFirst v (s1.slots p) false
    (setSlots s1 p r.1, !r.2)

/-- body of the `try` of the parent setter: (state at exit or at the raise, `current_child_idx`, raised) -/
def parentTry (f : Fault) (s : Store) (v : Nat) (cur np : Option Nat) : Store × Option Nat × Bool :=
  let d := detach s v cur
  if d.2.2 then d else
  let a := attach d.1 v np
  if a.2 then (a.1, d.2.1, true) else
  (a.1, d.2.1, decide (f = Fault.post))

/-- the `except` branch of the parent setter -/
def parentRollback (s : Store) (v : Nat) (cur : Option Nat) (idx : Option Nat) (np : Option Nat) : Store :=
  -- if new_parent is not None and self in new_parent.__children: … [index] = None
  let s1 := match np with
    | none => s
    | some p =>
      match idx? (s.slots p) v with
      | none => s
      | some i => setSlotAt s p i none
  -- self.__parent = current_parent
  let s2 := setPar s1 v cur
  -- if current_child_idx is not None: current_parent.__children[current_child_idx] = self
  match idx, cur with
  | some i, some cp => setSlotAt s2 cp i (some v)
  | _, _ => s2

def setParent (a : Bool) (f : Fault) (s : Store) (v : Nat) (np : Option Nat) : Store × Outcome :=
  if a && parentTypeBad s np then (s, .rej) else
  if a && parentLoopBad s v np then (s, .rej) else
  let cur := s.parent v
  if f = Fault.pre then (s, .rej) else
  let t := parentTry f s v cur np
  if t.2.2 then (parentRollback t.1 v cur t.2.1 np, .rej) else (t.1, .ok)

/-! ## `children` deleter (binarynode.py:352-359, after D2) -/

/-- one pass of the deleter loop for a non-`None` child; `none` = raised
(`AttributeError` on a parentless child, `ValueError` from `index`) -/
def delOne (s : Store) (c : Nat) : Option Store :=
  match s.parent c with
  | none => none
  | some q =>
    match idx? (s.slots q) c with
    | none => none
    | some i => some (setPar (setSlotAt s q i none) c none)

/-- `for child in self.children:` over the tuple snapshot taken at loop entry -/
def delLoop : Store → List (Option Nat) → Store × Bool
  | s, [] => (s, false)
  | s, none :: cs => delLoop s cs
  | s, some c :: cs =>
    match delOne s c with
    | none => (s, true)
    | some s' => delLoop s' cs

/-- `del v.children`: (state, raised) -/
def delChildrenBody (s : Store) (v : Nat) : Store × Bool := delLoop s (s.slots v)

def delChildren (s : Store) (v : Nat) : Store × Outcome :=
  let r := delChildrenBody s v
  (r.1, if r.2 then .rej else .ok)

/-- PRE-FIX deleter (pinned code before commit af5581a): `child.parent.__children.remove(child)`.
Kept only for the negative regression `C11.prefix_deleter_breaks_two_slots`. -/
def delOnePre (s : Store) (c : Nat) : Option Store :=
  match s.parent c with
  | none => none
  | some q =>
    if (s.slots q).contains (some c) then
      some (setPar (setSlots s q ((s.slots q).erase (some c))) c none)
    else none

def delLoopPre : Store → List (Option Nat) → Store × Bool
  | s, [] => (s, false)
  | s, none :: cs => delLoopPre s cs
  | s, some c :: cs =>
    match delOnePre s c with
    | none => (s, true)
    | some s' => delLoopPre s' cs

def delChildrenPre (s : Store) (v : Nat) : Store × Outcome :=
  let r := delLoopPre s (s.slots v)
  (r.1, if r.2 then .rej else .ok)

/-! ## `children` setter (binarynode.py:294-350) -/

/-- `__check_children_type`: `[]` / `()` becomes `[None, None]`; `none` = `ValueError` (length ≠ 2);
the result is `list(new_children)`, a fresh list (value semantics here). Runs with assertions on and off. -/
def normChildren (l : List (Option Nat)) : Option (List (Option Nat)) :=
  let l1 := if l.length = 0 then [none, none] else l
  if l1.length ≠ 2 then none else some l1

/-- `__check_children_loop` (only under `if ASSERTIONS`): `true` = raises.
`seen` is the `seen_children` accumulator. -/
def childrenLoopBad (s : Store) (v : Nat) : List (Option Nat) → List Nat → Bool
  | [], _ => false
  | none :: cs, seen => childrenLoopBad s v cs seen
  | some k :: cs, seen =>
    if s.n ≤ k then true                          -- TypeError: not a BinaryNode
    else if k = v then true                       -- LoopError: child of itself
    else if (anc s s.n v).contains k then true    -- LoopError: ancestor of itself
    else if seen.contains k then true             -- TreeError: added multiple times
    else childrenLoopBad s v cs (seen ++ [k])

/-- dict assignment `d[c] = (i, p)`: an existing key keeps its position, the value is replaced -/
def dictSet : List (Nat × Nat × Nat) → Nat → Nat × Nat → List (Nat × Nat × Nat)
  | [], c, val => [(c, val)]
  | (k, w) :: r, c, val => if k = c then (k, val) :: r else (k, w) :: dictSet r c val

/-- the `current_new_children` dict comprehension: entries `(child, (index in its parent, parent))`;
`none` = the comprehension raised (`ValueError` from `index`; nothing has been changed yet) -/
def snapStolen (s : Store) : List (Option Nat) → List (Nat × Nat × Nat) → Option (List (Nat × Nat × Nat))
  | [], acc => some acc
  | none :: cs, acc => snapStolen s cs acc
  | some c :: cs, acc =>
    match s.parent c with
    | none => snapStolen s cs acc
    | some p =>
      match idx? (s.slots p) c with
      | none => none
      | some i => snapStolen s cs (dictSet acc c (i, p))

/-- the `current_new_orphan` list comprehension -/
def snapOrphans (s : Store) : List (Option Nat) → List Nat
  | [] => []
  | none :: cs => snapOrphans s cs
  | some c :: cs =>
    match s.parent c with
    | none => c :: snapOrphans s cs
    | some _ => snapOrphans s cs

/-- one pass of the assignment loop for a non-`None` member; `none` = raised (`index`) -/
def stealOne (s : Store) (v c : Nat) : Option Store :=
  match s.parent c with
  | none => some (setPar s c (some v))
  | some q =>
    match idx? (s.slots q) c with
    | none => none
    | some i => some (setPar (setSlotAt s q i none) c (some v))

/-- `for new_child in new_children:` -/
def assignLoop (v : Nat) : Store → List (Option Nat) → Store × Bool
  | s, [] => (s, false)
  | s, none :: cs => assignLoop v s cs
  | s, some c :: cs =>
    match stealOne s v c with
    | none => (s, true)
    | some s' => assignLoop v s' cs

/-- body of the `try` of the children setter: (state at exit or at the raise, raised) -/
def childrenTry (f : Fault) (s : Store) (v : Nat) (new : List (Option Nat)) : Store × Bool :=
  -- del self.children
  let d := delChildrenBody s v
  if d.2 then d else
  -- self.__children = new_children
  let s1 := setSlots d.1 v new
  let l := assignLoop v s1 new
  if l.2 then l else
  (l.1, decide (f = Fault.post))

/-- roll-back: "Reassign new children to their original parent" (dict order) -/
def restoreStolen : Store → List (Nat × Nat × Nat) → Store
  | s, [] => s
  | s, (c, i, p) :: r => restoreStolen (setSlotAt (setPar s c (some p)) p i (some c)) r

/-- roll-back: `for child in current_new_orphan: child.__parent = None` -/
def restoreOrphans : Store → List Nat → Store
  | s, [] => s
  | s, c :: r => restoreOrphans (setPar s c none) r

/-- roll-back: `for child in current_children: if child: child.__parent = self` -/
def reparentOld (v : Nat) : Store → List (Option Nat) → Store
  | s, [] => s
  | s, none :: r => reparentOld v s r
  | s, some c :: r => reparentOld v (setPar s c (some v)) r

/-- the `except` branch of the children setter -/
def childrenRollback (s : Store) (v : Nat) (stolen : List (Nat × Nat × Nat)) (orph : List Nat)
    (cur : List (Option Nat)) : Store :=
  let s1 := restoreStolen s stolen
  let s2 := restoreOrphans s1 orph
  let s3 := setSlots s2 v cur
  reparentOld v s3 cur

/-- `v.children = l` for a Python list or tuple `l` -/
def setChildren (a : Bool) (f : Fault) (s : Store) (v : Nat) (l : List (Option Nat)) : Store × Outcome :=
  match normChildren l with
  | none => (s, .rej)
  | some new =>
    if a && childrenLoopBad s v new [] then (s, .rej) else
    match snapStolen s new [] with
    | none => (s, .rej)
    | some stolen =>
      let orph := snapOrphans s new
      let cur := s.slots v
      if f = Fault.pre then (s, .rej) else
      let t := childrenTry f s v new
      if t.2 then (childrenRollback t.1 v stolen orph cur, .rej) else (t.1, .ok)

/-- `self.__children[i]`; `none` = `IndexError` -/
def slotAt? (s : Store) (v i : Nat) : Option (Option Nat) := (s.slots v)[i]?

/-- `v.left = x`  ≡  `v.children = [x, v.right]` -/
def setLeft (a : Bool) (f : Fault) (s : Store) (v : Nat) (x : Option Nat) : Store × Outcome :=
  match slotAt? s v 1 with
  | none => (s, .rej)
  | some r => setChildren a f s v [x, r]

/-- `v.right = x`  ≡  `v.children = [v.left, x]` -/
def setRight (a : Bool) (f : Fault) (s : Store) (v : Nat) (x : Option Nat) : Store × Outcome :=
  match slotAt? s v 0 with
  | none => (s, .rej)
  | some l => setChildren a f s v [l, x]

/-! ## `sort` (binarynode.py:388-409) -/

/-- `children = [c for c in self.children if c]; if len(children) == 2: children.sort(**kw);
self.__children = children`.  The key function is represented by what it does to two
elements: keep or swap. -/
def sortChildren (s : Store) (v : Nat) (swap : Bool) : Store :=
  let ch := (s.slots v).filter Option.isSome
  if ch.length = 2 then setSlots s v (if swap then ch.reverse else ch) else s

/-! ## operations and histories -/

inductive Op where
  | parent (v : Nat) (np : Option Nat) (f : Fault)
  /-- `l = none`: the right-hand side is not a list/tuple/set (base `__check_children_type`) -/
  | children (v : Nat) (l : Option (List (Option Nat))) (f : Fault)
  | left (v : Nat) (x : Option Nat) (f : Fault)
  | right (v : Nat) (x : Option Nat) (f : Fault)
  | del (v : Nat)
  | sort (v : Nat) (swap : Bool)
  deriving Repr, Inhabited

def Op.subject : Op → Nat
  | .parent v _ _ | .children v _ _ | .left v _ _ | .right v _ _ | .del v | .sort v _ => v

/-- one call on node `op.subject`. A subject that is not a node is not a call at all (`rej`, unchanged). -/
def step (a : Bool) (s : Store) (op : Op) : Store × Outcome :=
  if s.n ≤ op.subject then (s, .rej) else
  match op with
  | .parent v np f => setParent a f s v np
  | .children _ none _ => (s, .rej)
  | .children v (some l) f => setChildren a f s v l
  | .left v x f => setLeft a f s v x
  | .right v x f => setRight a f s v x
  | .del v => delChildren s v
  | .sort v sw => (sortChildren s v sw, .ok)

def run (a : Bool) (s : Store) (ops : List Op) : Store :=
  ops.foldl (fun s op => (step a s op).1) s

/-- all intermediate results of a history (what the driver prints) -/
def trace (a : Bool) : Store → List Op → List (Store × Outcome)
  | _, [] => []
  | s, op :: ops => let r := step a s op; r :: trace a r.1 ops

/-! ## specification: the well-formedness invariant -/

/-- `p` is the parent of `c` -/
def IsParent (s : Store) (p c : Nat) : Prop := s.parent c = some p

structure BWF (s : Store) : Prop where
  /-- the raw list has exactly two slots -/
  len2 : ∀ p, (s.slots p).length = 2
  /-- a node is in a slot of its parent … -/
  up : ∀ c p, s.parent c = some p → some c ∈ s.slots p
  /-- … and in no slot of anybody else -/
  down : ∀ p c, some c ∈ s.slots p → s.parent c = some p
  /-- a node occurs at most once among the slots of a node (so: exactly one slot of its parent) -/
  distinct : ∀ p c, (s.slots p).count (some c) ≤ 1
  /-- walking parents terminates -/
  acyc : ∀ v, Acc (IsParent s) v
  /-- ids in range -/
  range : ∀ c p, s.parent c = some p → c < s.n ∧ p < s.n

/-- observable dump of one node: (parent, raw children list) -/
def dump (s : Store) : List (Option Nat × List (Option Nat)) :=
  (List.range s.n).map fun i => (s.parent i, s.slots i)

end BinStore
