import BigtreeModel.Basic
/-!
# Traversals (bigtree/utils/iterators.py), implementation-shaped, and their specifications

Predicates are functions of the node identity (`Tree.id`); `maxDepth = 0` means "no limit",
as in the Python (`not max_depth or not tree.depth > max_depth`). `d` is always the absolute
depth (`node.depth`) of the tree(s) being processed.
-/

namespace Iter

structure Cfg where
  filt : Nat → Bool
  stop : Nat → Bool
  maxDepth : Nat

/-- the gate every iterator applies to a node at depth `d` -/
def Cfg.admit (c : Cfg) (d : Nat) (t : Tree) : Bool :=
  (c.maxDepth == 0 || !(decide (d > c.maxDepth))) && !(c.stop t.id)

def emit (c : Cfg) (t : Tree) : List Tree := if c.filt t.id then [t] else []

/-! ## implementation-shaped -/

mutual
/-- `preorder_iter` -/
def preImpl (c : Cfg) (d : Nat) : Tree → List Tree
  | .node i n a cs =>
    if c.admit d (.node i n a cs) then emit c (.node i n a cs) ++ preImplL c (d + 1) cs else []
def preImplL (c : Cfg) (d : Nat) : List Tree → List Tree
  | [] => []
  | t :: ts => preImpl c d t ++ preImplL c d ts
end

mutual
/-- `postorder_iter` -/
def postImpl (c : Cfg) (d : Nat) : Tree → List Tree
  | .node i n a cs =>
    if c.admit d (.node i n a cs) then postImplL c (d + 1) cs ++ emit c (.node i n a cs) else []
def postImplL (c : Cfg) (d : Nat) : List Tree → List Tree
  | [] => []
  | t :: ts => postImpl c d t ++ postImplL c d ts
end

/-- one pass of the `for _tree in trees` loop of `_levelorder_iter`:
    returns (yielded nodes, next_level) -/
def levelStep (c : Cfg) (d : Nat) : List Tree → List Tree × List Tree
  | [] => ([], [])
  | t :: ts =>
    let (ys, nx) := levelStep c d ts
    if c.admit d t then (emit c t ++ ys, t.children ++ nx) else (ys, nx)

/-- `_levelorder_iter` (fuel = number of recursive calls allowed) -/
def levelImpl (c : Cfg) : Nat → Nat → List Tree → List Tree
  | 0, _, _ => []
  | f + 1, d, ts =>
    let (ys, nx) := levelStep c d ts
    ys ++ (if nx.isEmpty then [] else levelImpl c f (d + 1) nx)

/-- `_levelordergroup_iter`: the first group is always emitted; the next one only when
    `next_level` is non-empty and its first node is within `max_depth` -/
def levelGroupImpl (c : Cfg) : Nat → Nat → List Tree → List (List Tree)
  | 0, _, _ => []
  | f + 1, d, ts =>
    let (ys, nx) := levelStep c d ts
    ys :: (if !nx.isEmpty && (c.maxDepth == 0 || !(decide (d + 1 > c.maxDepth)))
           then levelGroupImpl c f (d + 1) nx else [])

/-- one pass of the loop of `_zigzag_iter` with its `reverse_indicator` -/
def zigStep (c : Cfg) (d : Nat) (rev : Bool) : List Tree → List Tree × List Tree
  | [] => ([], [])
  | t :: ts =>
    let (ys, nx) := zigStep c d rev ts
    if c.admit d t then
      (emit c t ++ ys, (if rev then t.children.reverse else t.children) ++ nx)
    else (ys, nx)

/-- `_zigzag_iter`: the recursive call receives `next_level[::-1]` and the flipped flag -/
def zigImpl (c : Cfg) : Nat → Nat → Bool → List Tree → List Tree
  | 0, _, _, _ => []
  | f + 1, d, rev, ts =>
    let (ys, nx) := zigStep c d rev ts
    ys ++ (if nx.isEmpty then [] else zigImpl c f (d + 1) (!rev) nx.reverse)

/-- `_zigzaggroup_iter` -/
def zigGroupImpl (c : Cfg) : Nat → Nat → Bool → List Tree → List (List Tree)
  | 0, _, _, _ => []
  | f + 1, d, rev, ts =>
    let (ys, nx) := zigStep c d rev ts
    ys :: (if !nx.isEmpty && (c.maxDepth == 0 || !(decide (d + 1 > c.maxDepth)))
           then zigGroupImpl c f (d + 1) (!rev) nx.reverse else [])

/-- height of a forest (0 for the empty forest) -/
def height : Tree → Nat
  | .node _ _ _ cs => 1 + heightL cs
where heightL : List Tree → Nat
  | [] => 0
  | c :: cs => max (height c) (heightL cs)

/-- public entry points: fuel = height of the tree (shown sufficient in the proofs) -/
def levelorder (c : Cfg) (d : Nat) (t : Tree) : List Tree := levelImpl c (height t) d [t]
def levelordergroup (c : Cfg) (d : Nat) (t : Tree) : List (List Tree) := levelGroupImpl c (height t) d [t]
def zigzag (c : Cfg) (d : Nat) (t : Tree) : List Tree := zigImpl c (height t) d false [t]
def zigzaggroup (c : Cfg) (d : Nat) (t : Tree) : List (List Tree) := zigGroupImpl c (height t) d false [t]

/-! ## specification: gate the tree first, then traverse the obvious way -/

mutual
/-- remove exactly the subtrees rooted at nodes that fail the gate -/
def gate (c : Cfg) (d : Nat) : Tree → Tree
  | .node i n a cs => .node i n a (gateL c (d + 1) cs)
def gateL (c : Cfg) (d : Nat) : List Tree → List Tree
  | [] => []
  | t :: ts => if c.admit d t then gate c d t :: gateL c d ts else gateL c d ts
end

mutual
def pre : Tree → List Nat
  | .node i _ _ cs => i :: preL cs
def preL : List Tree → List Nat
  | [] => []
  | t :: ts => pre t ++ preL ts
end

mutual
def post : Tree → List Nat
  | .node i _ _ cs => postL cs ++ [i]
def postL : List Tree → List Nat
  | [] => []
  | t :: ts => post t ++ postL ts
end

/-- ids at relative depth `k` of a forest, left to right -/
def layer : Nat → Tree → List Nat
  | 0, .node i _ _ _ => [i]
  | k + 1, .node _ _ _ cs => layerL k cs
where layerL (k : Nat) : List Tree → List Nat
  | [] => []
  | t :: ts => layer k t ++ layerL k ts

def layersL (ts : List Tree) : List (List Nat) :=
  (List.range (height.heightL ts)).map fun k => layer.layerL k ts

/-- reverse every second layer (the second, fourth, …) -/
def alternate : Bool → List (List Nat) → List (List Nat)
  | _, [] => []
  | rev, l :: ls => (if rev then l.reverse else l) :: alternate (!rev) ls

/-! ## binary trees -/

/-- `inorder_iter` on a binary tree with empty slots; `max_depth` gate only (as in the code) -/
def inorderImpl (filt : Nat → Bool) (maxDepth : Nat) (d : Nat) : BTree → List Nat
  | .nil => []
  | .node i _ _ l r =>
    if maxDepth == 0 || !(decide (d > maxDepth)) then
      inorderImpl filt maxDepth (d + 1) l ++ (if filt i then [i] else []) ++ inorderImpl filt maxDepth (d + 1) r
    else []

end Iter

/-- A BinaryNode tree seen by the generic iterators: empty slots are skipped. -/
def BTree.toTrees : BTree → List Tree
  | .nil => []
  | .node i n a l r => [.node i n a (l.toTrees ++ r.toTrees)]
