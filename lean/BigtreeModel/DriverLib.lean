/-! Line-protocol loop shared by the per-property driver executables:
`<key> tok tok …` per line on stdin (the key is ignored), one canonical line out. -/

def dispatchWith (handle : List String → String) (line : String) : String :=
  match (line.trimAscii.toString.splitOn " ").filter (· ≠ "") with
  | [] => "bad-op"
  | _ :: toks => handle toks

partial def driverLoop (handle : List String → String) (hin hout : IO.FS.Stream) : IO Unit := do
  let line ← hin.getLine
  if line.isEmpty then return ()
  hout.putStrLn (dispatchWith handle line)
  driverLoop handle hin hout

def runDriver (handle : List String → String) : IO Unit := do
  let hin ← IO.getStdin
  let hout ← IO.getStdout
  driverLoop handle hin hout
  hout.flush
