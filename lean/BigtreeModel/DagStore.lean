import BigtreeModel.Basic
/-!
# DagStore — adjacency store for `DAGNode` (bigtree/node/dagnode.py), statement level

Nodes are ids `0 .. n-1` (allocation order); the state is exactly the two private lists of every
node, `_DAGNode__parents` and `_DAGNode__children`, *in list order*, plus the names (only
`__delitem__` reads them). An id `≥ n` inside an argument stands for an object that is not a
`DAGNode` (`None`, an `int`, …).

Every mutating entry point of the class is modelled statement by statement in the order Python
executes it: the `if ASSERTIONS:` block, the snapshot, the pre-hook, the insertion loop, the
post-hook and the **explicit roll-back loop** of the `except` branch (with `list.remove` raising
`ValueError` on an absent element and attribute access on a non-node raising `AttributeError`,
both of which abort the roll-back loop, as in Python). User hooks are the parameter
`Fault ∈ {none, pre, post}`; the `ASSERTIONS` switch is the parameter `asrt`.
-/

namespace DagStore

inductive Fault where
  | none | pre | post
  deriving DecidableEq, Repr, Inhabited

inductive Outcome where
  | ok | rej
  deriving DecidableEq, Repr, Inhabited

/-- what is passed to a setter: `5`/`None` (not iterable), a tuple, or a list -/
inductive Arg where
  | nonIter
  | tuple (l : List Nat)
  | list (l : List Nat)
  deriving DecidableEq, Repr, Inhabited

/-- the members a `for` loop over the argument sees (`none`: `for` raises `TypeError`) -/
def Arg.items : Arg → Option (List Nat)
  | .nonIter => none
  | .tuple l => some l
  | .list l => some l

structure DStore where
  n : Nat
  names : Nat → Str
  parents : Nat → List Nat
  children : Nat → List Nat

def upd {α : Type} (f : Nat → α) (i : Nat) (x : α) : Nat → α := fun j => if j = i then x else f j

/-- `k` freshly constructed, unlinked nodes -/
def init (k : Nat) (names : Nat → Str) : DStore := ⟨k, names, fun _ => [], fun _ => []⟩

/-- `c.__parents.append(p)` -/
def DStore.pushParent (s : DStore) (c p : Nat) : DStore :=
  { s with parents := upd s.parents c (s.parents c ++ [p]) }
/-- `p.__children.append(c)` -/
def DStore.pushChild (s : DStore) (p c : Nat) : DStore :=
  { s with children := upd s.children p (s.children p ++ [c]) }
/-- `c.__parents.remove(p)` (caller has checked membership) -/
def DStore.popParent (s : DStore) (c p : Nat) : DStore :=
  { s with parents := upd s.parents c ((s.parents c).erase p) }
/-- `p.__children.remove(c)` (caller has checked membership) -/
def DStore.popChild (s : DStore) (p c : Nat) : DStore :=
  { s with children := upd s.children p ((s.children p).erase c) }

/-- add the edge `p → c` in both directions -/
def DStore.addE (s : DStore) (p c : Nat) : DStore := (s.pushParent c p).pushChild p c
/-- remove the edge `p → c` in both directions -/
def DStore.delE (s : DStore) (p c : Nat) : DStore := (s.popParent c p).popChild p c

/-! ## `ancestors` (recursive generator + `dict.fromkeys`) -/

/-- `_recursive_parent(node)`: for each parent, first its own ancestors, then the parent.
Python recurses without bound; `fuel` bounds the depth (see `anc_fuel_complete`). -/
def recParent (s : DStore) : Nat → Nat → List Nat
  | 0, _ => []
  | f + 1, v => (s.parents v).flatMap fun p => recParent s f p ++ [p]

/-- the `ancestors` property -/
def ancestors (s : DStore) (v : Nat) : List Nat :=
  if (s.parents v).isEmpty then [] else (recParent s (s.n + 1) v).eraseDups

/-! ## parents setter -/

/-- `__check_parent_loop` (after `__check_parent_type`): `true` = no exception -/
def checkParentLoop (s : DStore) (v : Nat) : List Nat → List Nat → Bool
  | [], _ => true
  | p :: l, seen =>
    if s.n ≤ p then false                      -- TypeError: not a DAGNode
    else if p = v then false                   -- LoopError: parent of itself
    else if v ∈ ancestors s p then false       -- LoopError: self among new_parent.ancestors
    else if p ∈ seen then false                -- TreeError: added multiple times
    else checkParentLoop s v l (seen ++ [p])

/-- the whole `if ASSERTIONS:` block of the parents setter -/
def checkParents (s : DStore) (v : Nat) : Arg → Bool
  | .list l => checkParentLoop s v l []
  | _ => false                                 -- TypeError: not a list

/-- body of the `try`: `(state, completed without exception)` -/
def parentsLoop (s : DStore) (v : Nat) : List Nat → DStore × Bool
  | [] => (s, true)
  | p :: l =>
    if p ∈ s.parents v then parentsLoop s v l
    else
      let s1 := s.pushParent v p               -- self.__parents.append(new_parent)
      if p < s.n then parentsLoop (s1.pushChild p v) v l   -- new_parent.__children.append(self)
      else (s1, false)                         -- AttributeError on a non-node

/-- the `except` branch; an exception inside it ends the loop where it stands -/
def parentsRollback (cur : List Nat) (s : DStore) (v : Nat) : List Nat → DStore
  | [] => s
  | p :: l =>
    if p ∈ cur then parentsRollback cur s v l
    else if p ∈ s.parents v then
      let s1 := s.popParent v p                -- self.__parents.remove(new_parent)
      if p < s.n ∧ v ∈ s1.children p then
        parentsRollback cur (s1.popChild p v) v l   -- new_parent.__children.remove(self)
      else s1                                  -- AttributeError / ValueError
    else s                                     -- ValueError

def setParents (asrt : Bool) (s : DStore) (v : Nat) (a : Arg) (f : Fault) : DStore × Outcome :=
  if asrt && !checkParents s v a then (s, .rej) else
  let cur := s.parents v                       -- current_parents = self.__parents.copy()
  if f = .pre then (s, .rej) else              -- pre-hook raises, outside the try
  match a.items with
  | none => (s, .rej)                          -- `for` raises in the try and again in the handler
  | some l =>
    let r := parentsLoop s v l
    if r.2 && f ≠ .post then (r.1, .ok)
    else (parentsRollback cur r.1 v l, .rej)

/-! ## children setter -/

/-- `__check_children_loop` -/
def checkChildrenLoop (s : DStore) (v : Nat) : List Nat → List Nat → Bool
  | [], _ => true
  | c :: l, seen =>
    if s.n ≤ c then false                      -- TypeError
    else if c = v then false                   -- LoopError: child of itself
    else if c ∈ ancestors s v then false       -- LoopError: new child among self.ancestors
    else if c ∈ seen then false                -- TreeError
    else checkChildrenLoop s v l (seen ++ [c])

def checkChildren (s : DStore) (v : Nat) : Arg → Bool
  | .nonIter => false                          -- TypeError: not Iterable
  | .tuple l => checkChildrenLoop s v l []
  | .list l => checkChildrenLoop s v l []

def childrenLoop (s : DStore) (v : Nat) : List Nat → DStore × Bool
  | [] => (s, true)
  | c :: l =>
    if s.n ≤ c then (s, false)                 -- AttributeError reading new_child.__parents
    else if v ∈ s.parents c then childrenLoop s v l
    else childrenLoop ((s.pushParent c v).pushChild v c) v l

def childrenRollback (cur : List Nat) (s : DStore) (v : Nat) : List Nat → DStore
  | [] => s
  | c :: l =>
    if c ∈ cur then childrenRollback cur s v l
    else if s.n ≤ c then s                     -- AttributeError
    else if v ∈ s.parents c then
      let s1 := s.popParent c v                -- new_child.__parents.remove(self)
      if c ∈ s1.children v then childrenRollback cur (s1.popChild v c) v l
      else s1                                  -- ValueError
    else s                                     -- ValueError

def setChildren (asrt : Bool) (s : DStore) (v : Nat) (a : Arg) (f : Fault) : DStore × Outcome :=
  if asrt && !checkChildren s v a then (s, .rej) else
  let cur := s.children v                      -- current_children = list(self.children)
  if f = .pre then (s, .rej) else
  match a.items with
  | none => (s, .rej)
  | some l =>
    let r := childrenLoop s v l
    if r.2 && f ≠ .post then (r.1, .ok)
    else (childrenRollback cur r.1 v l, .rej)

/-! ## deletions -/

/-- children deleter: `for child in self.children: self.__children.remove(child);
child.__parents.remove(self)` over the snapshot tuple. (`remove` of an absent element cannot
happen here: every listed child lists `self`, see `DWF`; modelled by `erase`.) -/
def delChildrenLoop (s : DStore) (v : Nat) : List Nat → DStore
  | [] => s
  | c :: l => delChildrenLoop ((s.popChild v c).popParent c v) v l

def delChildren (s : DStore) (v : Nat) : DStore × Outcome :=
  (delChildrenLoop s v (s.children v), .ok)

/-- `__delitem__`: `find_child_by_name` = `find_children(..., max_count=1)`: all children with
that name; more than one ⇒ `SearchError`; none ⇒ nothing happens -/
def delItem (s : DStore) (v : Nat) (nm : Str) : DStore × Outcome :=
  match (s.children v).filter (fun c => s.names c == nm) with
  | [] => (s, .ok)
  | [c] => ((s.popChild v c).popParent c v, .ok)
  | _ :: _ :: _ => (s, .rej)

/-! ## constructor -/

/-- `DAGNode(name, parents=ps, children=cs)`: fresh node, then the two setters in this order.
The id is allocated even when a setter raises (the half-built object may already be listed by
its parents when the *children* assignment fails). -/
def construct (asrt : Bool) (s : DStore) (nm : Str) (ps cs : Arg) (fp fc : Fault) :
    DStore × Outcome :=
  let v := s.n
  let s0 : DStore := { n := s.n + 1, names := upd s.names v nm,
                       parents := upd s.parents v [], children := upd s.children v [] }
  let r := setParents asrt s0 v ps fp
  if r.2 = .rej then r else setChildren asrt r.1 v cs fc

/-! ## operations and histories -/

inductive Op where
  | setParents (v : Nat) (a : Arg) (f : Fault)
  | setChildren (v : Nat) (a : Arg) (f : Fault)
  | rshift (v o : Nat) (f : Fault)             -- `v >> o`  ≡  `o.parents = [v]`
  | lshift (v o : Nat) (f : Fault)             -- `v << o`  ≡  `v.parents = [o]`
  | delChildren (v : Nat)
  | delItem (v : Nat) (nm : Str)
  | construct (nm : Str) (ps cs : Arg) (fp fc : Fault)
  deriving Repr, Inhabited

/-- one operation; the receiver must be a node (`v < n`), otherwise nothing is called -/
def step (asrt : Bool) (s : DStore) : Op → DStore × Outcome
  | .setParents v a f => if v < s.n then setParents asrt s v a f else (s, .rej)
  | .setChildren v a f => if v < s.n then setChildren asrt s v a f else (s, .rej)
  | .rshift v o f =>
    if v < s.n ∧ o < s.n then setParents asrt s o (.list [v]) f
    else (s, .rej)                             -- `o.parents = …` on a non-node: AttributeError
  | .lshift v o f => if v < s.n then setParents asrt s v (.list [o]) f else (s, .rej)
  | .delChildren v => if v < s.n then delChildren s v else (s, .rej)
  | .delItem v nm => if v < s.n then delItem s v nm else (s, .rej)
  | .construct nm ps cs fp fc => construct asrt s nm ps cs fp fc

/-- a history: final state and the outcome of every operation -/
def run (asrt : Bool) (s : DStore) : List Op → DStore × List Outcome
  | [] => (s, [])
  | op :: ops =>
    let r := step asrt s op
    let r' := run asrt r.1 ops
    (r'.1, r.2 :: r'.2)

/-- the states a history passes through (after each operation) -/
def trace (asrt : Bool) (s : DStore) : List Op → List (DStore × Outcome)
  | [] => []
  | op :: ops =>
    let r := step asrt s op
    r :: trace asrt r.1 ops

end DagStore
