import BigtreeModel.Store
/-!
# Bridge between model A (pointer store) and model B (immutable rose trees)

* `Store.treeOf s fuel v` — the read-back: what a reader of the Python objects sees when it starts at
  node `v` and follows `.children` recursively (identity `v`, name `s.name v`, no attributes,
  children = the read-backs of `s.children v`, in order).  The recursion is on `fuel`
  (`Bridge.treeOf_fuel`: on a well-formed store every fuel `≥ s.n` gives the same tree).
* `Store.roots s`, `Store.forest s` — the parentless nodes in id order and their read-backs.
* Tree- and forest-level *edit functions* stating the documented effect of the structural operations on
  rose trees, without any reference to pointers: `Tree.subtree`, `Tree.detach`, `Tree.appendChild`,
  `Tree.clearChildren`, `Tree.sortChildren`, and `Forest.move`, `Forest.toRoot`,
  `Forest.delChildren`, `Forest.setChildren`, `Forest.sortChildren`, `Forest.delItem`; `Forest.apply op`
  collects them: the documented effect of an accepted call `op`.

The refinement theorems (`BigtreeProofs/Properties/Bridge.lean`) say that `forest` maps every
accepted store operation to the corresponding forest edit.
-/

namespace Store

/-- read-back of the subtree below `v` (reads `children` recursively, `fuel` levels deep) -/
def treeOf (s : Store) : Nat → Nat → Tree
  | 0, v => .node v (s.name v) [] []
  | f + 1, v => .node v (s.name v) [] ((s.children v).map (treeOf s f))

/-- the nodes without a parent, in id order -/
def roots (s : Store) : List Nat := (List.range s.n).filter fun v => (s.parent v).isNone

/-- the trees of the store: read-backs of the roots, in id order of the roots -/
def forest (s : Store) : List Tree := (roots s).map (treeOf s s.n)

end Store

/-- a forest: the list of its trees (the order of the list carries no meaning) -/
abbrev Forest := List Tree

namespace Tree

mutual
/-- the (first, in pre-order) subtree whose root has identity `v` -/
def subtree (v : Nat) : Tree → Option Tree
  | .node i n a cs => if i = v then some (.node i n a cs) else subtreeL v cs
def subtreeL (v : Nat) : List Tree → Option Tree
  | [] => none
  | t :: ts =>
    match subtree v t with
    | some u => some u
    | none => subtreeL v ts
end

mutual
/-- remove every subtree hanging below the root whose root has identity `v` (the root itself stays) -/
def detach (v : Nat) : Tree → Tree
  | .node i n a cs => .node i n a (detachL v cs)
/-- the same for a list of trees; a member with identity `v` is dropped -/
def detachL (v : Nat) : List Tree → List Tree
  | [] => []
  | t :: ts => if t.id = v then detachL v ts else detach v t :: detachL v ts
end

mutual
/-- the node with identity `p` gets `c` as its new LAST child -/
def appendChild (p : Nat) (c : Tree) : Tree → Tree
  | .node i n a cs =>
    .node i n a (if i = p then appendChildL p c cs ++ [c] else appendChildL p c cs)
def appendChildL (p : Nat) (c : Tree) : List Tree → List Tree
  | [] => []
  | t :: ts => appendChild p c t :: appendChildL p c ts
end

mutual
/-- the node with identity `v` loses all its children -/
def clearChildren (v : Nat) : Tree → Tree
  | .node i n a cs => .node i n a (if i = v then [] else clearChildrenL v cs)
def clearChildrenL (v : Nat) : List Tree → List Tree
  | [] => []
  | t :: ts => clearChildren v t :: clearChildrenL v ts
end

/-- Python's `children.sort(key=…, reverse=…)` on a list of trees, the key read off the identity -/
def sortList (key : Nat → Nat) (rev : Bool) (cs : List Tree) : List Tree :=
  if rev then (Store.sortKey (fun t => key t.id) cs.reverse).reverse
  else Store.sortKey (fun t => key t.id) cs

mutual
/-- the children of the node with identity `v` are stably sorted by `key` (descending for `rev`) -/
def sortChildren (v : Nat) (key : Nat → Nat) (rev : Bool) : Tree → Tree
  | .node i n a cs =>
    .node i n a (if i = v then sortList key rev cs else sortChildrenL v key rev cs)
def sortChildrenL (v : Nat) (key : Nat → Nat) (rev : Bool) : List Tree → List Tree
  | [] => []
  | t :: ts => sortChildren v key rev t :: sortChildrenL v key rev ts
end

end Tree

namespace Forest

/-- `v.parent = p` on forests: `v`'s subtree is taken out of wherever it is (it may be a tree of
the forest itself) and becomes the LAST child of `p` -/
def move (F : Forest) (v p : Nat) : Forest :=
  match Tree.subtreeL v F with
  | none => F
  | some t => Tree.appendChildL p t (Tree.detachL v F)

/-- `v.parent = None` on forests: `v`'s subtree is taken out of wherever it is and becomes a tree of
its own -/
def toRoot (F : Forest) (v : Nat) : Forest :=
  match Tree.subtreeL v F with
  | none => F
  | some t => t :: Tree.detachL v F

/-- `del v.children` on forests: every child subtree of `v` becomes a tree of its own -/
def delChildren (F : Forest) (v : Nat) : Forest :=
  match Tree.subtreeL v F with
  | none => F
  | some t => t.children ++ Tree.clearChildrenL v F

/-- `v.children = cs` on forests: the old children of `v` become trees of their own, then each member
of `cs`, in the given order, is taken out of wherever it is and becomes the last child of `v` -/
def setChildren (F : Forest) (v : Nat) (cs : List Nat) : Forest :=
  cs.foldl (fun G c => move G c v) (delChildren F v)

/-- `v.sort(key=…, reverse=…)` on forests -/
def sortChildren (F : Forest) (v : Nat) (ranks : List Nat) (rev : Bool) : Forest :=
  Tree.sortChildrenL v (fun i => ranks.getD i 0) rev F

/-- `del p[name]` on forests: the unique child of `p` with that name (if any) becomes a tree of its own -/
def delItem (F : Forest) (p : Nat) (nm : Str) : Forest :=
  match Tree.subtreeL p F with
  | none => F
  | some t =>
    match t.children.filter fun c => c.name == nm with
    | [ch] => toRoot F ch.id
    | _ => F

/-- the documented effect of one ACCEPTED call of the structural API, on forests (hook faults play no
role: a call with a raising hook is not accepted) -/
def apply (F : Forest) : Store.Op → Forest
  | .setParent v (some p) _ => move F v p
  | .setParent v none _ => toRoot F v
  | .setChildren v cs _ => setChildren F v cs
  | .setChildrenNonList _ _ => F
  | .delChildren v => delChildren F v
  | .append p c _ => move F c p
  | .extend p cs _ _ => cs.foldl (fun G c => move G c p) F
  | .rshift p c _ => move F c p
  | .lshift c (some p) _ => move F c p
  | .lshift c none _ => toRoot F c
  | .delItem p nm _ => delItem F p nm
  | .sort v ranks rev => sortChildren F v ranks rev
  | .setSep _ _ => F

/-- a whole history on forests: accepted calls have their documented effect, rejected calls none -/
def replay (F : Forest) : List (Store.Op × Outcome) → Forest
  | [] => F
  | (op, .ok) :: rest => replay (apply F op) rest
  | (_, .rej) :: rest => replay F rest

end Forest

namespace Store

/-- the outcomes (accepted / rejected) of the calls of a history -/
def outcomes (c : Cfg) (s : Store) (ops : List Op) : List Outcome := (trace c s ops).map (·.1)

end Store
