import BigtreeModel.Basic
import BigtreeModel.Helper
/-!
# Model A for C07: a pointer-level store with deep copy

Nodes are ids `0 … n-1`; a cell holds exactly the fields of a `Node` object that C07 observes:
`parent`, ordered `children`, `name`, public attributes. The mutators are written statement by
statement as in `basenode.py` / `node.py` (a rejected assignment leaves the store as it was — that
is C02's theorem; here a rejection is the identity).

`deepCopy` is Python's `copy.deepcopy` on these objects: it copies everything reachable through
`parent` and `children`, i.e. the node's whole component; the model mirrors the *whole* store at
ids `≥ s.n` (cells of other components are copied too and are unreachable garbage).

The mutating "readers" of helper.py are the compositions they are in the code:
`cloneA`, `getSubtreeA`, `pruneA`. Self-contained: depends only on `Basic` and `Helper`.
-/

namespace CopyStore
open Helper (Err)

structure Cell where
  parent : Option Nat
  children : List Nat
  name : Str
  attrs : Attrs
  deriving DecidableEq, Repr, Inhabited

structure Store where
  cells : List Cell
  deriving DecidableEq, Repr, Inhabited

namespace Store
def n (s : Store) : Nat := s.cells.length
def cell? (s : Store) (i : Nat) : Option Cell := s.cells[i]?
def modify (s : Store) (i : Nat) (f : Cell → Cell) : Store := ⟨s.cells.modify i f⟩
def parentOf (s : Store) (i : Nat) : Option Nat := (s.cell? i).bind (·.parent)
def childrenOf (s : Store) (i : Nat) : List Nat := ((s.cell? i).map (·.children)).getD []
def nameOf (s : Store) (i : Nat) : Str := ((s.cell? i).map (·.name)).getD []
end Store

/-- `list(node.ancestors)`: nearest first (fuel = number of parent steps allowed) -/
def ancestors (s : Store) : Nat → Nat → List Nat
  | 0, _ => []
  | f + 1, v => match s.parentOf v with
    | none => []
    | some p => p :: ancestors s f p

/-- `node.root` -/
def rootOf (s : Store) : Nat → Nat → Nat
  | 0, v => v
  | f + 1, v => match s.parentOf v with
    | none => v
    | some p => rootOf s f p

/-! ## mutators -/

/-- `v.parent = p` on a `Node` (BaseNode parent setter + Node's duplicate-name pre-check) -/
def setParent (s : Store) (v : Nat) (p : Option Nat) : Store :=
  match s.cell? v with
  | none => s
  | some cv =>
    let bad := match p with
      | none => false
      | some q =>
        (s.cell? q).isNone
        -- __check_parent_loop
        || q == v || (ancestors s s.n q).contains v
        -- Node._BaseNode__pre_assign_parent: a different child of q with the same name
        || (s.childrenOf q).any fun c => c != v && s.nameOf c == cv.name
    if bad then s else
    -- remove self from old parent
    let s1 := match cv.parent with
      | none => s
      | some cp => s.modify cp fun c => { c with children := c.children.erase v }
    -- assign self to new parent
    let s2 := s1.modify v fun c => { c with parent := p }
    match p with
    | none => s2
    | some q => s2.modify q fun c => { c with children := c.children ++ [v] }

/-- one pass of the loop of the children deleter -/
def dropChild (s : Store) (c : Nat) : Store :=
  match s.parentOf c with
  | none => s
  | some p =>
    (s.modify p fun x => { x with children := x.children.erase c }).modify c fun x => { x with parent := none }

/-- `del v.children`: `for child in self.children: child.parent.__children.remove(child); child.__parent = None` -/
def delChildren (s : Store) (v : Nat) : Store := (s.childrenOf v).foldl dropChild s

/-- `v.set_attrs({k: x})` -/
def setAttr (s : Store) (v : Nat) (k : Str) (x : Val) : Store :=
  s.modify v fun c => { c with attrs := (c.attrs.filter fun kv => kv.1 != k) ++ [(k, x)] }

/-- `v.name = nm` -/
def setName (s : Store) (v : Nat) (nm : Str) : Store := s.modify v fun c => { c with name := nm }

inductive Op where
  | setParent (v : Nat) (p : Option Nat)
  | delChildren (v : Nat)
  | setAttr (v : Nat) (k : Str) (x : Val)
  | setName (v : Nat) (nm : Str)
  deriving Repr

/-- the node arguments of an operation -/
def Op.args : Op → List Nat
  | .setParent v (some p) => [v, p]
  | .setParent v none => [v]
  | .delChildren v => [v]
  | .setAttr v _ _ => [v]
  | .setName v _ => [v]

def step (s : Store) : Op → Store
  | .setParent v p => setParent s v p
  | .delChildren v => delChildren s v
  | .setAttr v k x => setAttr s v k x
  | .setName v nm => setName s v nm

/-- a mutation history -/
def run (s : Store) (ops : List Op) : Store := ops.foldl step s

/-! ## allocation and deep copy -/

/-- `node_type(name, **attrs)`: a fresh unlinked node -/
def alloc (s : Store) (name : Str) (attrs : Attrs) : Store × Nat :=
  (⟨s.cells ++ [⟨none, [], name, attrs⟩]⟩, s.n)

/-- `Node(nm, parent=v)`: a fresh node attached under `v`; a refused attachment (duplicate sibling
    name, missing `v`) leaves the fresh cell unlinked (in Python the constructor raises and the
    object is dropped) -/
def grow (s : Store) (v : Nat) (nm : Str) : Store :=
  setParent (alloc s nm []).1 (alloc s nm []).2 (some v)

def shiftCell (k : Nat) (c : Cell) : Cell :=
  { c with parent := c.parent.map (· + k), children := c.children.map (· + k) }

/-- `copy.deepcopy(v)` / `v.copy()`: the mirror image of the store at ids `≥ s.n`; the copy of
    `v` is `v + s.n` -/
def deepCopy (s : Store) (v : Nat) : Store × Nat :=
  (⟨s.cells ++ s.cells.map (shiftCell s.n)⟩, v + s.n)

/-! ## reading a store back as a Model-B tree (ids = store ids) -/

def toTree (s : Store) : Nat → Nat → Tree
  | 0, v => .node v [] [] []
  | f + 1, v => match s.cell? v with
    | none => .node v [] [] []
    | some c => .node v c.name c.attrs (c.children.map (toTree s f))

mutual
def shiftIds (k : Nat) : Tree → Tree
  | .node i n av cs => .node (i + k) n av (shiftIdsL k cs)
def shiftIdsL (k : Nat) : List Tree → List Tree
  | [] => []
  | c :: cs => shiftIds k c :: shiftIdsL k cs
end

mutual
def treeIds : Tree → List Nat
  | .node i _ _ cs => i :: treeIdsL cs
def treeIdsL : List Tree → List Nat
  | [] => []
  | c :: cs => treeIds c ++ treeIdsL cs
end

/-- names of the proper ancestors of `v`, root first -/
def ancNames (s : Store) (v : Nat) : List Str := (ancestors s s.n v).reverse.map s.nameOf

/-! ## the separation predicate -/

/-- every link of the store stays inside the store -/
def Closed (s : Store) : Prop :=
  ∀ i c, s.cell? i = some c → (∀ p, c.parent = some p → p < s.n) ∧ (∀ ch ∈ c.children, ch < s.n)

/-- no `parent`/`children` link crosses the boundary `k` -/
def Sep (s : Store) (k : Nat) : Prop :=
  ∀ i c, s.cell? i = some c →
    (∀ p, c.parent = some p → (i < k ↔ p < k)) ∧ (∀ ch ∈ c.children, (i < k ↔ ch < k))

/-! ## clone_tree as the composition it is -/

mutual
/-- `_recursive_add_child(new_parent, parent)`: for each child create the node from its public
    attributes, attach it, recurse -/
def cloneKids (newParent : Nat) : List Tree → Store → Store
  | [], s => s
  | c :: cs, s =>
    let a := alloc s c.name (Helper.publicAttrs c.attrs)
    let s2 := setParent a.1 a.2 (some newParent)
    cloneKids newParent cs (cloneNode a.2 c s2)
def cloneNode (newId : Nat) : Tree → Store → Store
  | .node _ _ _ cs, s => cloneKids newId cs s
end

/-- `clone_tree(v, Node)`: starts from `v.root` -/
def cloneA (s : Store) (v : Nat) : Store × Nat :=
  let T := toTree s s.n (rootOf s s.n v)
  let a := alloc s T.name (Helper.publicAttrs T.attrs)
  (cloneNode a.2 T a.1, a.2)

/-! ## prune_tree / get_subtree as the compositions they are -/

/-- the `for path in prune_path` loop on the copy; returns the located store ids -/
def locateA (treeSep : Str) (anc : List Str) (T : Tree) (sepArg : Str) : List Str → Except Err (List Nat)
  | [] => .ok []
  | q :: qs =>
    match Helper.findPath treeSep anc T (Helper.replace sepArg treeSep q) with
    | .error e => .error e
    | .ok none => .error .notFound
    | .ok (some v) => (locateA treeSep anc T sepArg qs).map (v.sub.id :: ·)

/-- the detach loop: `for _node in ancestors_to_prune: for child in _node.children: if child not in
    ancestors_to_prune and child not in nodes_to_prune: child.parent = None` -/
def detachLoop (A N : List Nat) (s : Store) : Store :=
  A.foldl (fun s a =>
    (s.childrenOf a).foldl (fun s c => if !A.contains c && !N.contains c then setParent s c none else s) s) s

/-- `levelordergroup_iter` on the store -/
def levelIds (s : Store) : Nat → List Nat → List (List Nat)
  | 0, _ => []
  | f + 1, ids =>
    let nx := ids.flatMap s.childrenOf
    ids :: (if nx.isEmpty then [] else levelIds s f nx)

def depthCutA (s : Store) (r : Nat) (md : Nat) : Store :=
  match (levelIds s s.n [r])[md - 1]? with
  | some g => g.foldl delChildren s
  | none => s

def prunePathsA (treeSep : Str) (s1 : Store) (r : Nat) (paths : List Str) (exact : Bool) (sepArg : Str) :
    Except Err Store :=
  if paths.isEmpty then .ok s1 else
  (locateA treeSep (ancNames s1 r) (toTree s1 s1.n r) sepArg paths).map fun N =>
    let A0 := N.flatMap (ancestors s1 s1.n)
    let A := if exact then A0 ++ N else A0
    detachLoop A N s1

/-- `prune_tree(v, paths, exact, sep, max_depth)`: copy, locate, detach, depth cut; returns the
    store and the copy of `v` -/
def pruneA (treeSep : Str) (s : Store) (v : Nat) (paths : List Str) (exact : Bool) (sepArg : Str) (md : Nat) :
    Except Err (Store × Nat) :=
  if paths.isEmpty && md == 0 then .error .valueError else
  let c := deepCopy s v
  (prunePathsA treeSep c.1 c.2 paths exact sepArg).map fun s2 =>
    (if md == 0 then s2 else depthCutA s2 c.2 md, c.2)

/-- `tree = tree.copy(); if q: tree = find_path(tree, q) or raise ValueError` -/
def subtreeFindA (treeSep : Str) (s1 : Store) (r : Nat) (q : Str) : Except Err Nat :=
  if q.isEmpty then .ok r else
  match Helper.findPath treeSep (ancNames s1 r) (toTree s1 s1.n r) q with
  | .error e => .error e
  | .ok none => .error .valueError
  | .ok (some v) => .ok v.sub.id

/-- `get_subtree(v, q, max_depth)`: copy, find, `parent = None`, depth prune (a second copy) -/
def getSubtreeA (treeSep : Str) (s : Store) (v : Nat) (q : Str) (md : Nat) : Except Err (Store × Nat) :=
  let c := deepCopy s v
  (subtreeFindA treeSep c.1 c.2 q).bind fun w =>
    let s2 := if (c.1.parentOf w).isSome then setParent c.1 w none else c.1
    if md == 0 then .ok (s2, w) else pruneA treeSep s2 w [] false ['/'] md

end CopyStore
