import BigtreeModel.Basic
import BigtreeModel.Export
import BigtreeModel.Generated.Tables
/-!
# Newick writer (`tree_to_newick`) and parser (`newick_to_tree`, the state machine as written)

The eight `NewickCharacter` constants are a parameter (`Chars`); the instance used by the driver and
by the final theorems is read from the GENERATED table `Generated.newickSpecials`.
The writer's punctuation `( ) , [ ] =` and its wrapping quote `'` are literals in the Python source
and are literals here; `_serialize` consults the table (`NewickCharacter.values()`).

Parser state, as in the Python: `depth_nodes` (a `defaultdict(list)`, here a function `Int → List Tree`),
`unlabelled_node_counter`, `current_depth`, `current_state`, `current_node`, `cumulative_string`,
`cumulative_string_value`, and the remaining input. `current_node`, when set, is always the LAST
node of `depth_nodes[current_depth]` (it is appended there on creation, and `(`/`)`/`,` reset it or
refuse), so the model keeps a flag and updates that list element where Python mutates the object.
Every exception (ValueError, AssertionError, TreeError from a duplicate sibling name, `float()`
failing) is `none`.
-/

namespace Newick
open Export

structure Chars where
  openB : Char
  closeB : Char
  attrStart : Char
  attrEnd : Char
  keyValue : Char
  quote : Char
  sep : Char
  nodeSep : Char
  deriving DecidableEq, Repr

/-- `NewickCharacter.values()` -/
def Chars.values (c : Chars) : List Char :=
  [c.openB, c.closeB, c.attrStart, c.attrEnd, c.keyValue, c.quote, c.sep, c.nodeSep]

def single (s : String) : Option Char :=
  match s.toList with
  | [ch] => some ch
  | _ => none

/-- the enum as extracted from `constants.py`, in declaration order
    (OPEN_BRACKET, CLOSE_BRACKET, ATTR_START, ATTR_END, ATTR_KEY_VALUE, ATTR_QUOTE, SEP, NODE_SEP) -/
def Chars.ofTable : List String → Option Chars
  | [a, b, c, d, e, f, g, h] =>
    match single a, single b, single c, single d, single e, single f, single g, single h with
    | some a, some b, some c, some d, some e, some f, some g, some h => some ⟨a, b, c, d, e, f, g, h⟩
    | _, _, _, _, _, _, _, _ => none
  | _ => none

def stdChars : Chars := ⟨'(', ')', '[', ']', '=', '\'', ':', ','⟩

/-- the constants of the code under test -/
def chars : Chars := (Chars.ofTable Generated.newickSpecials).getD stdChars

/-- the side conditions under which writer and parser agree: the eight constants are pairwise
    distinct single characters, and they are the punctuation the writer emits literally -/
def Chars.OK (c : Chars) : Prop :=
  c.values.Nodup ∧ c.openB = '(' ∧ c.closeB = ')' ∧ c.attrStart = '[' ∧ c.attrEnd = ']' ∧
    c.keyValue = '=' ∧ c.quote = '\'' ∧ c.sep = ':' ∧ c.nodeSep = ','

instance (c : Chars) : Decidable c.OK := by unfold Chars.OK; exact inferInstance

/-! ## writer -/

structure WOpts where
  interName : Bool := true
  lengthAttr : Str := []
  lengthSep : Str := [':']
  attrList : List Str := []
  attrPrefix : Str := "&&NHX:".toList
  attrSep : Str := [':']

/-- `_serialize` on a string -/
def serialize (c : Chars) (s : Str) : Str :=
  if s.any (fun ch => c.values.contains ch)
  then '\'' :: s.map (fun ch => if ch = c.quote then '"' else ch) ++ ['\'']
  else s

/-- `f"{value}"` -/
def valText : Val → Str
  | .null => "None".toList
  | .int i => (toString i).toList
  | .str s => s
  | .bool true => "True".toList
  | .bool false => "False".toList

/-- `f"{_serialize(value)}"` -/
def serializeVal (c : Chars) : Val → Str
  | .str s => serialize c s
  | v => valText v

/-- Python truthiness of an attribute value -/
def truthy : Val → Bool
  | .null => false
  | .int i => i != 0
  | .str s => s != []
  | .bool b => b

def joinS (sep : Str) : List Str → Str
  | [] => []
  | [a] => a
  | a :: b :: rest => a ++ sep ++ joinS sep (b :: rest)

/-- `attr_str` -/
def attrStr (c : Chars) (o : WOpts) (a : Attrs) : Str :=
  let items := (o.attrList.filter fun k => truthy (getAttr a k)).map fun k =>
    serialize c k ++ '=' :: serializeVal c (getAttr a k)
  let s := joinS o.attrSep items
  if o.attrList ≠ [] ∧ s ≠ [] then '[' :: o.attrPrefix ++ s ++ [']'] else []

/-- `node_name_str` (with the length part); `none` = the length attribute is missing / falsy -/
def nameStr (c : Chars) (o : WOpts) (isRoot : Bool) (n : Str) (a : Attrs) (isLeaf : Bool) : Option Str :=
  let base := if o.interName || isLeaf then serialize c n else []
  if o.lengthAttr ≠ [] ∧ !isRoot then
    if truthy (getAttr a o.lengthAttr) then some (base ++ o.lengthSep ++ valText (getAttr a o.lengthAttr))
    else none
  else some base

mutual
/-- `tree_to_newick(tree, …)`; `isRoot = tree.is_root` -/
def write (c : Chars) (o : WOpts) (isRoot : Bool) : Tree → Option Str
  | .node _ n a cs =>
    match nameStr c o isRoot n a cs.isEmpty with
    | none => none
    | some ns =>
      if cs.isEmpty then some (ns ++ attrStr c o a)
      else match writeL c o cs with
        | none => none
        | some kids => some ('(' :: kids ++ ')' :: ns ++ attrStr c o a)
/-- `",".join(tree_to_newick(child, …) for child in children)` -/
def writeL (c : Chars) (o : WOpts) : List Tree → Option Str
  | [] => some []
  | [t] => write c o false t
  | t :: u :: ts =>
    match write c o false t, writeL c o (u :: ts) with
    | some s, some r => some (s ++ ',' :: r)
    | _, _ => none
end

/-! ## parser -/

inductive NState where
  | str
  | attrName
  | attrVal
  deriving DecidableEq, Repr

structure PState where
  dn : Int → List Tree
  counter : Nat
  depth : Int
  st : NState
  cur : Bool
  cum : Str
  cumVal : Str

def PState.init : PState :=
  { dn := fun _ => [], counter := 0, depth := 1, st := .str, cur := false, cum := [], cumVal := [] }

def upd (dn : Int → List Tree) (k : Int) (l : List Tree) : Int → List Tree :=
  fun j => if j = k then l else dn j

def isDigits (s : Str) : Bool := s != [] && s.all Char.isDigit

def digitsVal (s : Str) : Nat := s.foldl (fun n ch => 10 * n + (ch.toNat - '0'.toNat)) 0

/-- `int(s) if s.isdigit() else float(s)` on a non-empty string. Of `float`'s syntax only blank-padded
    ASCII digit strings are modelled (value = the integer); everything else is the `ValueError`.
    (The generators' alphabets contain no other float syntax: no `. e E _ + -`, no `inf`/`nan`.) -/
def pyNumber (s : Str) : Option Val :=
  if isDigits s then some (.int (digitsVal s))
  else
    let t := ((s.dropWhile (· == ' ')).reverse.dropWhile (· == ' ')).reverse
    if isDigits t then some (.int (digitsVal t)) else none

def setChildren : Tree → List Tree → Tree
  | .node i n a _, cs => .node i n a cs

def setAttr : Tree → Str → Val → Tree
  | .node i n a cs, k, v => .node i n (dset a k v) cs

/-- tail of `_create_node`: adopt `depth_nodes[d+1]` when it is non-empty
    (the children setter refuses duplicate names) and delete that entry -/
def attach (dn : Int → List Tree) (d : Int) (t : Tree) : Option (Tree × (Int → List Tree)) :=
  match dn (d + 1) with
  | [] => some (t, dn)
  | k :: ks => if dupNames (k :: ks) then none else some (setChildren t (k :: ks), upd dn (d + 1) [])

/-- existing node + non-empty cumulative string: the length attribute -/
def withLength (la : Str) (cum : Str) (t : Tree) : Option Tree :=
  if cum = [] then some t
  else match pyNumber cum with
    | none => none
    | some v => some (setAttr t la v)

/-- `_create_node(None, cumulative_string, …)` at the current depth; the new node becomes
    `current_node` -/
def createNew (s : PState) : Option PState :=
  let name := if s.cum = [] then "node".toList ++ (toString s.counter).toList else s.cum
  let ctr := if s.cum = [] then s.counter + 1 else s.counter
  match attach s.dn s.depth (.node 0 name [] []) with
  | none => none
  | some (t, dn') =>
    some { s with dn := upd dn' s.depth (dn' s.depth ++ [t]), counter := ctr, cur := true }

/-- `_create_node(current_node, cumulative_string, …)` with `current_node` set -/
def createExisting (la : Str) (s : PState) : Option PState :=
  match (s.dn s.depth).getLast? with
  | none => none
  | some last =>
    match withLength la s.cum last with
    | none => none
    | some t1 =>
      match attach s.dn s.depth t1 with
      | none => none
      | some (t2, dn') => some { s with dn := upd dn' s.depth ((dn' s.depth).dropLast ++ [t2]) }

def create (la : Str) (s : PState) : Option PState :=
  if s.cur then createExisting la s else createNew s

/-- `current_node.set_attrs({cumulative_string: cumulative_string_value})`, then both cleared -/
def setCurAttr (s : PState) : Option PState :=
  if !s.cur then none else
  match (s.dn s.depth).getLast? with
  | none => none
  | some last =>
    some { s with dn := upd s.dn s.depth ((s.dn s.depth).dropLast ++ [setAttr last s.cum (.str s.cumVal)]),
                  cum := [], cumVal := [] }

def startsWith : Str → Str → Bool
  | _, [] => true
  | [], _ :: _ => false
  | a :: as, b :: bs => a == b && startsWith as bs

/-- one pass of the `while` loop on character `ch` with `rest` still to read: the new state and
    how many characters of `rest` the pass skips (`tree_string_idx += len(attr_prefix)`,
    `tree_string_idx = quote_end_idx + 1`) -/
def step (c : Chars) (la pre : Str) (s : PState) (ch : Char) (rest : Str) : Option (PState × Nat) :=
  if ch = c.openB then
    if s.st ≠ .str ∨ s.cur ∨ s.cum ≠ [] ∨ s.cumVal ≠ [] then none
    else some ({ s with depth := s.depth + 1 }, 0)
  else if ch = c.closeB ∨ ch = c.attrStart ∨ ch = c.nodeSep then
    if s.st = .attrVal then none else
    let s1 : PState := if ch = c.attrStart then { s with st := .attrName } else s
    let skip := if ch = c.attrStart ∧ startsWith rest pre then pre.length else 0
    match create la s1 with
    | none => none
    | some s2 =>
      let s3 : PState := if ch = c.closeB then { s2 with depth := s2.depth - 1, cur := false } else s2
      let s4 : PState := if ch = c.nodeSep then { s3 with cur := false } else s3
      if s4.cumVal ≠ [] then none else some ({ s4 with cum := [] }, skip)
  else if ch = c.attrEnd then
    if s.st ≠ .attrVal then none else
    match setCurAttr { s with st := .str } with
    | none => none
    | some s1 => some (s1, 0)
  else if ch = c.keyValue then
    if s.st ≠ .attrName ∨ !s.cur ∨ s.cum = [] ∨ s.cumVal ≠ [] then none
    else some ({ s with st := .attrVal }, 0)
  else if ch = c.quote then
    if !rest.contains c.quote then none else
    let content := rest.takeWhile (· != c.quote)
    if s.st = .attrVal then
      if s.cumVal ≠ [] then none else some ({ s with cumVal := content }, content.length + 1)
    else
      if s.cum ≠ [] then none else some ({ s with cum := content }, content.length + 1)
  else if ch = c.sep then
    match s.st with
    | .attrName => none
    | .str =>
      if s.cur then none else
      match createNew s with
      | none => none
      | some s1 => if s1.cumVal ≠ [] then none else some ({ s1 with cum := [] }, 0)
    | .attrVal =>
      match setCurAttr { s with st := .attrName } with
      | none => none
      | some s1 => some (s1, 0)
  else if s.st = .attrVal then some ({ s with cumVal := s.cumVal ++ [ch] }, 0)
  else some ({ s with cum := s.cum ++ [ch] }, 0)

/-- the `while tree_string_idx < len(tree_string)` loop; every pass consumes at least one
    character, so fuel = input length is enough -/
def run (c : Chars) (la pre : Str) : Nat → PState → Str → Option PState
  | _, s, [] => some s
  | 0, _, _ :: _ => none
  | f + 1, s, ch :: rest =>
    match step c la pre s ch rest with
    | none => none
    | some (s', k) => run c la pre f s' (rest.drop k)

/-- after the loop: depth check, "Final root node" -/
def finish (la : Str) (s : PState) : Option Tree :=
  if s.depth ≠ 1 then none else
  match s.dn 1 with
  | [] =>
    match createNew s with
    | none => none
    | some s' => (s'.dn 1).getLast?
  | first :: _ =>
    match withLength la s.cum first with
    | none => none
    | some t1 =>
      match attach s.dn 1 t1 with
      | none => none
      | some (t2, _) => some t2

/-- `newick_to_tree(tree_string, length_attr=la, attr_prefix=pre)` -/
def parse (c : Chars) (la pre : Str) (input : Str) : Option Tree :=
  if input = [] then none else
  match run c la pre input.length PState.init input with
  | none => none
  | some s => finish la s

/-- what a names-only Newick string preserves: names, shape, sibling order -/
def namesOnly (t : Tree) : Tree := canonWith (fun _ => []) t

/-! ## what a Newick string with lengths and attributes preserves -/

/-- writer options of the round-trip theorem: node names on, `:` as both separators -/
def stdW (la : Str) (al : List Str) (pre : Str) : WOpts :=
  { interName := true, lengthAttr := la, lengthSep := [':'], attrList := al, attrPrefix := pre, attrSep := [':'] }

/-- the listed attributes the writer emits for a node (the truthy ones) -/
def listed (al : List Str) (a : Attrs) : List Str := al.filter fun k => truthy (getAttr a k)

/-- attributes of the node read back: the length (non-root nodes, when `length_attr` is given),
    then the listed truthy attributes in list order -/
def imgAttrs (la : Str) (al : List Str) (r : Bool) (a : Attrs) : Attrs :=
  (listed al a).foldl (fun acc k => dset acc k (getAttr a k))
    (if la ≠ [] ∧ r = false then [(la, getAttr a la)] else [])

mutual
/-- the tree read back; `r = tree.is_root` of the start node -/
def img (la : Str) (al : List Str) (r : Bool) : Tree → Tree
  | .node _ n a cs => .node 0 n (imgAttrs la al r a) (imgL la al cs)
def imgL (la : Str) (al : List Str) : List Tree → List Tree
  | [] => []
  | t :: ts => img la al false t :: imgL la al ts
end

/-- the length attribute is a positive integer (or no length attribute is exported) -/
def LenNode (la : Str) (u : Tree) : Prop := la = [] ∨ ∃ i : Int, 0 < i ∧ getAttr u.attrs la = .int i

/-- listed attribute names are non-empty and quote-free; listed truthy values are quote-free strings -/
def AttrNode (q : Char) (al : List Str) (u : Tree) : Prop :=
  ∀ k ∈ al, k ≠ [] ∧ q ∉ k ∧ (truthy (getAttr u.attrs k) = true → ∃ v, getAttr u.attrs k = .str v ∧ q ∉ v)

end Newick
