import BigtreeModel.Render
import BigtreeModel.Generated.Tables
/-! The built-in style tables of bigtree (`ExportConstants.PRINT_STYLES`, `HPRINT_STYLES`) as the
renderer model sees them; the tables themselves are regenerated from /repo on every run. -/
namespace Render

/-- `PRINT_STYLES` as (key, style) -/
def builtinStyles : List (String × Style) :=
  Generated.printStyles.map fun e => (e.1, ⟨e.2.1.toList, e.2.2.1.toList, e.2.2.2.toList⟩)

/-- 7 one-character icons → a horizontal style (anything else is refused by `hyield_tree`) -/
def mkHStyle (l : List Str) : Option HStyle :=
  match l with
  | [[a], [b], [c], [d], [e], [f], [g]] => some ⟨a, b, c, d, e, f, g⟩
  | _ => none

/-- `HPRINT_STYLES` as (key, style or none when the entry is malformed) -/
def builtinHStyles : List (String × Option HStyle) :=
  Generated.hprintStyles.map fun e => (e.1, mkHStyle (e.2.map String.toList))

/-- every glyph character is dropped by `encode("ascii", "ignore")` or is a blank: then `str_to_tree`
    needs no prefix list -/
def asciiBlind (st : Style) : Bool :=
  (st.stem ++ st.branch ++ st.stemFinal).all fun c => decide (c.toNat ≥ 128) || c == ' '

/-- the name survives `encode("ascii", "ignore")` -/
def asciiName (n : Str) : Bool := n.all fun c => decide (c.toNat < 128)

/-- the pinned built-in horizontal style "ascii": one glyph for all five connector roles (K4) -/
def asciiPinned : HStyle := ⟨'+', '+', '+', '+', '+', '|', '-'⟩

/-- K4 witness: two different trees with the same horizontal rendering in `asciiPinned` -/
def k4Tree1 : HTree :=
  .node ['r'] [.node ['P'] [.node ['a'] [], .node ['b'] [], .node ['c'] []],
    .node ['Q'] [.node ['d'] [], .node ['e'] [], .node ['f'] [], .node ['g'] [], .node ['h'] []]]
def k4Tree2 : HTree :=
  .node ['r'] [.node ['P'] [.node ['a'] [], .node ['b'] [], .node ['c'] [], .node ['d'] []],
    .node ['Q'] [.node ['e'] [], .node ['f'] [], .node ['g'] [], .node ['h'] []]]

end Render
