import BigtreeModel.Basic
import BigtreeModel.Paths
/-!
# Relation, nested-dict and heap-list constructors

* `relToTree` — `dataframe_to_tree_by_relation`, `polars_to_tree_by_relation`,
  `list_to_tree_by_relation` (which builds a two-column DataFrame and calls the first);
* `nestedToTree` — `nested_dict_to_tree`;
* `listToBinary` — `list_to_binarytree`.

A relation frame is a list of rows `(child, parent?, cells)`; a missing parent is `none`.
Refusals are `Err.value` (`ValueError`: empty input, root inference, ambiguous repeated
non-leaf child) or another kind (`TreeError` on an empty name or on two equal sibling names;
`Err.other` when the fuel of the recursive descent runs out, Python: `RecursionError`).
-/

namespace Rel
open Paths

structure Row where
  child : Str
  parent : Option Str
  attrs : Attrs
  deriving Repr, Inhabited, DecidableEq

/-- first occurrences (`drop_duplicates`, `unique`, `set` up to order) -/
def dedupBy {α} [DecidableEq α] : List α → List α
  | [] => []
  | x :: xs => x :: (dedupBy xs).filter (· ≠ x)

/-- `assert_dataframe_no_duplicate_children`: among the distinct (child, parent) pairs whose
    child is also a parent, some child occurs more than once -/
def dupChildren (rows : List Row) : Bool :=
  let pairs := dedupBy (rows.map fun r => (r.child, r.parent))
  let cands := pairs.filter fun p => pairs.any fun q => q.2 = some p.1
  cands.any fun p => (cands.filter fun q => q.1 = p.1).length > 1

/-- `root_names`: children of rows without parent, and parents that are never a child -/
def rootNames (rows : List Row) : List Str :=
  dedupBy ((rows.filter fun r => r.parent.isNone).map (·.child)
    ++ (rows.filterMap (·.parent)).filter fun p => !(rows.any fun r => r.child = p))

/-- `_retrieve_attr`: non-null cells -/
def rowAttrs (r : Row) : Attrs := r.attrs.filter fun kv => kv.2 ≠ .null

/-- names of a sibling group are pairwise different (else `child.parent = …` raises `TreeError`) -/
def namesNodup : List Tree → Bool
  | [] => true
  | t :: ts => !(ts.any fun u => u.name = t.name) && namesNodup ts

/-- `for x in xs: ys.append(g(x))`, stopping at the first failure -/
def mapE {α β : Type} (g : α → Except Err β) : List α → Except Err (List β)
  | [] => .ok []
  | x :: xs =>
    match g x with
    | .error e => .error e
    | .ok y =>
      match mapE g xs with
      | .error e => .error e
      | .ok ys => .ok (y :: ys)

/-- `_recursive_add_child(parent_node)`: the rows whose parent is `pname`, in row order, each
    becoming a child (`node_type(**row)`, refused with `TreeError` on an empty name) whose own
    children are built recursively. Fuel = recursion depth left. -/
def build (rows : List Row) : Nat → Str → Except Err (List Tree)
  | 0, _ => .error .other
  | f + 1, pname =>
    match mapE (fun r =>
        if r.child = [] then .error .tree
        else
          match build rows f r.child with
          | .error e => .error e
          | .ok cs => .ok (.node 0 r.child (rowAttrs r) cs))
        (rows.filter fun r => r.parent = some pname) with
    | .error e => .error e
    | .ok cs => if namesNodup cs then .ok cs else .error .tree

/-- `dataframe_to_tree_by_relation(data, allow_duplicates=…)` -/
def relToTree (allowDup : Bool) (rows : List Row) : Except Err Tree :=
  if rows.isEmpty then .error .value
  else if !allowDup && dupChildren rows then .error .value
  else
    match rootNames rows with
    | [rootName] =>
      let rootAttrs := match rows.find? (fun r => r.child = rootName) with
        | some r => rowAttrs r
        | none => []
      if rootName = [] then .error .tree
      else
        match build rows (rows.length + 1) rootName with
        | .error e => .error e
        | .ok cs => .ok (.node 0 rootName rootAttrs cs)
    | _ => .error .value

end Rel

/-- a nested dictionary `{name_key: …, child_key: [ … ], **attrs}` -/
inductive NDict where
  | mk (name : Str) (attrs : Attrs) (children : List NDict)
  deriving Repr, Inhabited

namespace NDict
open Paths

mutual
/-- `nested_dict_to_tree`: `node_type(name, parent=parent, **attrs)` refuses an empty name and
    a second sibling of the same name (`TreeError`) -/
def toTree : NDict → Except Err Tree
  | .mk n a cs =>
    if n = [] then .error .tree
    else
      match toTreeL cs with
      | .error e => .error e
      | .ok ts => if Rel.namesNodup ts then .ok (.node 0 n a ts) else .error .tree
def toTreeL : List NDict → Except Err (List Tree)
  | [] => .ok []
  | d :: ds =>
    match toTree d with
    | .error e => .error e
    | .ok t =>
      match toTreeL ds with
      | .error e => .error e
      | .ok ts => .ok (t :: ts)
end

mutual
/-- the nested dictionary of a tree (`tree_to_nested_dict` with all attributes) — specification side -/
def ofTree : Tree → NDict
  | .node _ n a cs => .mk n a (ofTreeL cs)
def ofTreeL : List Tree → List NDict
  | [] => []
  | t :: ts => ofTree t :: ofTreeL ts
end

/-- `nested_dict_to_tree(node_attrs)`: an empty dictionary (`none`) is refused with `ValueError` -/
def nestedToTree : Option NDict → Except Err Tree
  | none => .error .value
  | some d => d.toTree

end NDict

namespace Heap
open Paths

/-- a `BinaryNode` under construction: value and the two child slots (indices into `node_list`) -/
structure Slot where
  val : Int
  left : Option Nat
  right : Option Nat
  deriving Repr, Inhabited, DecidableEq

/-- `BinaryNode(num, parent=node_list[p])`: the parent setter puts the new node into the first
    empty slot of the parent, `TreeError` when both are taken -/
def attach (st : List Slot) (p i : Nat) : Except Err (List Slot) :=
  match st[p]? with
  | none => .error .other
  | some s =>
    if s.left.isNone then .ok (st.set p { s with left := some i })
    else if s.right.isNone then .ok (st.set p { s with right := some i })
    else .error .tree

/-- `parent_idx = int((idx + 1) / 2) - 1`. Python evaluates `(idx+1)/2` in binary64 and
    truncates; for `idx + 1 < 2^53` that is the natural-number quotient, which is what is
    modelled. -/
def parentIdx (idx : Nat) : Nat := (idx + 1) / 2 - 1

/-- the `for idx, num in enumerate(heapq_list)` loop from `idx` on; `st` is `node_list` -/
def loop : List Int → Nat → List Slot → Except Err (List Slot)
  | [], _, st => .ok st
  | x :: xs, idx, st =>
    match attach st (parentIdx idx) idx with
    | .error e => .error e
    | .ok st' => loop xs (idx + 1) (st' ++ [{ val := x, left := none, right := none }])

/-- `list_to_binarytree` as the final `node_list` (node `i` holds `heapq_list[i]`) -/
def listToStore : List Int → Except Err (List Slot)
  | [] => .error .value
  | x :: xs => loop xs 1 [{ val := x, left := none, right := none }]

/-- read the tree rooted at slot `i` back (fuel = number of slots) -/
def readBack (st : List Slot) : Nat → Nat → BTree
  | 0, _ => .nil
  | f + 1, i =>
    match st[i]? with
    | none => .nil
    | some s =>
      .node i (toString s.val).toList []
        (match s.left with | some l => readBack st f l | none => .nil)
        (match s.right with | some r => readBack st f r | none => .nil)

/-- `list_to_binarytree(heapq_list)` -/
def listToBinary (xs : List Int) : Except Err BTree :=
  match listToStore xs with
  | .error e => .error e
  | .ok st => .ok (readBack st st.length 0)

/-- specification: the heap-shaped tree read directly off the list -/
def heapTree (xs : List Int) : Nat → Nat → BTree
  | 0, _ => .nil
  | f + 1, i =>
    match xs[i]? with
    | none => .nil
    | some v => .node i (toString v).toList [] (heapTree xs f (2 * i + 1)) (heapTree xs f (2 * i + 2))

end Heap

/-! ## specification side: the edge list of a tree -/
namespace Rel
open Paths

mutual
/-- all (child, parent, attributes) rows of a tree: the rows of the root's children, then the
    rows of each child's subtree -/
def edges : Tree → List Row
  | .node _ n _ cs => cs.map (fun c => Row.mk c.name (some n) c.attrs) ++ edgesAll cs
def edgesAll : List Tree → List Row
  | [] => []
  | c :: cs => edges c ++ edgesAll cs
end

/-- a row as it is reflected in the tree: missing cells dropped -/
def norm (r : Row) : Row := { r with attrs := rowAttrs r }

end Rel
