import BigtreeModel.Basic
/-!
# Model A — pointer store for `BaseNode` / `Node`

Nodes are ids `0 … n-1`.  The state is exactly the private fields of the Python objects:
`parent` (`_BaseNode__parent`), `children` (`_BaseNode__children`, ordered), and for `Node`
`name` and the per-object separator field `sepOf` (`_sep`; the `sep` *property* reads the root's).

Every setter is written statement by statement in the order `bigtree/node/basenode.py` executes
them: guard block (`if ASSERTIONS:`), snapshot, pre-assign hook, body of the `try`, post-assign
hook, and the explicit roll-back code of the `except` branch (executed, never replaced by
"return the old state").

Parameters of every operation
* `Cfg.assertions` — the `ASSERTIONS` switch (`bigtree/globals.py`);
* `Cfg.node` — class `Node` (its `_BaseNode__pre_assign_*` overrides run the user hook first and
  then the duplicate-sibling-name check) vs. plain `BaseNode`;
* `Fault` — a user hook raising in `__pre_assign_*` (`pre`) or `__post_assign_*` (`post`).

An id `≥ n` in an argument position stands for an object that is not a node.

Not modelled (unreachable from well-formed stores): the `CorruptedTreeError` branch of the parent
setter, `list.index`/`list.remove` raising `ValueError` on a missing element, `None.__children`.
With `assertions = false` only arguments that the guards would accept are in the domain of the
tie (C20 speaks about accepted histories only); for other arguments the model executes the same
statements on ids, without Python's `AttributeError`s and list aliasing.
-/

inductive Fault where
  | none | pre | post
  deriving DecidableEq, Repr, Inhabited

inductive Outcome where
  | ok | rej
  deriving DecidableEq, Repr, Inhabited

structure Store where
  n : Nat
  parent : Nat → Option Nat
  children : Nat → List Nat
  name : Nat → Str
  sepOf : Nat → Str

structure Cfg where
  assertions : Bool
  node : Bool
  deriving DecidableEq, Repr

namespace Store

/-- all nodes freshly constructed: roots without children (`Node(name, sep=sep)` for each) -/
def init (n : Nat) (names : Nat → Str) (sep : Str) : Store :=
  { n := n, parent := fun _ => none, children := fun _ => [], name := names, sepOf := fun _ => sep }

/-- `x.__parent = p` -/
def setP (s : Store) (x : Nat) (p : Option Nat) : Store :=
  { s with parent := fun y => if y = x then p else s.parent y }

/-- `x.__children = l` -/
def setC (s : Store) (x : Nat) (l : List Nat) : Store :=
  { s with children := fun y => if y = x then l else s.children y }

/-- Python `list.insert(i, x)`: positions past the end append -/
def pyInsert (l : List Nat) (i x : Nat) : List Nat :=
  if i ≤ l.length then l.insertIdx i x else l ++ [x]

/-- `node.ancestors`: the `while node is not None` walk, with fuel (`anc_complete`: fuel `n` is enough) -/
def anc (s : Store) : Nat → Nat → List Nat
  | 0, _ => []
  | f + 1, v =>
    match s.parent v with
    | none => []
    | some p => p :: anc s f p

/-- `node.root` (recursive property), with fuel -/
def rootOf (s : Store) : Nat → Nat → Nat
  | 0, v => v
  | f + 1, v =>
    match s.parent v with
    | none => v
    | some p => rootOf s f p

/-! ## stable insertion sort (Python's `sorted` / `list.sort` are stable) -/

def insertKey {α : Type} (key : α → Nat) (x : α) : List α → List α
  | [] => [x]
  | y :: ys => if key x ≤ key y then x :: y :: ys else y :: insertKey key x ys

def sortKey {α : Type} (key : α → Nat) (l : List α) : List α :=
  l.foldr (insertKey key) []

/-! ## guards (`__check_parent_type`, `__check_parent_loop`, `__check_children_loop`) -/

/-- `isinstance(new_parent, BaseNode) or new_parent is None` -/
def checkParentType (s : Store) : Option Nat → Bool
  | none => true
  | some p => decide (p < s.n)

/-- not self, and self is not among `new_parent.ancestors` -/
def checkParentLoop (s : Store) (v : Nat) : Option Nat → Bool
  | none => true
  | some p => !(p == v) && !((anc s s.n p).contains v)

/-- the loop of `__check_children_loop` with its `seen_children` accumulator -/
def checkChildrenLoop (s : Store) (v : Nat) : List Nat → List Nat → Bool
  | [], _ => true
  | c :: cs, seen =>
    if !(decide (c < s.n)) then false          -- TypeError: not a BaseNode
    else if c == v then false                  -- LoopError: child of itself
    else if (anc s s.n v).contains c then false -- LoopError: ancestor of itself
    else if seen.contains c then false         -- TreeError: added multiple times
    else checkChildrenLoop s v cs (c :: seen)

/-! ## `Node`'s duplicate-name checks (run inside the pre-assign hook, after the user hook) -/

/-- `any(child.node_name == self.node_name and child is not self for child in new_parent.children)` -/
def dupParent (s : Store) (v : Nat) : Option Nat → Bool
  | none => false
  | some p => (s.children p).any fun c => s.name c == s.name v && !(c == v)

/-- `Counter(children_names)` has an item with count > 1 -/
def dupNames (s : Store) : List Nat → Bool
  | [] => false
  | c :: cs => (cs.any fun d => s.name d == s.name c) || dupNames s cs

/-! ## the parent setter -/

/-- body of the `try` of the parent setter, up to (not including) the post-assign hook;
returns the new store and `current_child_idx` -/
def parentBody (s : Store) (v : Nat) (np : Option Nat) : Store × Option Nat :=
  let cur := s.parent v
  -- remove self from old parent
  let (s1, idx) : Store × Option Nat :=
    match cur with
    | none => (s, none)
    | some p => (s.setC p ((s.children p).erase v), some ((s.children p).idxOf v))
  -- assign self to new parent
  let s2 := s1.setP v np
  let s3 := match np with
    | none => s2
    | some q => s2.setC q (s2.children q ++ [v])
  (s3, idx)

/-- the `except` branch of the parent setter -/
def parentRollback (s3 : Store) (v : Nat) (np cur : Option Nat) (idx : Option Nat) : Store :=
  -- remove self from new parent
  let s4 := match np with
    | none => s3
    | some q => s3.setC q ((s3.children q).erase v)
  -- reassign self to old parent
  let s5 := s4.setP v cur
  match idx, cur with
  | some i, some p => s5.setC p (pyInsert (s5.children p) i v)
  | _, _ => s5

/-- `v.parent = np` -/
def setParent (c : Cfg) (s : Store) (v : Nat) (np : Option Nat) (f : Fault) : Store × Outcome :=
  if c.assertions && !(checkParentType s np && checkParentLoop s v np) then (s, .rej) else
  let cur := s.parent v
  -- pre-assign hook (user hook first, then Node's duplicate check); raised outside the `try`
  if f = .pre then (s, .rej) else
  if c.node && dupParent s v np then (s, .rej) else
  let b := parentBody s v np      -- (store after the body, current_child_idx)
  if f = .post then (parentRollback b.1 v np cur b.2, .rej)
  else (b.1, .ok)

/-! ## the children deleter and setter -/

/-- one iteration of `for child in self.children: child.parent.__children.remove(child); child.__parent = None` -/
def detachStep (st : Store) (c : Nat) : Store :=
  match st.parent c with
  | some p => (st.setC p ((st.children p).erase c)).setP c none
  | none => st

/-- `del v.children` -/
def delChildren (s : Store) (v : Nat) : Store :=
  (s.children v).foldl detachStep s

/-- one iteration of the stealing loop of the children setter -/
def stealStep (v : Nat) (st : Store) (c : Nat) : Store :=
  let st' := match st.parent c with
    | some p => st.setC p ((st.children p).erase c)
    | none => st
  st'.setP c (some v)

/-- `current_new_children`: (child, old index, old parent), in dict insertion order (the keys are
distinct for every argument the guards accept) -/
def stolenOf (s : Store) (cs : List Nat) : List (Nat × Nat × Nat) :=
  cs.filterMap fun c =>
    match s.parent c with
    | some p => some (c, (s.children p).idxOf c, p)
    | none => none

/-- one iteration of `child.__parent = parent; parent.__children.insert(child_idx, child)` -/
def restoreStep (st : Store) (e : Nat × Nat × Nat) : Store :=
  let st' := st.setP e.1 (some e.2.2)
  st'.setC e.2.2 (pyInsert (st'.children e.2.2) e.2.1 e.1)

/-- the `except` branch of the children setter; `order` is the list the first loop runs over
(`sorted(current_new_children.items(), key=idx)` after the D1 repair) -/
def childrenRollback (s3 : Store) (v : Nat) (order : List (Nat × Nat × Nat)) (orphans cur : List Nat) : Store :=
  let s4 := order.foldl restoreStep s3
  let s5 := orphans.foldl (fun st c => st.setP c none) s4
  let s6 := s5.setC v cur
  cur.foldl (fun st c => st.setP c (some v)) s6

/-- body of the `try` of the children setter, up to the post-assign hook -/
def childrenBody (s : Store) (v : Nat) (cs : List Nat) : Store :=
  let s1 := delChildren s v
  let s2 := s1.setC v cs
  cs.foldl (stealStep v) s2

/-- `v.children = cs` (`cs` a list/tuple/set of objects) -/
def setChildren (c : Cfg) (s : Store) (v : Nat) (cs : List Nat) (f : Fault) : Store × Outcome :=
  if c.assertions && !(checkChildrenLoop s v cs []) then (s, .rej) else
  -- snapshots
  let stolen := stolenOf s cs
  let orphans := cs.filter fun x => (s.parent x).isNone
  let cur := s.children v
  -- pre-assign hook, outside the `try`
  if f = .pre then (s, .rej) else
  if c.node && dupNames s cs then (s, .rej) else
  let s3 := childrenBody s v cs
  if f = .post then (childrenRollback s3 v (sortKey (fun e => e.2.1) stolen) orphans cur, .rej)
  else (s3, .ok)

/-- the roll-back as it was before the D1 repair: dict insertion order, not ascending index
(kept only for the `decide`d counter-example in `Properties/C02.lean`) -/
def setChildrenPreFix (c : Cfg) (s : Store) (v : Nat) (cs : List Nat) (f : Fault) : Store × Outcome :=
  if c.assertions && !(checkChildrenLoop s v cs []) then (s, .rej) else
  let stolen := stolenOf s cs
  let orphans := cs.filter fun x => (s.parent x).isNone
  let cur := s.children v
  if f = .pre then (s, .rej) else
  if c.node && dupNames s cs then (s, .rej) else
  let s3 := childrenBody s v cs
  if f = .post then (childrenRollback s3 v stolen orphans cur, .rej)
  else (s3, .ok)

/-! ## the operations of the structural API -/

inductive Op where
  /-- `v.parent = np` -/
  | setParent (v : Nat) (np : Option Nat) (f : Fault)
  /-- `v.children = [..]` -/
  | setChildren (v : Nat) (cs : List Nat) (f : Fault)
  /-- `v.children = <something that is not a list/tuple/set and not iterable>` -/
  | setChildrenNonList (v : Nat) (f : Fault)
  /-- `del v.children` -/
  | delChildren (v : Nat)
  /-- `p.append(c)` -/
  | append (p c : Nat) (f : Fault)
  /-- `p.extend([..])`; the hook fault (if any) strikes at element number `k` -/
  | extend (p : Nat) (cs : List Nat) (f : Fault) (k : Nat)
  /-- `p >> c` -/
  | rshift (p c : Nat) (f : Fault)
  /-- `c << p` -/
  | lshift (c : Nat) (p : Option Nat) (f : Fault)
  /-- `del p[name]` (class `Node`) -/
  | delItem (p : Nat) (nm : Str) (f : Fault)
  /-- `v.sort(key=lambda node: ranks[id], reverse=rev)` -/
  | sort (v : Nat) (ranks : List Nat) (rev : Bool)
  /-- `v.sep = value` (class `Node`) -/
  | setSep (v : Nat) (value : Str)
  deriving Repr, Inhabited

/-- `other.parent = self` where `other` may be an arbitrary object: attribute assignment on a
non-node raises, nothing happens -/
def assignParentOf (c : Cfg) (s : Store) (child : Nat) (p : Nat) (f : Fault) : Store × Outcome :=
  if child < s.n then setParent c s child (some p) f else (s, .rej)

/-- `for child in others: child.parent = self` — stops at the first exception -/
def extend (c : Cfg) (s : Store) (p : Nat) : List Nat → Fault → Nat → Store × Outcome
  | [], _, _ => (s, .ok)
  | x :: xs, f, k =>
    let r := assignParentOf c s x p (if k = 0 then f else .none)
    match r.2 with
    | .rej => r
    | .ok => extend c r.1 p xs (if k = 0 then .none else f) (k - 1)

/-- `find_child_by_name`: `find_children(..., max_count=1)`; more than one match raises `SearchError` -/
def findChildByName (s : Store) (p : Nat) (nm : Str) : Option (Option Nat) :=
  match (s.children p).filter fun c => s.name c == nm with
  | [] => some none
  | [c] => some (some c)
  | _ => none

/-- `del p[name]`: `child = find_child_by_name(self, name); if child: child.parent = None` -/
def delItem (c : Cfg) (s : Store) (p : Nat) (nm : Str) (f : Fault) : Store × Outcome :=
  match findChildByName s p nm with
  | none => (s, .rej)
  | some none => (s, .ok)
  | some (some ch) => setParent c s ch none f

/-- `children = list(self.children); children.sort(key=…, reverse=…); self.__children = children` -/
def sortChildren (s : Store) (v : Nat) (ranks : List Nat) (rev : Bool) : Store :=
  let key := fun i => ranks.getD i 0
  let l := s.children v
  s.setC v (if rev then (sortKey key l.reverse).reverse else sortKey key l)

/-- the `sep` property: `self._sep` at the root -/
def sep (s : Store) (v : Nat) : Str := s.sepOf (rootOf s s.n v)

/-- `self.root._sep = value` -/
def setSep (s : Store) (v : Nat) (value : Str) : Store :=
  let r := rootOf s s.n v
  { s with sepOf := fun y => if y = r then value else s.sepOf y }

/-- One call of the structural API.  The receiver of a method call is always a node; a call whose
receiver id is out of range is not a call and leaves the store alone (`rej`). -/
def step (c : Cfg) (s : Store) : Op → Store × Outcome
  | .setParent v np f => if v < s.n then setParent c s v np f else (s, .rej)
  | .setChildren v cs f => if v < s.n then setChildren c s v cs f else (s, .rej)
  | .setChildrenNonList _ _ => (s, .rej)   -- TypeError from the guard, or from `list(x)` without it
  | .delChildren v => if v < s.n then (delChildren s v, .ok) else (s, .rej)
  | .append p ch f => if p < s.n then assignParentOf c s ch p f else (s, .rej)
  | .extend p cs f k => if p < s.n then extend c s p cs f k else (s, .rej)
  | .rshift p ch f => if p < s.n then assignParentOf c s ch p f else (s, .rej)
  | .lshift ch p f => if ch < s.n then setParent c s ch p f else (s, .rej)
  | .delItem p nm f => if p < s.n then delItem c s p nm f else (s, .rej)
  | .sort v ranks rev => if v < s.n then (sortChildren s v ranks rev, .ok) else (s, .rej)
  | .setSep v value => if v < s.n then (setSep s v value, .ok) else (s, .rej)

/-- a history: the final store -/
def run (c : Cfg) (s : Store) (ops : List Op) : Store :=
  ops.foldl (fun st op => (step c st op).1) s

/-- a history with the trace of (outcome, store) after every call -/
def trace (c : Cfg) : Store → List Op → List (Outcome × Store)
  | _, [] => []
  | s, op :: ops => let r := step c s op; (r.2, r.1) :: trace c r.1 ops

end Store
