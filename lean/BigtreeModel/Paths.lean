import BigtreeModel.Basic
import BigtreeModel.Str
/-!
# Path-based constructors (bigtree/tree/construct.py)

`add_path_to_tree` and the constructors built on it, written the way the Python is written:
the tree is mutated *through node references*, here addresses (`Addr`) into the root tree; with
`duplicate_name_allowed=False` the lookup is `find_name` over the WHOLE tree followed by a
comparison of the found node's full path *string* (fix D3: equality, not `endswith`).

New nodes receive the ids `fresh, fresh+1, …` (Python: new objects); a missing child is created
as the LAST child of its parent, so the address of every pre-existing node is unchanged.
-/

namespace Paths

abbrev Addr := List Nat

/-- kinds of refusal: `TreeError`, `DuplicatedNodeError`, `ValueError`, anything else
    (`SearchError` from `find(..., max_count=1)`, …) -/
inductive Err where
  | tree | dup | value | other
  deriving DecidableEq, Repr, Inhabited

/-- the node at an address -/
def nodeAt : Addr → Tree → Option Tree
  | [], t => some t
  | k :: ks, t => match t.children[k]? with
    | some c => nodeAt ks c
    | none => none

/-- apply `f` to the node at an address (no-op on an invalid address) -/
def modifyAt (f : Tree → Tree) : Addr → Tree → Tree
  | [], t => f t
  | k :: ks, .node i n a cs => .node i n a (cs.modify k (modifyAt f ks))

/-- names from the root down to the node at the address (`node_path` names) -/
def namesAlong : Addr → Tree → List Str
  | [], t => [t.name]
  | k :: ks, t => t.name :: (match t.children[k]? with
    | some c => namesAlong ks c
    | none => [])

mutual
/-- name paths of all nodes, pre-order -/
def paths : Tree → List (List Str)
  | .node _ n _ cs => [n] :: (pathsL cs).map (n :: ·)
def pathsL : List Tree → List (List Str)
  | [] => []
  | c :: cs => paths c ++ pathsL cs
end

mutual
/-- addresses of the nodes called `name`, pre-order (`findall(root, node_name == name)`) -/
def findName (name : Str) : Tree → List Addr
  | .node _ n _ cs => (if n = name then [[]] else []) ++ findNameL name 0 cs
def findNameL (name : Str) (k : Nat) : List Tree → List Addr
  | [] => []
  | c :: cs => (findName name c).map (k :: ·) ++ findNameL name (k + 1) cs
end

mutual
/-- all names, pre-order -/
def names : Tree → List Str
  | .node _ n _ cs => n :: namesL cs
def namesL : List Tree → List Str
  | [] => []
  | c :: cs => names c ++ namesL cs
end

/-- indices (from `k`) of the trees called `name` (`find_children(parent, node_name == name)`) -/
def childIdxs (name : Str) : Nat → List Tree → List Nat
  | _, [] => []
  | k, c :: cs => if c.name = name then k :: childIdxs name (k + 1) cs else childIdxs name (k + 1) cs

def appendChild (new : Tree) : Tree → Tree
  | .node i n a cs => .node i n a (cs ++ [new])

open Str

/-- `Node.path_name`: `sep + sep.join(names)` with the TREE's separator -/
def pathName (treeSep : Str) (ad : Addr) (t : Tree) : Str := treeSep ++ join treeSep (namesAlong ad t)

/-- `d[k] = v` on an insertion-ordered dict -/
def setKey (k : Str) (v : Val) : Attrs → Attrs
  | [] => [(k, v)]
  | (k', v') :: r => if k' = k then (k, v) :: r else (k', v') :: setKey k v r

/-- `old.update(new)` -/
def updateAttrs (old new : Attrs) : Attrs := new.foldl (fun acc kv => setKey kv.1 kv.2 acc) old

/-- `node.set_attrs(attrs)` -/
def setAttrs (a : Attrs) : Tree → Tree
  | .node i n old cs => .node i n (updateAttrs old a) cs

/-- the lookup inside the loop of `add_path_to_tree`; `pre'` is `branch[:idx+1]` -/
def lookup (treeSep : Str) (dupOk : Bool) (t : Tree) (paddr : Addr) (pre' : List Str) (c : Str) :
    Except Err (Option Addr) :=
  if dupOk then
    -- search.find_child_by_name(parent_node, node_name)
    match nodeAt paddr t with
    | none => .error .other
    | some p =>
      match childIdxs c 0 p.children with
      | [] => .ok none
      | [k] => .ok (some (paddr ++ [k]))
      | _ => .error .other
  else
    -- search.find_name(root_node, node_name), then the D3 check on the full path string
    match findName c t with
    | [] => .ok none
    | [ad] =>
      if pathName treeSep ad t ≠ treeSep ++ join treeSep pre' then .error .dup else .ok (some ad)
    | _ => .error .other

/-- the `for idx in range(1, len(branch))` loop. `pre` = `branch[:idx]`, `paddr` = `parent_node`.
    Returns the tree, the address of `node` after the loop, and the next fresh id. -/
def insertLoop (treeSep : Str) (dupOk : Bool) (attrs : Attrs) :
    List Str → List Str → Tree → Addr → Nat → Except Err (Tree × Addr × Nat)
  | [], _, t, paddr, fresh => .ok (t, paddr, fresh)
  | c :: rest, pre, t, paddr, fresh =>
    match lookup treeSep dupOk t paddr (pre ++ [c]) c with
    | .error e => .error e
    | .ok (some ad) => insertLoop treeSep dupOk attrs rest (pre ++ [c]) t ad fresh
    | .ok none =>
      -- `node_type(node_name[, **node_attrs])` refuses an empty name; then `node.parent = parent_node`
      if c = [] then .error .tree
      else
        let new := Tree.node fresh c (if rest.isEmpty then attrs else []) []
        let k := ((nodeAt paddr t).map (·.children.length)).getD 0
        insertLoop treeSep dupOk attrs rest (pre ++ [c]) (modifyAt (appendChild new) paddr t)
          (paddr ++ [k]) (fresh + 1)

/-- `add_path_to_tree(tree, path, sep, duplicate_name_allowed, node_attrs)` on the root `t` whose
    separator is `treeSep`. Result: new tree, address of the returned node, next fresh id. -/
def addPath (treeSep sep : Str) (dupOk : Bool) (t : Tree) (fresh : Nat) (path : Str) (attrs : Attrs) :
    Except Err (Tree × Addr × Nat) :=
  if path = [] then .error .value
  else
    match split sep (strip sep path) with
    | [] => .error .other
    | b0 :: rest =>
      if b0 ≠ t.name then .error .tree
      else
        match insertLoop treeSep dupOk attrs rest [b0] t [] fresh with
        | .error e => .error e
        | .ok (t', ad, fresh') => .ok (modifyAt (setAttrs attrs) ad t', ad, fresh')

/-- the same on components (what the theorems are stated about): `branch = b0 :: rest` -/
def addComps (treeSep : Str) (dupOk : Bool) (t : Tree) (fresh : Nat) (branch : List Str) (attrs : Attrs) :
    Except Err (Tree × Addr × Nat) :=
  match branch with
  | [] => .error .other
  | b0 :: rest =>
    if b0 ≠ t.name then .error .tree
    else
      match insertLoop treeSep dupOk attrs rest [b0] t [] fresh with
      | .error e => .error e
      | .ok (t', ad, fresh') => .ok (modifyAt (setAttrs attrs) ad t', ad, fresh')

/-- fold of `add_path_to_tree` over (path, attrs) pairs (the `for` loops of every constructor) -/
def addMany (treeSep sep : Str) (dupOk : Bool) : List (Str × Attrs) → Tree → Nat → Except Err (Tree × Nat)
  | [], t, fresh => .ok (t, fresh)
  | (p, a) :: rest, t, fresh =>
    match addPath treeSep sep dupOk t fresh p a with
    | .error e => .error e
    | .ok (t', _, fresh') => addMany treeSep sep dupOk rest t' fresh'

/-- `list(OrderedDict.fromkeys(xs))` -/
def dedup : List Str → List Str
  | [] => []
  | x :: xs => x :: (dedup xs).filter (· ≠ x)

/-- `list_to_tree(paths, sep, duplicate_name_allowed)` -/
def listToTree (sep : Str) (dupOk : Bool) (ps : List Str) : Except Err Tree :=
  match dedup ps with
  | [] => .error .value
  | p0 :: prest =>
    -- root_name = paths[0].lstrip(sep).split(sep)[0]     (no rstrip here)
    let rootName := (split sep (lstrip sep p0)).headD []
    if rootName = [] then .error .tree      -- Node("") refused
    else
      match addMany sep sep dupOk ((p0 :: prest).map fun p => (p, [])) (.node 0 rootName [] []) 1 with
      | .error e => .error e
      | .ok (t, _) => .ok t

/-- `filter_attributes(attrs, omit_keys=["name"], omit_null_values=False)` -/
def dropName (a : Attrs) : Attrs := a.filter fun kv => kv.1 ≠ "name".toList

/-- `filter_attributes(row, omit_keys=["name", path_col], omit_null_values=True)` -/
def filterRow (a : Attrs) : Attrs := a.filter fun kv => kv.2 ≠ .null && kv.1 ≠ "name".toList

/-- `d.get(k, {})` -/
def dictGet (d : List (Str × Attrs)) (k : Str) : Attrs :=
  match d.find? (fun e => e.1 = k) with
  | some e => e.2
  | none => []

/-- `a or b` on dicts -/
def orElse (a b : Attrs) : Attrs := if a.isEmpty then b else a

/-- `dict_to_tree(path_attrs, sep, duplicate_name_allowed)` -/
def dictToTree (sep : Str) (dupOk : Bool) (d : List (Str × Attrs)) : Except Err Tree :=
  match d with
  | [] => .error .value
  | (k0, _) :: _ =>
    let rootName := (split sep (strip sep k0)).headD []
    -- the root's attributes are looked up under the four spellings, first non-empty wins
    let rootAttrs := orElse (dictGet d rootName) (orElse (dictGet d (sep ++ rootName))
      (orElse (dictGet d (rootName ++ sep)) (dictGet d (sep ++ rootName ++ sep))))
    if rootName = [] then .error .tree
    else
      match addMany sep sep dupOk (d.map fun e => (e.1, dropName e.2))
          (.node 0 rootName (dropName rootAttrs) []) 1 with
      | .error e => .error e
      | .ok (t, _) => .ok t

/-- A DataFrame: one (path, attribute cells) pair per row; every row has the same keys in the
    same order; a missing cell is `Val.null`. -/
abbrev Row := Str × Attrs

/-- `assert_dataframe_no_duplicate_attribute`: some path occurs with two different cell tuples -/
def dupAttr (rows : List Row) : Bool :=
  rows.any fun r => rows.any fun r' => r.1 = r'.1 && r.2 ≠ r'.2

/-- `dataframe_to_tree` / `polars_to_tree`. `root.sep = sep` is set right after the root is created (repair D11;
    before it, the loop ran under the default separator `/`), so the tree separator inside the loop is `sep`. -/
def rowsToTree (sep : Str) (dupOk : Bool) (rows : List Row) : Except Err Tree :=
  let rows := rows.map fun r => (strip sep r.1, r.2)
  match rows with
  | [] => .error .value
  | (p0, _) :: _ =>
    if dupAttr rows then .error .value
    else
      let rootName := (split sep p0).headD []
      let rootAttrs := match rows.find? (fun r => r.1 = rootName) with
        | some r => filterRow r.2
        | none => []
      if rootName = [] then .error .tree
      else
        match addMany sep sep dupOk (rows.map fun r => (r.1, filterRow r.2))
            (.node 0 rootName rootAttrs []) 1 with
        | .error e => .error e
        | .ok (t, _) => .ok t

/-- `add_dict_to_tree_by_path` (no attribute filtering here) -/
def addDict (treeSep sep : Str) (dupOk : Bool) (t : Tree) (fresh : Nat) (d : List (Str × Attrs)) :
    Except Err Tree :=
  match d with
  | [] => .error .value
  | _ =>
    match addMany treeSep sep dupOk d t fresh with
    | .error e => .error e
    | .ok (t', _) => .ok t'

/-- `add_dataframe_to_tree_by_path` / `add_polars_to_tree_by_path` -/
def addRows (treeSep sep : Str) (dupOk : Bool) (t : Tree) (fresh : Nat) (rows : List Row) :
    Except Err Tree :=
  let rows := rows.map fun r => (strip sep r.1, r.2)
  match rows with
  | [] => .error .value
  | _ =>
    if dupAttr rows then .error .value
    else
      match addMany treeSep sep dupOk (rows.map fun r => (r.1, filterRow r.2)) t fresh with
      | .error e => .error e
      | .ok (t', _) => .ok t'

end Paths
