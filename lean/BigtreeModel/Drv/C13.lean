import BigtreeModel.Proto
import BigtreeModel.Relation
/-! Driver handler for property C13 (relation, nested-dict and heap-list constructors).

* `fn=rel dupok=<0|1> [lib=…] (R <xchild> <xparent|-> <attrs>)*`
* `fn=nested (E | N <ndict>)` with `<ndict> = ( <xname> <attrs> <ndict>* )`
* `fn=heap xs=<int,int,…|e>`

Answers: `ok <tree>` with `<tree> = ( <xname> <attrs sorted by key> <tree>* )`, for the heap
`( <xname> <left> <right> )` with `_` for an empty slot; `rej:ValueError`; `rej`. -/
namespace Drv.C13
open Proto Paths

def showAttrsSorted (a : Attrs) : String :=
  if a.isEmpty then "-" else
  let kvs := a.map fun (k, v) => (hex k, showVal v)
  let kvs := kvs.mergeSort (fun x y => !(y.1 < x.1))
  ",".intercalate (kvs.map fun (k, v) => k ++ ":" ++ v)

partial def showRes : Tree → String
  | .node _ n a cs =>
    "( " ++ hex n ++ " " ++ showAttrsSorted a ++ " " ++ String.join (cs.map fun c => showRes c ++ " ") ++ ")"

def showB : BTree → String
  | .nil => "_"
  | .node _ n _ l r => "( " ++ hex n ++ " " ++ showB l ++ " " ++ showB r ++ " )"

def showErr : Err → String
  | .value => "rej:ValueError"
  | _ => "rej"

def parseRows : List String → Option (List Rel.Row)
  | "R" :: c :: p :: a :: rest => do
    let child ← unhex c
    let parent ← if p == "-" then some none else (unhex p).map some
    let attrs ← parseAttrs a
    let more ← parseRows rest
    pure ({ child := child, parent := parent, attrs := attrs } :: more)
  | [] => some []
  | _ :: rest => parseRows rest

mutual
partial def parseND : List String → Option (NDict × List String)
  | "(" :: n :: a :: rest => do
    let name ← unhex n
    let attrs ← parseAttrs a
    let (cs, rest') ← parseNDs rest
    pure (.mk name attrs cs, rest')
  | _ => none
partial def parseNDs : List String → Option (List NDict × List String)
  | ")" :: rest => some ([], rest)
  | toks => do
    let (t, rest) ← parseND toks
    let (ts, rest') ← parseNDs rest
    pure (t :: ts, rest')
end

def parseInts (s : String) : Option (List Int) :=
  if s == "e" then some [] else (s.splitOn ",").mapM String.toInt?

def handle (toks : List String) : String :=
  let r : Option String := do
    let fn ← kv toks "fn"
    match fn with
    | "rel" =>
      let dupok ← match ← kv toks "dupok" with
        | "1" => some true
        | "0" => some false
        | _ => none
      let rows ← parseRows toks
      pure (match Rel.relToTree dupok rows with
        | .ok t => "ok " ++ showRes t
        | .error e => showErr e)
    | "nested" =>
      let d ← if toks.contains "E" then some none
        else (parseND ((toks.dropWhile (· ≠ "N")).drop 1)).map fun p => some p.1
      pure (match NDict.nestedToTree d with
        | .ok t => "ok " ++ showRes t
        | .error e => showErr e)
    | "heap" =>
      let xs ← parseInts (← kv toks "xs")
      pure (match Heap.listToBinary xs with
        | .ok b => "ok " ++ showB b
        | .error e => showErr e)
    | _ => none
  r.getD "bad-op"

end Drv.C13
