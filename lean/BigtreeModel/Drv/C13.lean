import BigtreeModel.Proto
/-! Driver handler for property C13: one case (token list) in, one canonical line out. -/
namespace Drv.C13
def handle (_toks : List String) : String := "unimplemented"
end Drv.C13
