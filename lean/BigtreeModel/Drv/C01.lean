import BigtreeModel.Proto
/-! Driver handler for property C01: one case (token list) in, one canonical line out. -/
namespace Drv.C01
def handle (_toks : List String) : String := "unimplemented"
end Drv.C01
