import BigtreeModel.Proto
import BigtreeModel.Store
import BigtreeModel.Bridge
/-! Driver handler for property C01 (also the parser/printer used by C02, C03, C20).

One line = one whole history:
`cls=<base|node> n=<k> asrt=<0|1> names=<xhex,…|-> sep=<xhex> ops= <op> <op> …`

Op tokens (ids are decimal; an id `≥ n` stands for an object that is not a node; `-` = `None` /
the empty list; `<f>` ∈ `none|pre|post` is the user hook that raises):
`P:v:np:f` (`v.parent = np`) · `C:v:list:f` (`v.children = [...]`) · `K:v:f` (`v.children = 5`) ·
`D:v` (`del v.children`) · `A:p:c:f` (`p.append(c)`) · `E:p:list:f:k` (`p.extend([...])`, fault at
element `k`) · `R:p:c:f` (`p >> c`) · `L:c:p:f` (`c << p`) · `X:p:xname:f` (`del p[name]`) ·
`S:v:ranks:rev` (`v.sort(key=ranks[id], reverse=rev)`) · `Z:v:xsep` (`v.sep = value`).

Output: for each op `<ok|rej> <store>` joined by ` ; `, store = `i>parent[children]` per node; with the
leading token `rb=1` each step is followed by ` | ` and the read-back trees `( id xname - child* )`. -/
namespace Drv.C01
open Proto

def parseFault : String → Option Fault
  | "none" => some .none
  | "pre" => some .pre
  | "post" => some .post
  | _ => none

def parseOptNat (s : String) : Option (Option Nat) :=
  if s == "-" then some none else s.toNat?.map some

def parseBool01 : String → Option Bool
  | "0" => some false
  | "1" => some true
  | _ => none

def parseOp (tok : String) : Option Store.Op :=
  match tok.splitOn ":" with
  | ["P", v, np, f] => do pure (.setParent (← v.toNat?) (← parseOptNat np) (← parseFault f))
  | ["C", v, l, f] => do pure (.setChildren (← v.toNat?) (← parseNats l) (← parseFault f))
  | ["K", v, f] => do pure (.setChildrenNonList (← v.toNat?) (← parseFault f))
  | ["D", v] => do pure (.delChildren (← v.toNat?))
  | ["A", p, c, f] => do pure (.append (← p.toNat?) (← c.toNat?) (← parseFault f))
  | ["E", p, l, f, k] => do pure (.extend (← p.toNat?) (← parseNats l) (← parseFault f) (← k.toNat?))
  | ["R", p, c, f] => do pure (.rshift (← p.toNat?) (← c.toNat?) (← parseFault f))
  | ["L", c, p, f] => do pure (.lshift (← c.toNat?) (← parseOptNat p) (← parseFault f))
  | ["X", p, nm, f] => do pure (.delItem (← p.toNat?) (← unhex nm) (← parseFault f))
  | ["S", v, r, rev] => do pure (.sort (← v.toNat?) (← parseNats r) (← parseBool01 rev))
  | ["Z", v, sp] => do pure (.setSep (← v.toNat?) (← unhex sp))
  | _ => none

/-- receiver of the call (must be a node) -/
def receiver : Store.Op → Nat
  | .setParent v _ _ | .setChildren v _ _ | .setChildrenNonList v _ | .delChildren v
  | .append v _ _ | .extend v _ _ _ | .rshift v _ _ | .lshift v _ _ | .delItem v _ _
  | .sort v _ _ | .setSep v _ => v

def nodeOnly : Store.Op → Bool
  | .delItem .. | .setSep .. => true
  | _ => false

structure Case where
  cfg : Cfg
  init : Store
  ops : List Store.Op

def parseCase (toks : List String) : Option Case := do
  let cls ← kv toks "cls"
  let node ← (if cls == "node" then some true else if cls == "base" then some false else none)
  let n ← (← kv toks "n").toNat?
  let asrt ← parseBool01 (← kv toks "asrt")
  let namesTok ← kv toks "names"
  let names ← (if namesTok == "-" then some [] else (namesTok.splitOn ",").mapM unhex)
  let sep ← unhex (← kv toks "sep")
  if node && (names.length != n || sep.isEmpty || names.any (·.isEmpty)) then none
  let opToks := (toks.dropWhile (· ≠ "ops=")).drop 1
  if !toks.contains "ops=" then none
  let ops ← opToks.mapM parseOp
  if ops.any (fun o => receiver o ≥ n || (!node && nodeOnly o)) then none
  pure { cfg := { assertions := asrt, node := node },
         init := Store.init n (fun i => names.getD i []) sep, ops := ops }

def showOutcome : Outcome → String
  | .ok => "ok"
  | .rej => "rej"

def showStore (s : Store) : String :=
  " ".intercalate ((List.range s.n).map fun i =>
    toString i ++ ">" ++ showOptNat (s.parent i) ++ "[" ++ ",".intercalate ((s.children i).map toString) ++ "]")

def showTrace (tr : List (Outcome × Store)) : String :=
  " ; ".intercalate (tr.map fun (o, s) => showOutcome o ++ " " ++ showStore s)

/-- the read-back of every tree of the store (`Store.forest`, roots in id order), for the bridge tie -/
def showForest (s : Store) : String := " ".intercalate ((Store.forest s).map showTree)

def showTraceRb (tr : List (Outcome × Store)) : String :=
  " ; ".intercalate (tr.map fun (o, s) => showOutcome o ++ " " ++ showStore s ++ " | " ++ showForest s)

/-- with the token `rb=1` every step also prints the read-back forest (`harness/props/_bridge_util.py`) -/
def handle (toks : List String) : String :=
  match parseCase toks with
  | none => "bad-op"
  | some c =>
    let tr := Store.trace c.cfg c.init c.ops
    if kv toks "rb" == some "1" then showTraceRb tr else showTrace tr

end Drv.C01
