import BigtreeModel.Proto
/-! Driver handler for property C06: one case (token list) in, one canonical line out. -/
namespace Drv.C06
def handle (_toks : List String) : String := "unimplemented"
end Drv.C06
