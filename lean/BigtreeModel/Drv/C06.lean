import BigtreeModel.Proto
import BigtreeModel.Export
import BigtreeModel.Newick
/-! Driver handler for property C06 (exports and their constructors).

`fmt=<dict|rows|nested|newick|print> op=<exp|rt|parse> <options> start=<pre-order index> T <tree>`

* `exp`   → the exported object, canonical (dict: `xpath>record …`; rows: `cols=… rows=…`;
            nested: `( record child* )`; newick: `x<hex of the string>`);
* `rt`    → the tree rebuilt by the matching constructor from that export: `( xname attrs child* )`
            with attributes sorted by key, or `rej`;
* `parse` → `newick_to_tree` on the literal string `s=`.
`fmt=print op=rt`: the printed-tree round trip is owned by C18's model; here the model side is the
specification itself (the tree, names only).
Options: `sep pc nk pk` (hex strings), `ad=xk:xcol,…|-`, `all md sd lo`, Newick: `inn la ls al ap as`. -/
namespace Drv.C06
open Proto Export

def showRec (r : Rec) : String := showAttrs r

def showDict (d : List (Str × Rec)) : String :=
  if d.isEmpty then "empty" else " ".intercalate (d.map fun pr => hex pr.1 ++ ">" ++ showRec pr.2)

def showStrs (l : List Str) : String := if l.isEmpty then "-" else ",".intercalate (l.map hex)

def showFrame (f : List Str × List Rec) : String :=
  "cols=" ++ showStrs f.1 ++ " rows=" ++
    (if f.2.isEmpty then "-" else ";".intercalate (f.2.map fun r => ",".intercalate (r.map fun kv => showVal kv.2)))

partial def showNested : Nested → String
  | .mk f ks => "( " ++ showRec f ++ " " ++ String.join (ks.map fun k => showNested k ++ " ") ++ ")"

/-- rebuilt tree: names, attributes sorted by key (as `describe` lists them), children in order -/
partial def showBuilt : Tree → String
  | .node _ n a cs =>
    "( " ++ hex n ++ " " ++ showAttrs (describe a) ++ " " ++ String.join (cs.map fun c => showBuilt c ++ " ") ++ ")"

partial def showNames : Tree → String
  | .node _ n _ cs => "( " ++ hex n ++ " - " ++ String.join (cs.map fun c => showNames c ++ " ") ++ ")"

def showOptTree : Option Tree → String
  | none => "rej"
  | some t => showBuilt t

def parseBool (s : String) : Option Bool :=
  if s == "1" then some true else if s == "0" then some false else none

def parseAttrDict (tok : String) : Option (List (Str × Str)) :=
  if tok == "-" then some [] else
  (tok.splitOn ",").mapM (fun kv =>
    match kv.splitOn ":" with
    | [k, v] => do pure ((← unhex k), (← unhex v))
    | _ => none)

def parseStrs (tok : String) : Option (List Str) :=
  if tok == "-" then some [] else (tok.splitOn ",").mapM unhex

def hexOpt (toks : List String) (key : String) (dflt : Str) : Option Str :=
  match kv toks key with
  | none => some dflt
  | some v => unhex v

def natOpt (toks : List String) (key : String) : Option Nat :=
  match kv toks key with
  | none => some 0
  | some v => v.toNat?

def boolOpt (toks : List String) (key : String) (dflt : Bool) : Option Bool :=
  match kv toks key with
  | none => some dflt
  | some v => parseBool v

def splitAtTok (toks : List String) (t : String) : List String × List String :=
  (toks.takeWhile (· ≠ t), (toks.dropWhile (· ≠ t)).drop 1)

def handle (toks : List String) : String :=
  let r : Option String := do
    let (head, rest) := splitAtTok toks "T"
    let fmt ← kv head "fmt"
    let op ← kv head "op"
    if fmt == "newick" && op == "parse" then
      let s ← unhex (← kv head "s")
      let la ← hexOpt head "la" "length".toList
      let ap ← hexOpt head "ap" "&&NHX:".toList
      pure (showOptTree (Newick.parse Newick.chars la ap s))
    else
    let (root, _) ← parseTree rest
    let start ← (← kv head "start").toNat?
    let (anc, t) ← (preCtx [] root)[start]?
    let sepS ← hexOpt head "sep" ['/']
    let sep ← match sepS with | [ch] => some ch | _ => none
    if fmt == "print" then
      if op == "rt" then pure (showNames t) else none
    else if fmt == "newick" then
      let o : Newick.WOpts := {
        interName := ← boolOpt head "inn" true
        lengthAttr := ← hexOpt head "la" []
        lengthSep := ← hexOpt head "ls" [':']
        attrList := ← (match kv head "al" with | none => some [] | some v => parseStrs v)
        attrPrefix := ← hexOpt head "ap" "&&NHX:".toList
        attrSep := ← hexOpt head "as" [':'] }
      let w := Newick.write Newick.chars o (start == 0) t
      if op == "exp" then
        pure (match w with | none => "rej" | some s => hex s)
      else if op == "rt" then
        let la := if o.lengthAttr = [] then "length".toList else o.lengthAttr
        pure (showOptTree (w.bind (Newick.parse Newick.chars la o.attrPrefix)))
      else none
    else
      let o : Opts := {
        pathCol := ← hexOpt head "pc" []
        nameKey := ← hexOpt head "nk" []
        parentKey := ← hexOpt head "pk" []
        attrDict := ← (match kv head "ad" with | none => some [] | some v => parseAttrDict v)
        allAttrs := ← boolOpt head "all" false
        maxDepth := ← natOpt head "md"
        skipDepth := ← natOpt head "sd"
        leafOnly := ← boolOpt head "lo" false }
      match fmt, op with
      | "dict", "exp" => pure (showDict (treeToDict o sep anc t))
      | "dict", "rt" => pure (showOptTree (dictToTree sep (treeToDict o sep anc t)))
      | "rows", "exp" =>
        let lib ← kv head "lib"
        let mk := if lib == "polars" then polarsFrame else frame
        pure (showFrame (mk (treeToRows o sep anc t)))
      | "rows", "rt" =>
        let lib ← kv head "lib"
        let mk := if lib == "polars" then polarsFrame else frame
        pure (showOptTree (rowsToTree sep (mk (treeToRows o sep anc t))))
      | "nested", "exp" => pure (match treeToNested o anc t with | none => "rej" | some x => showNested x)
      | "nested", "rt" => pure (showOptTree ((treeToNested o anc t).bind (nestedToTree o.nameKey)))
      | _, _ => none
  r.getD "bad-op"
end Drv.C06
