import BigtreeModel.Proto
/-! Driver handler for property C11: one case (token list) in, one canonical line out. -/
namespace Drv.C11
def handle (_toks : List String) : String := "unimplemented"
end Drv.C11
