import BigtreeModel.Proto
import BigtreeModel.BinStore
import BigtreeModel.BinBridge
import BigtreeModel.Iter
import BigtreeModel.Query
/-! Driver handler for property C11 (also used for the BinaryNode part of C02 and C20).

One line = one whole history on `n` fresh `BinaryNode`s:

`cls=binary n=<k> asrt=<0|1> ops= <op> <op> …`

op tokens (`<arg>` is `-` for `None`, an id `< n` for that node, an id `≥ n` for an object that is
not a BinaryNode; `<fault>` ∈ `none|pre|post` says where the user hook raises):

* `P:<v>:<arg>:<fault>`        `v.parent = arg`
* `C:<v>:<list>:<fault>`       `v.children = list`; `<list>` = `e` (the empty list), `X` (not a
                               list at all) or `<arg>,<arg>,…` (any length ≥ 1)
* `T:<v>:<list>:<fault>`       the same with a *tuple* on the right-hand side (`e` = `()`); the
                               setter copies its argument into a fresh list, so the model is the same
* `L:<v>:<arg>:<fault>` / `R:<v>:<arg>:<fault>`   `v.left = arg` / `v.right = arg`
* `D:<v>`                      `del v.children`        (no hook is called: no fault field)
* `S:<v>:<k|s>`                `v.sort(key=…)` with a key that keeps / swaps two children

Output: for each op `<ok|rej> <node> <node> …` with `<node>` = `<id>:<parent>:<len(children)>:<left>:<right>`
(`-` = `None`, `!` = `IndexError`), ops joined by ` ; `; `-` for the empty history.
`bad-op`: unparsable line, a subject that is not a node, or (with `asrt=0`) an argument that is not
a node — Python then dies half-way with `AttributeError`, outside the model's domain.

Optional key `inorder=<v>` (tie of the bridge `BinStore.btreeOf`, `BigtreeProofs/Properties/BinBridge.lean`):
after the history, ` ; inorder <ids> leaf <bits>` is appended — `inorder_iter` (`Iter.inorderImpl`, no filter, no
depth limit) on the read-back of node `v` of the final store, and `is_leaf` (`Query.isLeafB`) of the read-back of
every node (`1`/`0`, id order). -/
namespace Drv.C11
open Proto BinStore

def parseFault : String → Option Fault
  | "none" => some .none
  | "pre" => some .pre
  | "post" => some .post
  | _ => none

def parseArg (s : String) : Option (Option Nat) :=
  if s == "-" then some none else s.toNat?.map some

def parseList (s : String) : Option (Option (List (Option Nat))) :=
  if s == "X" then some none
  else if s == "e" then some (some [])
  else ((s.splitOn ",").mapM parseArg).map some

def parseOp (tok : String) : Option Op :=
  match tok.splitOn ":" with
  | ["P", v, a, f] => do pure (.parent (← v.toNat?) (← parseArg a) (← parseFault f))
  | ["C", v, l, f] => do pure (.children (← v.toNat?) (← parseList l) (← parseFault f))
  | ["T", v, l, f] => do
    let l ← parseList l
    if l.isNone then none else pure (.children (← v.toNat?) l (← parseFault f))
  | ["L", v, a, f] => do pure (.left (← v.toNat?) (← parseArg a) (← parseFault f))
  | ["R", v, a, f] => do pure (.right (← v.toNat?) (← parseArg a) (← parseFault f))
  | ["D", v] => do pure (.del (← v.toNat?))
  | ["S", v, "k"] => do pure (.sort (← v.toNat?) false)
  | ["S", v, "s"] => do pure (.sort (← v.toNat?) true)
  | _ => none

/-- arguments of an op (for the domain check) -/
def opArgs : Op → List (Option Nat)
  | .parent _ np _ => [np]
  | .children _ (some l) _ => l
  | .children _ none _ => []
  | .left _ x _ | .right _ x _ => [x]
  | .del _ | .sort _ _ => []

def inDomain (n : Nat) (asrt : Bool) (op : Op) : Bool :=
  decide (op.subject < n) &&
    (asrt || (opArgs op).all fun a => match a with | none => true | some k => decide (k < n))

def showSlot : Option (Option Nat) → String
  | none => "!"
  | some none => "-"
  | some (some k) => toString k

def showNode (s : Store) (i : Nat) : String :=
  ":".intercalate [toString i, showOptNat (s.parent i), toString (s.slots i).length,
    showSlot (slotAt? s i 0), showSlot (slotAt? s i 1)]

def showStore (s : Store) : String :=
  " ".intercalate ((List.range s.n).map (showNode s))

def showOutcome : Outcome → String
  | .ok => "ok"
  | .rej => "rej"

def showTrace (t : List (Store × Outcome)) : String :=
  if t.isEmpty then "-" else
  " ; ".intercalate (t.map fun r => showOutcome r.2 ++ " " ++ showStore r.1)

/-- parse `cls=binary n= asrt= ops= …` into (n, assertions, ops) -/
def parseLine (toks : List String) : Option (Nat × Bool × List Op) := do
  let cls ← kv toks "cls"
  if cls != "binary" then none
  let n ← (← kv toks "n").toNat?
  let asrt ← match ← kv toks "asrt" with
    | "1" => some true
    | "0" => some false
    | _ => none
  if !toks.contains "ops=" then none
  let opToks := (toks.dropWhile (· ≠ "ops=")).drop 1
  let ops ← opToks.mapM parseOp
  if ops.all (inDomain n asrt) then pure (n, asrt, ops) else none

/-- what the read-only functions see on the final store (read back through `btreeOf`) -/
def showBridge (s : Store) (v : Nat) : String :=
  "inorder " ++ showNats (Iter.inorderImpl (fun _ => true) 0 1 (btreeOf s (fun _ => []) s.n v)) ++
  " leaf " ++ String.join ((List.range s.n).map fun i =>
    if Query.isLeafB (btreeOf s (fun _ => []) s.n i) then "1" else "0")

def handle (toks : List String) : String :=
  match parseLine toks with
  | none => "bad-op"
  | some (n, asrt, ops) =>
    match kv toks "inorder" with
    | none => showTrace (trace asrt (init n) ops)
    | some t =>
      match t.toNat? with
      | some v =>
        if v < n then
          (if ops.isEmpty then "" else showTrace (trace asrt (init n) ops) ++ " ; ") ++
            showBridge (run asrt (init n) ops) v
        else "bad-op"
      | none => "bad-op"

end Drv.C11
