import BigtreeModel.Proto
import BigtreeModel.DagStore
import BigtreeModel.DagBridge
import BigtreeModel.DagCopy
/-! Driver handler for property C10 (also used for the DAGNode class of C02 / C20).

One line = one whole history:
`cls=dag n=<k> asrt=<0|1> names=<xhex,…|-> ops= <op> <op> …`

ops (`<f>` ∈ `none|pre|post`; `<m>` = node id or `j<k>` for the k-th non-node object;
`<arg>` = `L<m,m,…>` list, `T<m,…>` tuple, `N` non-iterable; empty member list = `-`):
* `P:<v>:<arg>:<f>`   `v.parents = arg`         * `C:<v>:<arg>:<f>`   `v.children = arg`
* `R:<v>:<m>:<f>`     `v >> m`                  * `S:<v>:<m>:<f>`     `v << m`
* `D:<v>`             `del v.children`          * `X:<v>:<xname>`     `del v[name]`
* `N:<xname>:<arg>:<arg>:<fp>:<fc>`  `DAGNode(name, parents=…, children=…)` (gets the next id)
* `M:<k>`  the harness mutates its own (caller-side) list object number k between two calls; no DAGNode
  API is called, so the store does not change (`ok` + the same dump). A list object passed to several
  calls is written `H<k>=<m,m,…>` (k = which object, then the content the caller last gave it): the model
  reads it as the list `L<m,m,…>` — it sees equal lists, never shared ones.

Output: for each op `<ok|rej> <i>:<parents>/<children> …` (every node, ids ascending, lists in
store order), ops joined by ` ; `.

Optional header key `copy=<v>` (tie of `DagStore.deepCopy`, `BigtreeProofs/Properties/C07Dag.lean`): after the history
(and the `iter` part) ` ; copy <i+n>:<parents>/<children> …` is appended for every node `i` of the final store — the cells
of the duplicates in `deepCopy s`.

Optional header key `iter=<v>` (tie of the bridge `DagStore.toDag`, `BigtreeProofs/Properties/DagBridge.lean`):
after the history, ` ; iter <p>><c>,<p>><c>,…` is appended — `Dag.dagIter (toDag s) v` on the final store
`s`, in the order yielded (`-` when nothing is yielded); `v` must be a node of the final store. -/
namespace Drv.C10
open Proto DagStore

/-- ids from here on stand for non-node objects -/
def junkBase : Nat := 1000000

def parseMember (t : String) : Option Nat :=
  match t.toList with
  | 'j' :: r => (String.ofList r).toNat?.map (junkBase + ·)
  | _ => match t.toNat? with
    | some i => if i < junkBase then some i else none
    | none => none

def parseMembers (t : String) : Option (List Nat) :=
  if t == "-" then some [] else (t.splitOn ",").mapM parseMember

def parseArg (t : String) : Option Arg :=
  match t.toList with
  | ['N'] => some .nonIter
  | 'L' :: r => (parseMembers (String.ofList r)).map .list
  | 'T' :: r => (parseMembers (String.ofList r)).map .tuple
  | 'G' :: r => (parseMembers (String.ofList r)).map .tuple   -- a one-shot iterator: iterable, not a list
  | 'H' :: r =>          -- `H<k>=<members>`: caller-side list object k; to the model it is just a list
    match (String.ofList r).splitOn "=" with
    | [k, ms] => if k.toNat?.isSome then (parseMembers ms).map .list else none
    | _ => none
  | _ => none

def parseFault (t : String) : Option Fault :=
  match t with
  | "none" => some .none
  | "pre" => some .pre
  | "post" => some .post
  | _ => none

def parseOp (t : String) : Option Op :=
  match t.splitOn ":" with
  | ["P", v, a, f] => do pure (.setParents (← v.toNat?) (← parseArg a) (← parseFault f))
  | ["C", v, a, f] => do pure (.setChildren (← v.toNat?) (← parseArg a) (← parseFault f))
  | ["R", v, o, f] => do pure (.rshift (← v.toNat?) (← parseMember o) (← parseFault f))
  | ["S", v, o, f] => do pure (.lshift (← v.toNat?) (← parseMember o) (← parseFault f))
  | ["D", v] => do pure (.delChildren (← v.toNat?))
  | ["X", v, nm] => do pure (.delItem (← v.toNat?) (← unhex nm))
  | ["N", nm, ps, cs, fp, fc] => do
    pure (.construct (← unhex nm) (← parseArg ps) (← parseArg cs) (← parseFault fp) (← parseFault fc))
  | _ => none

def memberOk (s : DStore) (m : Nat) : Bool := m < s.n || junkBase ≤ m

def argOk (s : DStore) : Arg → Bool
  | .nonIter => true
  | .tuple l => l.all (memberOk s)
  | .list l => l.all (memberOk s)

/-- the receiver of every call must be an existing node; a member is an existing node or a `j` object -/
def receiverOk (s : DStore) : Op → Bool
  | .setParents v a _ | .setChildren v a _ => v < s.n && argOk s a
  | .rshift v o _ | .lshift v o _ => v < s.n && memberOk s o
  | .delChildren v | .delItem v _ => v < s.n
  | .construct _ ps cs _ _ => argOk s ps && argOk s cs

def showMember (i : Nat) : String := if i < junkBase then toString i else "j" ++ toString (i - junkBase)
def showMembers (l : List Nat) : String := if l.isEmpty then "-" else ",".intercalate (l.map showMember)

def dump (s : DStore) : String :=
  " ".intercalate ((List.range s.n).map fun i =>
    toString i ++ ":" ++ showMembers (s.parents i) ++ "/" ++ showMembers (s.children i))

def showOutcome : Outcome → String
  | .ok => "ok"
  | .rej => "rej"

/-- a protocol step: a modelled operation, or a caller-side event that calls nothing -/
inductive Tok where
  | op (o : Op)
  | noop

def parseTok (t : String) : Option Tok :=
  match t.splitOn ":" with
  | ["M", k] => k.toNat?.map fun _ => .noop
  | _ => (parseOp t).map .op

def runShow (asrt : Bool) : DStore → List Tok → Option (List String)
  | _, [] => some []
  | s, .noop :: ops => (runShow asrt s ops).map fun rest => ("ok " ++ dump s) :: rest
  | s, .op op :: ops =>
    if receiverOk s op then
      let r := step asrt s op
      (runShow asrt r.1 ops).map fun rest => (showOutcome r.2 ++ " " ++ dump r.1) :: rest
    else none

/-- the store the history ends in (the steps of `runShow`) -/
def runFinal (asrt : Bool) : DStore → List Tok → DStore
  | s, [] => s
  | s, .noop :: ops => runFinal asrt s ops
  | s, .op op :: ops => runFinal asrt (step asrt s op).1 ops

def showPairs (l : List (Nat × Nat)) : String :=
  if l.isEmpty then "-" else ",".intercalate (l.map fun e => toString e.1 ++ ">" ++ toString e.2)

def splitAtTok (toks : List String) (t : String) : List String × List String :=
  (toks.takeWhile (· ≠ t), (toks.dropWhile (· ≠ t)).drop 1)

def handle (toks : List String) : String :=
  let r : Option String := do
    let (hd, opToks) := splitAtTok toks "ops="
    if (← kv hd "cls") ≠ "dag" then none
    let n ← (← kv hd "n").toNat?
    let asrt ← match (← kv hd "asrt") with
      | "1" => some true
      | "0" => some false
      | _ => none
    let namesTok ← kv hd "names"
    let names ← if namesTok == "-" then some [] else (namesTok.splitOn ",").mapM unhex
    if names.length ≠ n then none
    if ¬ toks.contains "ops=" then none
    let ops ← opToks.mapM parseTok
    let outs ← runShow asrt (init n fun i => names.getD i []) ops
    let tail ← match kv hd "iter" with
      | none => some ""
      | some t => do
        let v ← t.toNat?
        let fin := runFinal asrt (init n fun i => names.getD i []) ops
        if v < fin.n then some (" ; iter " ++ showPairs (Dag.dagIter (toDag fin) v)) else none
    let tail2 ← match kv hd "copy" with
      | none => some ""
      | some t => do
        let v ← t.toNat?
        let fin := runFinal asrt (init n fun i => names.getD i []) ops
        let cp := deepCopy fin
        if v < fin.n then
          some (" ; copy " ++ " ".intercalate ((List.range fin.n).map fun i =>
            toString (copyOf fin i) ++ ":" ++ showMembers (cp.parents (copyOf fin i)) ++ "/" ++
              showMembers (cp.children (copyOf fin i))))
        else none
    pure (" ; ".intercalate outs ++ tail ++ tail2)
  r.getD "bad-op"

end Drv.C10
