import BigtreeModel.Proto
/-! Driver handler for property C10: one case (token list) in, one canonical line out. -/
namespace Drv.C10
def handle (_toks : List String) : String := "unimplemented"
end Drv.C10
