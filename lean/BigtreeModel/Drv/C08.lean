import BigtreeModel.Proto
/-! Driver handler for property C08: one case (token list) in, one canonical line out. -/
namespace Drv.C08
def handle (_toks : List String) : String := "unimplemented"
end Drv.C08
