import BigtreeModel.Proto
import BigtreeModel.Modify
/-! Driver handler for property C08 (shift / copy / replace).

`fn=<cs|rp> copy=<0|1> flags=<skippable overriding merge_children merge_leaves delete_children
 with_full_path as six 0/1 digits> sep=<x…> fsep=<x…> tsep=<x…> n=<fresh-id counter>
 from=<x…,x…|-> to=<x…|N,…|-> [S <tree>] D <tree>`

→ `ok <dst tree> [| <src tree>]` (ids `≥ n` are printed as `new`) or the exception class
(`ValueError`, `NotFoundError`, `TreeError`, `SearchError`, otherwise `rej`). -/
namespace Drv.C08
open Proto Modify

def splitAtTok (toks : List String) (t : String) : List String × List String :=
  (toks.takeWhile (· ≠ t), (toks.dropWhile (· ≠ t)).drop 1)

def parseList (s : String) : Option (List String) :=
  if s == "-" then some [] else some (s.splitOn ",")

def parseFroms (s : String) : Option (List Str) := do
  (← parseList s).mapM unhex

def parseTos (s : String) : Option (List (Option Str)) := do
  (← parseList s).mapM (fun tok => if tok == "N" then some none else (unhex tok).map some)

def bit (c : Char) : Option Bool :=
  if c == '0' then some false else if c == '1' then some true else none

partial def showCanon (n0 : Nat) : Tree → String
  | .node i n a cs =>
    "( " ++ (if i < n0 then toString i else "new") ++ " " ++ hex n ++ " " ++ showAttrs a ++ " "
      ++ String.join (cs.map fun c => showCanon n0 c ++ " ") ++ ")"

def showErr : Err → String
  | .value => "ValueError"
  | .notFound => "NotFoundError"
  | .tree => "TreeError"
  | .search => "SearchError"
  | .other => "rej"

def handle (toks : List String) : String :=
  let r : Option String := do
    let fn ← kv toks "fn"
    let copy ← match (← kv toks "copy") with | "0" => some false | "1" => some true | _ => none
    let flags ← (← kv toks "flags").toList.mapM bit
    let sep ← unhex (← kv toks "sep")
    let fsep ← unhex (← kv toks "fsep")
    let tsep ← unhex (← kv toks "tsep")
    let n0 ← (← kv toks "n").toNat?
    let froms ← parseFroms (← kv toks "from")
    let tos ← parseTos (← kv toks "to")
    let (sk, ov, mc, ml, dc, fp) ← match flags with
      | [a, b, c, d, e, f] => some (a, b, c, d, e, f)
      | _ => none
    let (_, dToks) := splitAtTok toks "D"
    let (dst, rest) ← parseTree dToks
    if rest ≠ [] then none
    let src ← if toks.contains "S" then do
        let (_, sToks) := splitAtTok toks "S"
        let (s, _) ← parseTree sToks
        pure (some s)
      else pure none
    -- the five public functions copy whenever a separate source tree is given
    if src.isSome && !copy then none
    if sep.isEmpty || fsep.isEmpty || tsep.isEmpty then none
    let cfg : Cfg := { sep := sep, fsep := fsep, tsep := tsep, copy := copy, skippable := sk,
                       overriding := ov, mergeChildren := mc, mergeLeaves := ml,
                       deleteChildren := dc, withFullPath := fp }
    let st : St := { src := src, dst := dst, next := n0 }
    let res ← match fn with
      | "cs" => some (copyOrShiftLists cfg st froms tos)
      | "rp" => some (replaceLists cfg st froms tos)
      | _ => none
    match res with
    | .error e => pure (showErr e)
    | .ok st' =>
      pure ("ok " ++ showCanon n0 st'.dst ++
        (match st'.src with | some s => " | " ++ showCanon n0 s | none => ""))
  r.getD "bad-op"

end Drv.C08
