import BigtreeModel.Proto
import BigtreeModel.Dag
import BigtreeModel.DagProto
/-! Driver handler for property C17 (DAG exports and constructors).
* `op=rt fmt=<list|dict|rows> sel=<all|pick:…> n= E= A= s=` → `X=<export> ret=… N= E= A=`
  (export in the exporter's order, then what the matching constructor builds from it);
* `op=cons fmt=list R=<edges>` / `fmt=dict D=<entries>` / `fmt=rows W=<rows>` → `ret=… N= E= A=`
  or `rej:TreeError` / `rej:ValueError`. -/
namespace Drv.C17
open Proto Dag DagProto

def handle (toks : List String) : String :=
  let r : Option String := do
    let op ← kv toks "op"
    let fmt ← kv toks "fmt"
    if op == "rt" then
      let n ← (← kv toks "n").toNat?
      let es ← parseEdges (← kv toks "E")
      let s ← (← kv toks "s").toNat?
      let sel ← parseSel (← kv toks "sel")
      let na ← parseNodeAttrs (← kv toks "A")
      if s ≥ n then none
      if es.any (fun e => e.1 ≥ n || e.2 ≥ n) then none
      let g := ofEdges n es (attrFun na)
      match fmt with
      | "list" =>
        let x := g.dagToList s
        pure ("X=" ++ showEdges x ++ " " ++ showResult (listToDag x))
      | "dict" =>
        match g.dagToDict sel s with
        | none => pure "X=KeyError"
        | some x => pure ("X=" ++ joinSemi (x.map showEntry) ++ " " ++ showResult (dictToDag x))
      | "rows" =>
        let x := g.dagToRows sel s
        pure ("X=" ++ joinSemi (x.map showRow) ++ " " ++ showResult (rowsToDag x))
      | _ => none
    else if op == "cons" then
      match fmt with
      | "list" => do
        let rel ← parseEdges (← kv toks "R")
        pure (showResult (listToDag rel))
      | "dict" => do
        let d ← parseSemi parseEntry (← kv toks "D")
        pure (showResult (dictToDag d))
      | "rows" => do
        let w ← parseSemi parseRow (← kv toks "W")
        pure (showResult (rowsToDag w))
      | _ => none
    else none
  r.getD "bad-op"
end Drv.C17
