import BigtreeModel.Proto
/-! Driver handler for property C17: one case (token list) in, one canonical line out. -/
namespace Drv.C17
def handle (_toks : List String) : String := "unimplemented"
end Drv.C17
