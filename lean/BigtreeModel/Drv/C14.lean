import BigtreeModel.Proto
import BigtreeModel.Helper
/-! Driver handler for property C14 (prune_tree / get_subtree).

`fn=prune tsep=<x> sep=<x> exact=<0|1> md=<n> paths=<x,x,…|-> T <tree>`
`fn=subtree tsep=<x> start=<id> q=<x> md=<n> T <tree>`
→ `ok <tree>` | `NotFoundError` | `ValueError` | `rej` -/
namespace Drv.C14
open Proto Helper

def splitAtTok (toks : List String) (t : String) : List String × List String :=
  (toks.takeWhile (· ≠ t), (toks.dropWhile (· ≠ t)).drop 1)

def parseStrs (s : String) : Option (List Str) :=
  if s == "-" then some [] else (s.splitOn ",").mapM unhex

def showRes : Except Err Tree → String
  | .ok t => "ok " ++ showTree t
  | .error .notFound => "NotFoundError"
  | .error .valueError => "ValueError"
  | .error _ => "rej"

def handle (toks : List String) : String :=
  let r : Option String := do
    let fn ← kv toks "fn"
    let tsep ← unhex (← kv toks "tsep")
    let md ← (← kv toks "md").toNat?
    let (_, rest) := splitAtTok toks "T"
    let (t, _) ← parseTree rest
    match fn with
    | "prune" =>
      let sep ← unhex (← kv toks "sep")
      let exact ← match (← kv toks "exact") with | "0" => some false | "1" => some true | _ => none
      let paths ← parseStrs (← kv toks "paths")
      pure (showRes (prune tsep t paths exact sep md))
    | "subtree" =>
      let start ← (← kv toks "start").toNat?
      let q ← unhex (← kv toks "q")
      let v ← (walk [] [] t).find? fun v => v.sub.id == start
      pure (showRes (getSubtree tsep v.names.dropLast v.sub q md))
    | _ => none
  r.getD "bad-op"
end Drv.C14
