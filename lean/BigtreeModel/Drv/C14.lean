import BigtreeModel.Proto
/-! Driver handler for property C14: one case (token list) in, one canonical line out. -/
namespace Drv.C14
def handle (_toks : List String) : String := "unimplemented"
end Drv.C14
