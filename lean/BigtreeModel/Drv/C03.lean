import BigtreeModel.Proto
/-! Driver handler for property C03: one case (token list) in, one canonical line out. -/
namespace Drv.C03
def handle (_toks : List String) : String := "unimplemented"
end Drv.C03
