import BigtreeModel.Proto
import BigtreeModel.StorePath
import BigtreeModel.Drv.C01
/-! Driver handler for property C03: Node histories (line shape of C01, `cls=node`).

Output: for each op `<ok|rej> <store> | <i=xpath_name,depth,xsep …>` joined by ` ; `, then ` ;; `
and, for the final store, `find_full_path(start, path_name(u))` for every ordered pair as
`start>u=<id|-|!>` plus, from `u` itself, the variants without the leading separator (`a:u=`) and with
a trailing separator (`b:u=`). -/
namespace Drv.C03
open Proto Drv.C01

def showLookup : Option (Option Nat) → String
  | none => "!"
  | some none => "-"
  | some (some v) => toString v

def showPaths (s : Store) : String :=
  " ".intercalate ((List.range s.n).map fun i =>
    toString i ++ "=" ++ hex (s.pathName i) ++ "," ++ toString (s.depth i) ++ "," ++ hex (s.sep i))

def showLookups (s : Store) : String :=
  let ids := List.range s.n
  let pairs := ids.flatMap fun st => ids.map fun u =>
    toString st ++ ">" ++ toString u ++ "=" ++ showLookup (s.findFullPath st (s.pathName u))
  let vars := ids.flatMap fun u =>
    let sp := s.sep u
    [ "a:" ++ toString u ++ "=" ++ showLookup (s.findFullPath u ((s.pathName u).drop sp.length)),
      "b:" ++ toString u ++ "=" ++ showLookup (s.findFullPath u (s.pathName u ++ sp)) ]
  " ".intercalate (pairs ++ vars)

def handle (toks : List String) : String :=
  match parseCase toks with
  | none => "bad-op"
  | some c =>
    if !c.cfg.node then "bad-op" else
    let tr := Store.trace c.cfg c.init c.ops
    let final := (tr.getLast?.map (·.2)).getD c.init
    " ; ".intercalate (tr.map fun (o, s) => showOutcome o ++ " " ++ showStore s ++ " | " ++ showPaths s)
      ++ " ;; " ++ showLookups final
end Drv.C03
