import BigtreeModel.Proto
/-! Driver handler for property C16: one case (token list) in, one canonical line out. -/
namespace Drv.C16
def handle (_toks : List String) : String := "unimplemented"
end Drv.C16
