import BigtreeModel.Proto
import BigtreeModel.Dag
import BigtreeModel.DagProto
/-! Driver handler for property C16 (DAG traversal and queries).
`n=<n> E=<a>b,c>d,…> s=<start> iter=<0|1>` — the DAG is the one left behind by adding the
edges in this order (adjacency lists in insertion order). Output, all from start node `s`:
`iter=<edges in yield order> anc=<ids> desc=<ids> sib=<ids> go0=<p.q.r|p.r> go1=rej …`
(`iter=skip` when not asked: dag_iterator is only claimed on weakly connected DAGs). -/
namespace Drv.C16
open Proto Dag DagProto

def showPaths (ps : Option (List (List Nat))) : String :=
  match ps with
  | none => "rej"
  | some l => if l.isEmpty then "-" else "|".intercalate (l.map showDots)

def handle (toks : List String) : String :=
  let r : Option String := do
    let n ← (← kv toks "n").toNat?
    let es ← parseEdges (← kv toks "E")
    let s ← (← kv toks "s").toNat?
    let it ← kv toks "iter"
    if s ≥ n then none
    if es.any (fun e => e.1 ≥ n || e.2 ≥ n) then none
    let g := ofEdges n es
    let iter ← if it == "1" then some (showEdges (g.dagIter s)) else if it == "0" then some "skip" else none
    let gos := (List.range n).map fun t => "go" ++ toString t ++ "=" ++ showPaths (g.goTo s t)
    pure (" ".intercalate (["iter=" ++ iter, "anc=" ++ showNats (g.ancestors s),
      "desc=" ++ showNats (g.descendants s), "sib=" ++ showNats (g.siblings s)] ++ gos))
  r.getD "bad-op"
end Drv.C16
