import BigtreeModel.Proto
/-! Driver handler for property C05: one case (token list) in, one canonical line out. -/
namespace Drv.C05
def handle (_toks : List String) : String := "unimplemented"
end Drv.C05
