import BigtreeModel.Proto
import BigtreeModel.Paths
/-! Driver handler for property C05 (path-based constructors).

`fn=<addpath|adddict|addrows|list|dict|rows> sep=<x> dup=<0|1> [tsep=<x>] [lib=…]
 (P <xpath> <attrs>)* [T <tree>]`

* `addpath`: exactly one `P`; answer `ok <addr> <tree>`; the others answer `ok <tree>`;
* refusals: `rej:TreeError`, `rej:DuplicatedNodeError`, `rej` (any other exception);
* result trees are printed as `( <id|n> <xname> <attrs sorted by key> child* )`, `n` = new node.
-/
namespace Drv.C05
open Proto Paths

def showAttrsSorted (a : Attrs) : String :=
  if a.isEmpty then "-" else
  let kvs := a.map fun (k, v) => (hex k, showVal v)
  let kvs := kvs.mergeSort (fun x y => !(y.1 < x.1))
  ",".intercalate (kvs.map fun (k, v) => k ++ ":" ++ v)

partial def showRes (n0 : Nat) : Tree → String
  | .node i n a cs =>
    "( " ++ (if i < n0 then toString i else "n") ++ " " ++ hex n ++ " " ++ showAttrsSorted a ++ " "
      ++ String.join (cs.map fun c => showRes n0 c ++ " ") ++ ")"

def showAddr (a : Addr) : String := "r" ++ String.join (a.map fun k => "." ++ toString k)

def showErr : Err → String
  | .tree => "rej:TreeError"
  | .dup => "rej:DuplicatedNodeError"
  | .value => "rej"
  | .other => "rej"

/-- `P <xpath> <attrs>` entries up to the `T` token (or the end) -/
def parseItems : List String → Option (List (Str × Attrs))
  | "P" :: p :: a :: rest => do
    let path ← unhex p
    let attrs ← parseAttrs a
    let more ← parseItems rest
    pure ((path, attrs) :: more)
  | "T" :: _ => some []
  | [] => some []
  | _ :: rest => parseItems rest

def treeOf (toks : List String) : Option Tree :=
  match (toks.dropWhile (· ≠ "T")).drop 1 with
  | [] => none
  | rest => (parseTree rest).map (·.1)

def handle (toks : List String) : String :=
  let r : Option String := do
    let fn ← kv toks "fn"
    let sep ← unhex (← kv toks "sep")
    if sep.isEmpty then none
    let dup ← match ← kv toks "dup" with
      | "1" => some true
      | "0" => some false
      | _ => none
    let items ← parseItems toks
    match fn with
    | "list" =>
      pure (match listToTree sep dup (items.map (·.1)) with
        | .ok t => "ok " ++ showRes 0 t
        | .error e => showErr e)
    | "dict" =>
      pure (match dictToTree sep dup items with
        | .ok t => "ok " ++ showRes 0 t
        | .error e => showErr e)
    | "rows" =>
      pure (match rowsToTree sep dup items with
        | .ok t => "ok " ++ showRes 0 t
        | .error e => showErr e)
    | "addpath" =>
      let tsep ← unhex (← kv toks "tsep")
      let t ← treeOf toks
      match items with
      | [(p, a)] =>
        pure (match addPath tsep sep dup t t.size p a with
          | .ok (t', ad, _) => "ok " ++ showAddr ad ++ " " ++ showRes t.size t'
          | .error e => showErr e)
      | _ => none
    | "adddict" =>
      let tsep ← unhex (← kv toks "tsep")
      let t ← treeOf toks
      pure (match addDict tsep sep dup t t.size items with
        | .ok t' => "ok " ++ showRes t.size t'
        | .error e => showErr e)
    | "addrows" =>
      let tsep ← unhex (← kv toks "tsep")
      let t ← treeOf toks
      pure (match addRows tsep sep dup t t.size items with
        | .ok t' => "ok " ++ showRes t.size t'
        | .error e => showErr e)
    | _ => none
  r.getD "bad-op"

end Drv.C05
