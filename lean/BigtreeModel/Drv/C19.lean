import BigtreeModel.Proto
/-! Driver handler for property C19: one case (token list) in, one canonical line out. -/
namespace Drv.C19
def handle (_toks : List String) : String := "unimplemented"
end Drv.C19
