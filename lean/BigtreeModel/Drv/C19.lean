import BigtreeModel.Proto
import BigtreeModel.Plot
/-! Driver handler for property C19 (Reingold–Tilford).
`sib=<q> sub=<q> lvl=<q> xoff=<q> yoff=<q> T <tree>` with `<q>` = `num/den` or `num`
→ `ok x,y x,y …` for every node in pre-order, each coordinate an exact rational `num/den`. -/
namespace Drv.C19
open Proto Plot

def parseRat (s : String) : Option Rat :=
  match s.splitOn "/" with
  | [n] => n.toInt?.map fun i => (i : Rat)
  | [n, d] => do
    let i ← n.toInt?
    let k ← d.toNat?
    if k = 0 then none else pure (mkRat i k)
  | _ => none

def showRat (r : Rat) : String := toString r.num ++ "/" ++ toString r.den

def handle (toks : List String) : String :=
  let r : Option String := do
    let sib ← parseRat (← kv toks "sib")
    let sub ← parseRat (← kv toks "sub")
    let lvl ← parseRat (← kv toks "lvl")
    let xoff ← parseRat (← kv toks "xoff")
    let yoff ← parseRat (← kv toks "yoff")
    let rest := (toks.dropWhile (· ≠ "T")).drop 1
    let (t, more) ← parseTree rest
    if !more.isEmpty then none
    let P : Params := { sib := sib, sub := sub, lvl := lvl, xoff := xoff, yoff := yoff }
    pure ("ok " ++ " ".intercalate ((layout P t).coords.map fun (x, y) => showRat x ++ "," ++ showRat y))
  r.getD "bad-op"
end Drv.C19
