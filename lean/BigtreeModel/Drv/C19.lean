import BigtreeModel.Proto
import BigtreeModel.Plot
/-! Driver handler for property C19 (Reingold–Tilford).
`sib=<q> sub=<q> lvl=<q> xoff=<q> yoff=<q> [ops=<op;op;…>] [stat=1] T <tree>` with `<q>` = `num/den` or `num`.
The tree is fresh (no node carries a shift). `ops` (default `L`) is a history on the same nodes:
* `L`            — run `reingold_tilford` on the root; prints `x,y x,y …` (pre-order, exact rationals);
* `D<addr>`      — detach the node at `<addr>` (`i.j.k`, child indices from the root);
* `F<addr>:<sh>` — insert the fresh subtree `<sh>` as FIRST child of the node at `<addr>` (`r` = root);
* `E<addr>:<sh>` — append the fresh subtree `<sh>` as LAST child;
* `W`            — a fresh node becomes the new root above the old root;
* `I<addr>`      — a fresh node is inserted between the node at `<addr>` and all its children;
* `R<addr>`      — reverse the children of the node at `<addr>`;
* `M<from>><to>` — detach the node at `<from>` and re-attach it as last child of the node at `<to>`
                   (`<to>` is an address in the tree after the detachment);
`<sh>` = nested parentheses, `()` a leaf. Output: `ok <layout 1> | <layout 2> | …`.
With `stat=1` the output is `far=<n>`: the number of nodes (over all layouts) for which the
maximal `_get_subtree_shift` over the left siblings is NOT attained at the nearest left sibling
that needs a non-zero shift (instrumentation for the generator statistics only). -/
namespace Drv.C19
open Proto Plot

def parseRat (s : String) : Option Rat :=
  match s.splitOn "/" with
  | [n] => n.toInt?.map fun i => (i : Rat)
  | [n, d] => do
    let i ← n.toInt?
    let k ← d.toNat?
    if k = 0 then none else pure (mkRat i k)
  | _ => none

def showRat (r : Rat) : String := toString r.num ++ "/" ++ toString r.den

def parseAddr (s : String) : Option (List Nat) :=
  if s == "r" then some [] else (s.splitOn ".").mapM String.toNat?

mutual
partial def parseShape : List Char → Option (ST × List Char)
  | '(' :: rest => do
    let (cs, rest') ← parseShapes rest
    pure (.node 0 cs, rest')
  | _ => none
partial def parseShapes : List Char → Option (List ST × List Char)
  | ')' :: rest => some ([], rest)
  | cs => do
    let (t, rest) ← parseShape cs
    let (ts, rest') ← parseShapes rest
    pure (t :: ts, rest')
end

def parseFresh (s : String) : Option ST :=
  match parseShape s.toList with
  | some (t, []) => some t
  | _ => none

inductive Op where
  | layout
  | edit (f : ST → ST)

def splitLast : List Nat → Option (List Nat × Nat)
  | [] => none
  | [i] => some ([], i)
  | a :: rest => (splitLast rest).map fun (p, i) => (a :: p, i)

def parseOp (s : String) : Option Op :=
  match s.toList with
  | ['L'] => some .layout
  | ['W'] => some (.edit ST.wrap)
  | 'I' :: rest => do
    let addr ← parseAddr (String.ofList rest)
    pure (.edit (ST.interpose addr))
  | 'D' :: rest => do
    let addr ← parseAddr (String.ofList rest)
    let (p, i) ← splitLast addr
    pure (.edit (ST.detach p i))
  | 'R' :: rest => do
    let addr ← parseAddr (String.ofList rest)
    pure (.edit (ST.reverseAt addr))
  | 'M' :: rest =>
    match (String.ofList rest).splitOn ">" with
    | [a, b] => do
      let (p, i) ← splitLast (← parseAddr a)
      let to ← parseAddr b
      pure (.edit (ST.move p i to))
    | _ => none
  | c :: rest =>
    if c == 'F' || c == 'E' then
      match (String.ofList rest).splitOn ":" with
      | [a, sh] => do
        let addr ← parseAddr a
        let fresh ← parseFresh sh
        pure (.edit (if c == 'F' then ST.insertFirst addr fresh else ST.insertLast addr fresh))
      | _ => none
    else none
  | _ => none

/-! instrumentation (statistics only): an annotated copy of the sibling loop that counts the
    nodes whose maximal shift is not attained at the nearest colliding left sibling -/

def shiftVals (sub : Rat) (node : PT) (ri : Nat) : List PT → Nat → List Rat
  | [], _ => []
  | l :: ls, idx => getSubtreeShift sub idx ri (l.height + 1) l [] node [] 0 0 0 true
      :: shiftVals sub node ri ls (idx + 1)

def isFar (vals : List Rat) : Bool :=
  match vals.reverse.find? (· ≠ 0) with
  | some v => vals.any (fun w => v < w)
  | none => false

mutual
partial def statKids (P : Params) : ST → List PT × Nat
  | .node _ cs => statGroup P cs [] (cs.map ST.shift) 0
partial def statGroup (P : Params) : List ST → List PT → List Rat → Nat → List PT × Nat
  | [], done, _, n => (done, n)
  | t :: ts, done, pend, n =>
    let (kids, k) := statKids P t
    let node := place P.sib done (pend.headD 0) kids
    let far := if isFar (shiftVals P.sub node done.length done 0) then 1 else 0
    let st := shiftSiblings P.sub done node pend.tail
    statGroup P ts st.1 st.2 (n + k + far)
end

def showLayout (f : FT) : String :=
  " ".intercalate (f.coords.map fun (x, y) => showRat x ++ "," ++ showRat y)

def run (P : Params) (stat : Bool) : List Op → ST → List String → Nat → List String × Nat
  | [], _, acc, far => (acc.reverse, far)
  | .layout :: ops, t, acc, far =>
    if stat then run P stat ops (stored P t) acc (far + (statKids P t.clear).2)
    else run P stat ops (stored P t) (showLayout (layoutS P t) :: acc) far
  | .edit f :: ops, t, acc, far => run P stat ops (f t) acc far

def handle (toks : List String) : String :=
  let r : Option String := do
    let sib ← parseRat (← kv toks "sib")
    let sub ← parseRat (← kv toks "sub")
    let lvl ← parseRat (← kv toks "lvl")
    let xoff ← parseRat (← kv toks "xoff")
    let yoff ← parseRat (← kv toks "yoff")
    let ops ← ((kv toks "ops").getD "L").splitOn ";" |>.mapM parseOp
    let rest := (toks.dropWhile (· ≠ "T")).drop 1
    let (t, more) ← parseTree rest
    if !more.isEmpty then none
    let P : Params := { sib := sib, sub := sub, lvl := lvl, xoff := xoff, yoff := yoff }
    let stat := (kv toks "stat") == some "1"
    let (outs, far) := run P stat ops (ST.ofTree t) [] 0
    if stat then pure s!"far={far}" else pure ("ok " ++ " | ".intercalate outs)
  r.getD "bad-op"
end Drv.C19
