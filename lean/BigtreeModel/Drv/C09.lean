import BigtreeModel.Proto
/-! Driver handler for property C09: one case (token list) in, one canonical line out. -/
namespace Drv.C09
def handle (_toks : List String) : String := "unimplemented"
end Drv.C09
