import BigtreeModel.Proto
import BigtreeModel.Search
/-! Driver handler for property C09 (search).

`fn=<function> start=<id> sep=<xhex> [cond=<all|none|id,id,…>] [name=<xhex>] [q=<xhex>] [k=<xhex> v=<val>]
 [md=<n>] [min=<n>] [max=<n>] (T <tree> | B <btree>)`
→ `list <ids>` (tuple results) | `one <id>` | `none` (single results) | `SearchError` | `rej`.
A BinaryNode tree is searched through its generic view (empty slots skipped), except
`find_children`/`find_child`, which run on the two slots themselves. -/
namespace Drv.C09
open Proto Query Search

def locate (R : Tree) (i : Nat) : Option Addr :=
  (subtreeLocs R []).find? fun a => idAt R a == some i

def findB (i : Nat) : BTree → Option BTree
  | .nil => none
  | .node j n a l r =>
    if i == j then some (.node j n a l r)
    else match findB i l with
      | some b => some b
      | none => findB i r

def idSet (s : String) : Option (Nat → Bool) :=
  if s == "all" then some fun _ => true
  else if s == "none" then some fun _ => false
  else (parseNats s).map fun l => fun i => l.contains i

def showList (R : Tree) : Except Err (List Addr) → Option String
  | .error .search => some "SearchError"
  | .error .value => some "rej"
  | .error .unmodelled => some "out-of-scope"
  | .ok l => do
    let xs ← l.mapM (idAt R)
    pure ("list " ++ showNats xs)

def showOne (R : Tree) : Except Err (Option Addr) → Option String
  | .error .search => some "SearchError"
  | .error .value => some "rej"
  | .error .unmodelled => some "out-of-scope"
  | .ok none => some "none"
  | .ok (some a) => (idAt R a).map fun i => "one " ++ toString i

def bid : BTree → Nat
  | .nil => 0
  | .node i _ _ _ _ => i

def natOpt (toks : List String) (key : String) : Option Nat :=
  match kv toks key with
  | none => some 0
  | some s => s.toNat?

def handle (toks : List String) : String :=
  let r : Option String := do
    let fn ← kv toks "fn"
    let start ← (← kv toks "start").toNat?
    let sep ← unhex (← kv toks "sep")
    let md ← natOpt toks "md"
    let minC ← natOpt toks "min"
    let maxC ← natOpt toks "max"
    let rest := toks.dropWhile fun t => t ≠ "T" && t ≠ "B"
    let (R, bt) ← match rest with
      | "T" :: ts => do
        let (t, tail) ← parseTree ts
        if tail.isEmpty then pure (t, (none : Option BTree)) else none
      | "B" :: ts => do
        let (b, tail) ← parseBTree ts
        if !tail.isEmpty then none else
        match b.toTrees with
        | [t] => pure (t, some b)
        | _ => none
      | _ => none
    let a ← locate R start
    let condIds : Option (Nat → Bool) := (kv toks "cond").bind idSet
    let cond : Option (Addr → Bool) := condIds.map fun f => fun b => ((idAt R b).map f).getD false
    match fn with
    | "findall" => showList R (findall R a (← cond) md minC maxC)
    | "find" => showOne R (find R a (← cond) md)
    | "find_name" => showOne R (findName R a (← unhex (← kv toks "name")) md)
    | "find_names" => showList R (findNames R a (← unhex (← kv toks "name")) md)
    | "find_path" => showOne R (findPath R sep a (← unhex (← kv toks "q")))
    | "find_paths" => showList R (findPaths R sep a (← unhex (← kv toks "q")))
    | "find_full_path" => showOne R (findFullPath R sep a (← unhex (← kv toks "q")))
    | "find_attr" => showOne R (findAttr R a (← unhex (← kv toks "k")) (← parseVal (← kv toks "v")) md)
    | "find_attrs" => showList R (findAttrs R a (← unhex (← kv toks "k")) (← parseVal (← kv toks "v")) md)
    | "find_children" =>
      match bt with
      | none => showList R (findChildren R a (← cond) minC maxC)
      | some b => do
        -- the two slots themselves; the count contract is the shared `checkResultCount`
        let res := (findChildrenB (← condIds) (← findB start b)).map bid
        match checkResultCount res.length minC maxC with
        | .error _ => pure "SearchError"
        | .ok () => pure ("list " ++ showNats res)
    | "find_child" =>
      match bt with
      | none => showOne R (findChild R a (← cond))
      | some b => do
        let res := (findChildrenB (← condIds) (← findB start b)).map bid
        match checkResultCount res.length 0 1 with
        | .error _ => pure "SearchError"
        | .ok () => pure (match res.head? with | none => "none" | some i => "one " ++ toString i)
    | "find_child_by_name" => showOne R (findChildByName R a (← unhex (← kv toks "name")))
    | "find_relative_path" => showOne R (findRelativePath R sep a (← unhex (← kv toks "q")))
    | "find_relative_paths" => showList R (findRelativePaths R sep a (← unhex (← kv toks "q")) minC maxC)
    | _ => none
  r.getD "bad-op"

end Drv.C09
