import BigtreeModel.Proto
/-! Driver handler for property C20: one case (token list) in, one canonical line out. -/
namespace Drv.C20
def handle (_toks : List String) : String := "unimplemented"
end Drv.C20
