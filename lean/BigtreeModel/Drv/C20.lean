import BigtreeModel.Proto
import BigtreeModel.Drv.C01
/-! Driver handler for property C20: dispatches on `cls=`.  For `base|node` the history of the line
(`asrt=` is ignored) is run with the checks on and with the checks off:
`on <trace> || off <trace>`. -/
namespace Drv.C20
open Drv.C01
def handle (toks : List String) : String :=
  match Proto.kv toks "cls" with
  | some "base" | some "node" =>
    match parseCase toks with
    | none => "bad-op"
    | some c =>
      "on " ++ showTrace (Store.trace { c.cfg with assertions := true } c.init c.ops)
        ++ " || off " ++ showTrace (Store.trace { c.cfg with assertions := false } c.init c.ops)
  | _ => "bad-op"
end Drv.C20
