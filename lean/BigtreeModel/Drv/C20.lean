import BigtreeModel.Proto
import BigtreeModel.Drv.C01
import BigtreeModel.Drv.C10
import BigtreeModel.Drv.C11
/-! Driver handler for property C20: dispatches on `cls=`.  The history of the line (`asrt=` is
ignored) is run with the checks on and with the checks off: `on <trace> || off <trace>`. -/
namespace Drv.C20
open Drv.C01

/-- the same case line with the `asrt=` token forced to `v` -/
def withAsrt (toks : List String) (v : String) : List String :=
  toks.map fun t => if t.startsWith "asrt=" then "asrt=" ++ v else t

def handle (toks : List String) : String :=
  match Proto.kv toks "cls" with
  | some "base" | some "node" =>
    match parseCase toks with
    | none => "bad-op"
    | some c =>
      "on " ++ showTrace (Store.trace { c.cfg with assertions := true } c.init c.ops)
        ++ " || off " ++ showTrace (Store.trace { c.cfg with assertions := false } c.init c.ops)
  | some "binary" =>
    "on " ++ Drv.C11.handle (withAsrt toks "1") ++ " || off " ++ Drv.C11.handle (withAsrt toks "0")
  | some "dag" =>
    "on " ++ Drv.C10.handle (withAsrt toks "1") ++ " || off " ++ Drv.C10.handle (withAsrt toks "0")
  | _ => "bad-op"
end Drv.C20
