import BigtreeModel.Proto
import BigtreeModel.Iter
import BigtreeModel.Render
import BigtreeModel.RenderStyles
/-! Driver handler for property C18 (renderings). One case per line:

* `op=yield|print style=<S> md=<n> start=<i> nnp=<xhex> [attrs=-|all|xk,xk omit=0|1 br=xopen:xclose] (T tree | B btree)`
  → `hex(pre)/hex(fill)/hex(name),…` (yield) or `hex(line),…` (print)
* `op=hyield hstyle=<H> inter=0|1 md=<n> start=<i> nnp=<xhex> (T tree | B btree)` → `hex(row),…`
* `op=dot (T|B)` → `V id:label,… E from>to,…` (both sorted)
* `op=mermaid md=<n> start=<i> nnp=<xhex> (T|B)` → `hex(flow line),…` (`-` when there is none)
* `op=s2t prefixes=-|x:x text=<xhex>` → shape or `rej`
* `op=rt style=<S> md=<n> [np=1] (T|B)` → shape of `strToTree [branch, stem_final] (text of yieldTree)` (`np=1`: no prefix list) or `rej`
* `op=hdec hstyle=<H> inter=0|1 md=<n> (T|B)` → shape decoded (by the Lean decoder) from the model's own
  horizontal rendering (a test of decodability, see LEVEL_TEXT)

`<S>` = a key of the generated PRINT_STYLES table or `custom:xstem:xbranch:xfinal`;
`<H>` = a key of HPRINT_STYLES or `custom:x:x:x:x:x:x:x`. Exceptions ⇒ `rej`. -/
namespace Drv.C18
open Proto Render

def splitAtTok (toks : List String) (t : String) : List String × List String :=
  (toks.takeWhile (· ≠ t), (toks.dropWhile (· ≠ t)).drop 1)

/-- outer `none` = bad-op, inner `none` = the Python raises -/
def parseStyle (s : String) : Option (Option Style) :=
  match s.splitOn ":" with
  | ["custom", a, b, c] => do
    let st : Style := ⟨← unhex a, ← unhex b, ← unhex c⟩
    pure (if st.lengthsOk then some st else none)
  | "custom" :: rest => do
    let _ ← rest.mapM unhex
    pure none               -- a list that does not hold 3 strings: ValueError
  | [k] =>
    match builtinStyles.find? (·.1 == k) with
    | some (_, st) => some (if st.lengthsOk then some st else none)
    | none => some none     -- assert_style_in_dict raises
  | _ => none

def mkH (l : List Str) : Option HStyle := mkHStyle l

def parseHStyle (s : String) : Option (Option HStyle) :=
  match s.splitOn ":" with
  | "custom" :: rest => do
    let l ← rest.mapM unhex
    pure (mkH l)            -- not 7 icons, or an icon that is not one character: ValueError
  | [k] =>
    match builtinHStyles.find? (·.1 == k) with
    | some (_, S?) => some S?
    | none => some none
  | _ => none

def hexList (l : List Str) : String := if l.isEmpty then "-" else ",".intercalate (l.map hex)

mutual
partial def showShape : Tree → String
  | .node _ n _ cs => "( " ++ hex n ++ " " ++ String.join (cs.map fun c => showShape c ++ " ") ++ ")"
end

partial def showHShape : HTree → String
  | .hole => "_"
  | .node n cs => "( " ++ hex n ++ " " ++ String.join (cs.map fun c => showHShape c ++ " ") ++ ")"

/-- the tree argument: root tree (holes of a binary tree dropped) -/
def parseArg (toks : List String) : Option (Tree × Option BTree) :=
  if toks.contains "B" then do
    let (bt, _) ← parseBTree (splitAtTok toks "B").2
    match bt.toTrees with
    | [t] => pure (t, some bt)
    | _ => none
  else do
    let (t, _) ← parseTree (splitAtTok toks "T").2
    pure (t, none)

def sep : Str := ['/']

/-- `get_subtree(nodes[start], nnp)`: outer none = bad-op, inner none = exception -/
def select (t : Tree) (start : Nat) (nnp : Str) : Option (Option Tree) :=
  match (pathsT sep [] t)[start]? with
  | none => none
  | some (path, sub) =>
    let ppath := path.take (path.length - sep.length - sub.name.length)
    some (selectSub sep ppath sub nnp)

/-! attribute text of `print_tree` -/
def valStr : Val → Str
  | .null => "None".toList
  | .int i => (toString i).toList
  | .str s => s
  | .bool true => "True".toList
  | .bool false => "False".toList

def strLe (a b : Str) : Bool := a.map Char.toNat ≤ b.map Char.toNat

def attrStr (mode : String) (omitNull : Bool) (bo bc : Str) (t : Tree) : Option Str := do
  let items : List Str ←
    if mode == "all" then
      pure ((t.attrs.mergeSort fun x y => strLe x.1 y.1).map fun (k, v) => k ++ '=' :: valStr v)
    else do
      let keys ← (mode.splitOn ",").mapM unhex
      pure (keys.filterMap fun k =>
        match t.attrs.lookup k with
        | some v => if omitNull && v == .null then none else some (k ++ '=' :: valStr v)
        | none => none)
  let s := ", ".toList.intercalate items
  pure (if s.isEmpty then [] else ' ' :: bo ++ s ++ bc)

mutual
partial def preTrees : Tree → List Tree
  | .node i n a cs => .node i n a cs :: (cs.map preTrees).flatten
end

def strSort (l : List String) : List String := l.mergeSort fun a b => a ≤ b

def handle (toks : List String) : String :=
  let r : Option String := do
    let op ← kv toks "op"
    match op with
    | "yield" | "print" =>
      let (t, _) ← parseArg toks
      let md ← (← kv toks "md").toNat?
      let start ← (← kv toks "start").toNat?
      let nnp ← unhex (← kv toks "nnp")
      let st? ← parseStyle (← kv toks "style")
      let sub? ← select t start nnp
      -- order of the Python: get_subtree first, then the style checks
      match sub?, st? with
      | some sub, some st =>
        let lines := yieldTree st md sub
        if op == "yield" then
          pure (if lines.isEmpty then "-" else
            ",".intercalate (lines.map fun l => hex l.pre ++ "/" ++ hex l.fill ++ "/" ++ hex l.name))
        else
          let mode := (kv toks "attrs").getD "-"
          if mode == "-" then pure (hexList (lines.map Line.text))
          else
            let omitNull := (kv toks "omit").getD "0" == "1"
            let (bo, bc) ← match ((kv toks "br").getD "x5b:x5d").splitOn ":" with
              | [a, b] => do pure ((← unhex a), (← unhex b))
              | _ => none
            -- the i-th line belongs to the i-th node of the pruned tree in pre-order
            let nodes := preTrees (prune md sub)
            let strs ← (lines.zip nodes).mapM fun (l, n) => do
              pure (l.text ++ (← attrStr mode omitNull bo bc n))
            pure (hexList strs)
      | _, _ => pure "rej"
    | "hyield" | "hdec" =>
      let (t, bt?) ← parseArg toks
      let md ← (← kv toks "md").toNat?
      let inter := (← kv toks "inter") == "1"
      let hs? ← parseHStyle (← kv toks "hstyle")
      let h? : Option HTree ←
        match bt? with
        | some bt => pure (some (ofBTree bt))
        | none => do
          let start ← (← kv toks "start").toNat?
          let nnp ← unhex (← kv toks "nnp")
          pure ((← select t start nnp).map ofTree)
      match h?, hs? with
      | some h, some S =>
        let rows := hyieldTree S inter md h
        if op == "hyield" then pure (hexList rows)
        else
          match hdecode S rows with
          | some d => pure (showHShape d)
          | none => pure "undecodable"
      | _, _ => pure "rej"
    | "dot" =>
      let (t, _) ← parseArg toks
      let o := dotT sep [] none [] t
      pure ("V " ++ hexListS (strSort (o.vertices.map fun (i, l) => hex i ++ ":" ++ hex l))
        ++ " E " ++ hexListS (strSort (o.edges.map fun (a, b) => hex a ++ ">" ++ hex b)))
    | "mermaid" =>
      let (t, _) ← parseArg toks
      let md ← (← kv toks "md").toNat?
      let start ← (← kv toks "start").toNat?
      let nnp ← unhex (← kv toks "nnp")
      match ← select t start nnp with
      | some sub => pure (hexList ((mermaidFlows md sub).map Flow.text))
      | none => pure "rej"
    | "s2t" =>
      let ptok ← kv toks "prefixes"
      let prefixes ← if ptok == "-" then pure [] else (ptok.splitOn ":").mapM unhex
      if prefixes.any List.isEmpty then none
      let text ← unhex (← kv toks "text")
      match strToTree prefixes text with
      | some t => pure (showShape t)
      | none => pure "rej"
    | "rt" =>
      let (t, _) ← parseArg toks
      let md ← (← kv toks "md").toNat?
      match ← parseStyle (← kv toks "style") with
      | some st =>
        let prefixes := if (kv toks "np").getD "0" == "1" then [] else [st.branch, st.stemFinal]
        match strToTree prefixes (joinNl ((yieldTree st md t).map Line.text)) with
        | some t' => pure (showShape t')
        | none => pure "rej"
      | none => pure "rej"
    | _ => none
  r.getD "bad-op"
where hexListS (l : List String) : String := if l.isEmpty then "-" else ",".intercalate l
end Drv.C18
