import BigtreeModel.Proto
/-! Driver handler for property C18: one case (token list) in, one canonical line out. -/
namespace Drv.C18
def handle (_toks : List String) : String := "unimplemented"
end Drv.C18
