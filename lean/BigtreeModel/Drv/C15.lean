import BigtreeModel.Proto
import BigtreeModel.Helper
import BigtreeModel.HelperDiff
/-! Driver handler for property C15 (get_tree_diff).

`sep=<x> only=<0|1> attrs=<x,x,…|-> T <tree> U <tree>`
→ `none` | `rej` | `ok <node>;<node>;…` where `<node>` = `<xcomp>/<xcomp>/…@<attrs>`, sorted
(the result is compared as a set of component tuples with attributes). -/
namespace Drv.C15
open Proto Helper

def splitAtTok (toks : List String) (t : String) : List String × List String :=
  (toks.takeWhile (· ≠ t), (toks.dropWhile (· ≠ t)).drop 1)

def parseStrs (s : String) : Option (List Str) :=
  if s == "-" then some [] else (s.splitOn ",").mapM unhex

def showNode (v : Visit) : String :=
  "/".intercalate (v.names.map hex) ++ "@" ++ showAttrs v.sub.attrs

def showSet (t : Tree) : String :=
  ";".intercalate (((walk [] [] t).map showNode).mergeSort fun a b => decide (a ≤ b))

def handle (toks : List String) : String :=
  let r : Option String := do
    let sep ← unhex (← kv toks "sep")
    let only ← match (← kv toks "only") with | "0" => some false | "1" => some true | _ => none
    let attrs ← parseStrs (← kv toks "attrs")
    let (_, rest) := splitAtTok toks "T"
    let (t1, rest1) ← parseTree rest
    let (_, rest2) := splitAtTok rest1 "U"
    let (t2, _) ← parseTree rest2
    match treeDiff sep t1 t2 only attrs with
    | .ok none => pure "none"
    | .ok (some t) => pure ("ok " ++ showSet t)
    | .error _ => pure "rej"
  r.getD "bad-op"
end Drv.C15
