import BigtreeModel.Proto
/-! Driver handler for property C15: one case (token list) in, one canonical line out. -/
namespace Drv.C15
def handle (_toks : List String) : String := "unimplemented"
end Drv.C15
