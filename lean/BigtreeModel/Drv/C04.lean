import BigtreeModel.Proto
import BigtreeModel.Iter
/-! Driver handler for property C04 (traversals).
`kind=<pre|post|level|levelgroup|zig|ziggroup|inorder> d=<depth of start node> md=<max_depth>
 filt=<all|id,id,…> stop=<none|id,id,…> (T <tree> | B <btree>)` → ids in yield order;
groups are separated by `|`. -/
namespace Drv.C04
open Proto Iter

def idSet (s : String) (dflt : Bool) : Option (Nat → Bool) :=
  if s == "all" then some fun _ => true
  else if s == "none" then some fun _ => false
  else if s == "empty" then some fun _ => false
  else if s == "-" then some fun _ => dflt
  else (parseNats s).map fun l => fun i => l.contains i

def showGroups (gs : List (List Tree)) : String :=
  "|".intercalate (gs.map fun g => showNats (g.map Tree.id))

def splitAtTok (toks : List String) (t : String) : List String × List String :=
  (toks.takeWhile (· ≠ t), (toks.dropWhile (· ≠ t)).drop 1)

def handle (toks : List String) : String :=
  let r : Option String := do
    let kind ← kv toks "kind"
    let d ← (← kv toks "d").toNat?
    let md ← (← kv toks "md").toNat?
    let filt ← idSet (← kv toks "filt") true
    let stop ← idSet (← kv toks "stop") false
    let c : Cfg := { filt := filt, stop := stop, maxDepth := md }
    if toks.contains "B" then
      let (_, rest) := splitAtTok toks "B"
      let (bt, _) ← parseBTree rest
      if kind == "inorder" then pure (showNats (inorderImpl filt md d bt))
      else
        match bt.toTrees with
        | [t] => run c kind d t
        | _ => none
    else
      let (_, rest) := splitAtTok toks "T"
      let (t, _) ← parseTree rest
      run c kind d t
  r.getD "bad-op"
where run (c : Cfg) (kind : String) (d : Nat) (t : Tree) : Option String :=
  match kind with
  | "pre" => some (showNats ((preImpl c d t).map Tree.id))
  | "post" => some (showNats ((postImpl c d t).map Tree.id))
  | "level" => some (showNats ((levelorder c d t).map Tree.id))
  | "levelgroup" => some (showGroups (levelordergroup c d t))
  | "zig" => some (showNats ((zigzag c d t).map Tree.id))
  | "ziggroup" => some (showGroups (zigzaggroup c d t))
  | _ => none
end Drv.C04
