import BigtreeModel.Proto
import BigtreeModel.CopyStore
/-! Driver handler for property C07 (readers never alter or alias their input).

`fn=<copy|clone|subtree|prune|reader> start=<id> tsep=<x> [q=<x>] [paths=<x,…|-> exact=<0|1> sep=<x>] md=<n>
 hist=<op;op;…|-> T <tree>`
ops: `<o|r>.P.<v>.<p>` (v.parent = p) · `.D.<v>` (v.parent = None) · `.X.<v>` (del v.children) ·
`.A.<v>.<xkey>.<val>` (set_attrs) · `.N.<v>.<xname>` (rename); `o` = node of the input tree by
pre-order id, `r` = node of the returned tree's component by pre-order index at return time.
→ `ok ret=<r-index|-> orig=<cells> res=<cells|->` | `err:<class> orig=<cells>` (`fn=dag` → `ok dag`);
a cell is `<parent>|<children>|<xname>|<attrs sorted by key>`, cells joined by `;`. -/
namespace Drv.C07
open Proto CopyStore

def splitAtTok (toks : List String) (t : String) : List String × List String :=
  (toks.takeWhile (· ≠ t), (toks.dropWhile (· ≠ t)).drop 1)

def parseStrs (s : String) : Option (List Str) :=
  if s == "-" then some [] else (s.splitOn ",").mapM unhex

mutual
/-- cells of a tree whose ids are its pre-order indices, listed in pre-order -/
def cellsFix (parent : Option Nat) : Tree → List Cell
  | .node i n av cs => ⟨parent, cs.map Tree.id, n, av⟩ :: cellsFixL (some i) cs
def cellsFixL (parent : Option Nat) : List Tree → List Cell
  | [] => []
  | c :: cs => cellsFix parent c ++ cellsFixL parent cs
end

def storeOf (t : Tree) : Store := ⟨cellsFix none t⟩

def sortAttrs (a : Attrs) : Attrs := a.mergeSort fun x y => decide (x.1 ≤ y.1)

structure Ctx where
  n0 : Nat
  res : List Nat

def Ctx.ref (c : Ctx) (i : Nat) : String :=
  if i < c.n0 then "o" ++ toString i
  else match c.res.idxOf? i with
    | some j => "r" ++ toString j
    | none => "?"

def showCell (c : Ctx) (x : Cell) : String :=
  (match x.parent with | none => "-" | some p => c.ref p) ++ "|"
    ++ (if x.children.isEmpty then "-" else ",".intercalate (x.children.map c.ref)) ++ "|"
    ++ hex x.name ++ "|" ++ showAttrs (sortAttrs x.attrs)

def showCells (c : Ctx) (s : Store) (ids : List Nat) : String :=
  if ids.isEmpty then "-" else
  ";".intercalate (ids.map fun i => match s.cell? i with | some x => showCell c x | none => "?")

def parseOp (c : Ctx) (tok : String) : Option (Option Op) :=
  -- `some none` = an operation the model ignores (index out of range on that side)
  match tok.splitOn "." with
  | side :: kind :: rest => do
    let node : String → Option (Option Nat) := fun t => do
      let k ← t.toNat?
      if side == "o" then pure (if k < c.n0 then some k else none)
      else if side == "r" then pure c.res[k]?
      else none
    match kind, rest with
    | "P", [v, p] => do
      let v ← node v; let p ← node p
      pure (do let v ← v; let p ← p; pure (Op.setParent v (some p)))
    | "D", [v] => do let v ← node v; pure (v.map fun v => Op.setParent v none)
    | "X", [v] => do let v ← node v; pure (v.map Op.delChildren)
    | "A", [v, k, x] => do
      let v ← node v; let k ← unhex k; let x ← parseVal x
      pure (v.map fun v => Op.setAttr v k x)
    | "N", [v, nm] => do let v ← node v; let nm ← unhex nm; pure (v.map fun v => Op.setName v nm)
    | _, _ => none
  | _ => none

def parseHist (c : Ctx) (s : String) : Option (List Op) :=
  if s == "-" then some [] else do
    let ops ← (s.splitOn ";").mapM (parseOp c)
    pure (ops.filterMap id)

def errName : Helper.Err → String
  | .notFound => "NotFoundError"
  | .valueError => "ValueError"
  | _ => "rej"

def handle (toks : List String) : String :=
  let r : Option String := do
    let fn ← kv toks "fn"
    -- DAG functions are monitored by the model-free oracle only (the store models trees)
    if fn == "dag" then return "ok dag"
    let start ← (← kv toks "start").toNat?
    let tsep ← unhex (← kv toks "tsep")
    let hist ← kv toks "hist"
    let (_, rest) := splitAtTok toks "T"
    let (t, _) ← parseTree rest
    let s0 := storeOf t
    let n0 := s0.n
    let origIds := List.range n0
    let call : Option (Except Helper.Err (Store × Option Nat)) :=
      match fn with
      | "reader" => some (.ok (s0, none))
      | "copy" => let c := deepCopy s0 start; some (.ok (c.1, some c.2))
      | "clone" => let c := cloneA s0 start; some (.ok (c.1, some c.2))
      | "subtree" => do
        let q ← unhex (← kv toks "q")
        let md ← (← kv toks "md").toNat?
        pure ((getSubtreeA tsep s0 start q md).map fun x => (x.1, some x.2))
      | "prune" => do
        let md ← (← kv toks "md").toNat?
        let sep ← unhex (← kv toks "sep")
        let exact ← match (← kv toks "exact") with | "0" => some false | "1" => some true | _ => none
        let paths ← parseStrs (← kv toks "paths")
        pure ((pruneA tsep s0 start paths exact sep md).map fun x => (x.1, some x.2))
      | _ => none
    match ← call with
    | .error e =>
      let c : Ctx := ⟨n0, []⟩
      let ops ← parseHist c hist
      pure ("err:" ++ errName e ++ " orig=" ++ showCells c (run s0 ops) origIds)
    | .ok (s1, ret) =>
      let res : List Nat := match ret with
        | none => []
        | some w => treeIds (toTree s1 s1.n (rootOf s1 s1.n w))
      let c : Ctx := ⟨n0, res⟩
      let ops ← parseHist c hist
      let s2 := run s1 ops
      pure ("ok ret=" ++ (match ret with | none => "-" | some w => c.ref w)
        ++ " orig=" ++ showCells c s2 origIds ++ " res=" ++ showCells c s2 res)
  r.getD "bad-op"
end Drv.C07
