import BigtreeModel.Proto
/-! Driver handler for property C07: one case (token list) in, one canonical line out. -/
namespace Drv.C07
def handle (_toks : List String) : String := "unimplemented"
end Drv.C07
