import BigtreeModel.Proto
import BigtreeModel.CopyStore
/-! Driver handler for property C07 (readers never alter or alias their input).

`fn=<copy|clone|subtree|prune|reader> start=<id> tsep=<x> [q=<x>] [paths=<x,…|-> exact=<0|1> sep=<x>] md=<n>
 hist=<op;op;…|-> T <tree>`
ops: `<o|r>.P.<v>.<p>` (v.parent = p) · `.D.<v>` (v.parent = None) · `.X.<v>` (del v.children) ·
`.A.<v>.<xkey>.<val>` (set_attrs) · `.N.<v>.<xname>` (rename) · `.G.<v>.<xname>` (`Node(name, parent=v)`); `o` = node of the input tree by
pre-order id, `r` = node of the returned tree's component by pre-order index at return time.
→ `ok ret=<r-index|-> orig=<cells> res=<cells|->` | `err:<class> orig=<cells>` (`fn=dag` → `ok dag`, `fn=oracle` → `ok oracle`: cases checked by the model-free oracle only);
a cell is `<parent>|<children>|<xname>|<attrs sorted by key>`, cells joined by `;`. -/
namespace Drv.C07
open Proto CopyStore

def splitAtTok (toks : List String) (t : String) : List String × List String :=
  (toks.takeWhile (· ≠ t), (toks.dropWhile (· ≠ t)).drop 1)

def parseStrs (s : String) : Option (List Str) :=
  if s == "-" then some [] else (s.splitOn ",").mapM unhex

mutual
/-- cells of a tree whose ids are its pre-order indices, listed in pre-order -/
def cellsFix (parent : Option Nat) : Tree → List Cell
  | .node i n av cs => ⟨parent, cs.map Tree.id, n, av⟩ :: cellsFixL (some i) cs
def cellsFixL (parent : Option Nat) : List Tree → List Cell
  | [] => []
  | c :: cs => cellsFix parent c ++ cellsFixL parent cs
end

def storeOf (t : Tree) : Store := ⟨cellsFix none t⟩

def sortAttrs (a : Attrs) : Attrs := a.mergeSort fun x y => decide (x.1 ≤ y.1)

structure Ctx where
  opool : List Nat   -- nodes of the input side: the input's nodes by pre-order id, then nodes grown on that side
  rpool : List Nat   -- nodes of the result side: the returned component in pre-order, then nodes grown there

def Ctx.ref (c : Ctx) (i : Nat) : String :=
  match c.opool.idxOf? i with
  | some j => "o" ++ toString j
  | none => match c.rpool.idxOf? i with
    | some j => "r" ++ toString j
    | none => "?"

def showCell (c : Ctx) (x : Cell) : String :=
  (match x.parent with | none => "-" | some p => c.ref p) ++ "|"
    ++ (if x.children.isEmpty then "-" else ",".intercalate (x.children.map c.ref)) ++ "|"
    ++ hex x.name ++ "|" ++ showAttrs (sortAttrs x.attrs)

def showCells (c : Ctx) (s : Store) (ids : List Nat) : String :=
  if ids.isEmpty then "-" else
  ";".intercalate (ids.map fun i => match s.cell? i with | some x => showCell c x | none => "?")

/-- one history token applied to (store, pools); an index beyond the pool of its side is skipped
    (on both sides of the tie) -/
def applyTok (st : Store × Ctx) (tok : String) : Option (Store × Ctx) :=
  let (s, c) := st
  match tok.splitOn "." with
  | side :: kind :: rest => do
    let isO ← if side == "o" then some true else if side == "r" then some false else none
    let pool := if isO then c.opool else c.rpool
    let node : String → Option (Option Nat) := fun t => do
      let k ← t.toNat?
      pure pool[k]?
    match kind, rest with
    | "P", [v, p] => do
      let v ← node v; let p ← node p
      pure (match v, p with
        | some v, some p => (step s (.setParent v (some p)), c)
        | _, _ => (s, c))
    | "D", [v] => do
      let v ← node v
      pure (match v with | some v => (step s (.setParent v none), c) | none => (s, c))
    | "X", [v] => do
      let v ← node v
      pure (match v with | some v => (step s (.delChildren v), c) | none => (s, c))
    | "A", [v, k, x] => do
      let v ← node v; let k ← unhex k; let x ← parseVal x
      pure (match v with | some v => (step s (.setAttr v k x), c) | none => (s, c))
    | "N", [v, nm] => do
      let v ← node v; let nm ← unhex nm
      pure (match v with | some v => (step s (.setName v nm), c) | none => (s, c))
    | "G", [v, nm] => do
      -- `Node(nm, parent=v)`: the new node joins the pool of its side when the attachment succeeds
      let v ← node v; let nm ← unhex nm
      pure (match v with
        | none => (s, c)
        | some v =>
          let s' := grow s v nm
          let id := s.n
          if s'.parentOf id == some v then
            (s', if isO then { c with opool := c.opool ++ [id] } else { c with rpool := c.rpool ++ [id] })
          else (s, c))
    | _, _ => none
  | _ => none

def runHist (s : Store) (c : Ctx) (hist : String) : Option (Store × Ctx) :=
  if hist == "-" then some (s, c) else (hist.splitOn ";").foldlM applyTok (s, c)

def errName : Helper.Err → String
  | .notFound => "NotFoundError"
  | .valueError => "ValueError"
  | _ => "rej"

def handle (toks : List String) : String :=
  let r : Option String := do
    let fn ← kv toks "fn"
    -- DAG functions are monitored by the model-free oracle only (the store models trees)
    if fn == "dag" then return "ok dag"
    if fn == "oracle" then return "ok oracle"
    let start ← (← kv toks "start").toNat?
    let tsep ← unhex (← kv toks "tsep")
    let hist ← kv toks "hist"
    let (_, rest) := splitAtTok toks "T"
    let (t, _) ← parseTree rest
    let s0 := storeOf t
    let n0 := s0.n
    let origIds := List.range n0
    let call : Option (Except Helper.Err (Store × Option Nat)) :=
      match fn with
      | "reader" => some (.ok (s0, none))
      | "copy" => let c := deepCopy s0 start; some (.ok (c.1, some c.2))
      | "clone" => let c := cloneA s0 start; some (.ok (c.1, some c.2))
      | "subtree" => do
        let q ← unhex (← kv toks "q")
        let md ← (← kv toks "md").toNat?
        pure ((getSubtreeA tsep s0 start q md).map fun x => (x.1, some x.2))
      | "prune" => do
        let md ← (← kv toks "md").toNat?
        let sep ← unhex (← kv toks "sep")
        let exact ← match (← kv toks "exact") with | "0" => some false | "1" => some true | _ => none
        let paths ← parseStrs (← kv toks "paths")
        pure ((pruneA tsep s0 start paths exact sep md).map fun x => (x.1, some x.2))
      | _ => none
    match ← call with
    | .error e =>
      let (s2, c) ← runHist s0 ⟨origIds, []⟩ hist
      pure ("err:" ++ errName e ++ " orig=" ++ showCells c s2 c.opool)
    | .ok (s1, ret) =>
      let res : List Nat := match ret with
        | none => []
        | some w => treeIds (toTree s1 s1.n (rootOf s1 s1.n w))
      let c0 : Ctx := ⟨origIds, res⟩
      let (s2, c) ← runHist s1 c0 hist
      pure ("ok ret=" ++ (match ret with | none => "-" | some w => c0.ref w)
        ++ " orig=" ++ showCells c s2 c.opool ++ " res=" ++ showCells c s2 c.rpool)
  r.getD "bad-op"
end Drv.C07
