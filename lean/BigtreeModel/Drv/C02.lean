import BigtreeModel.Proto
import BigtreeModel.Drv.C01
/-! Driver handler for property C02: dispatches on `cls=`.  `base|node` histories are the C01
histories (outcome and whole store after every call). -/
namespace Drv.C02
def handle (toks : List String) : String :=
  match Proto.kv toks "cls" with
  | some "base" | some "node" => Drv.C01.handle toks
  | _ => "bad-op"
end Drv.C02
