import BigtreeModel.Proto
/-! Driver handler for property C02: one case (token list) in, one canonical line out. -/
namespace Drv.C02
def handle (_toks : List String) : String := "unimplemented"
end Drv.C02
