import BigtreeModel.Proto
import BigtreeModel.Drv.C01
import BigtreeModel.Drv.C10
import BigtreeModel.Drv.C11
/-! Driver handler for property C02: dispatches on `cls=`.  `base|node` histories are the C01
histories, `binary` the C11 histories, `dag` the C10 histories (outcome and whole store after
every call). -/
namespace Drv.C02
def handle (toks : List String) : String :=
  match Proto.kv toks "cls" with
  | some "base" | some "node" => Drv.C01.handle toks
  | some "binary" => Drv.C11.handle toks
  | some "dag" => Drv.C10.handle toks
  | _ => "bad-op"
end Drv.C02
