import BigtreeModel.Proto
import BigtreeModel.Query
/-! Driver handler for property C12 (derived node queries).

* `props node=<id> (T <tree> | B <btree>) [(T <tree> | B <btree>)]` →
  `anc=… desc=… leaves=… sib=… ls=… rs=… path=… root=… isroot=… isleaf=… depth=… maxdepth=… diam=…`
  (node lists as ids, `-` for the empty list / `None`);
* `goto from=<id> to=<id> (T <tree> | B <btree>) [(T <tree> | B <btree>)]` → `ok <ids>` or `rej`
  (ids are distinct over both trees; each end point is looked up in the tree that contains it).
-/
namespace Drv.C12
open Proto Query

/-- address of the node with the given id (driver glue: ids are pre-order indices, hence unique) -/
def locate (R : Tree) (i : Nat) : Option Addr :=
  (subtreeLocs R []).find? fun a => idAt R a == some i

def findB (i : Nat) : BTree → Option BTree
  | .nil => none
  | .node j n a l r =>
    if i == j then some (.node j n a l r)
    else match findB i l with
      | some b => some b
      | none => findB i r

def ids (R : Tree) (l : List Addr) : Option String := do
  let xs ← l.mapM (idAt R)
  pure (showNats xs)

def optId (R : Tree) : Option Addr → Option String
  | none => some "-"
  | some a => (idAt R a).map toString

def bool (b : Bool) : String := if b then "1" else "0"

/-- parse `T <tree>` or `B <btree>`; a binary tree is also returned in its generic view -/
def parseAny : List String → Option (Tree × Option BTree × List String)
  | "T" :: rest => do
    let (t, r) ← parseTree rest
    pure (t, none, r)
  | "B" :: rest => do
    let (b, r) ← parseBTree rest
    match b.toTrees with
    | [t] => pure (t, some b, r)
    | _ => none
  | _ => none

def dropToTree (toks : List String) : List String :=
  toks.dropWhile fun t => t ≠ "T" && t ≠ "B"

def props (R : Tree) (bt : Option BTree) (i : Nat) : Option String := do
  let a ← locate R i
  let isleaf ← match bt with
    | none => some (isLeaf R a)
    | some b => (findB i b).map isLeafB
  let diam ← match bt with
    | none => some (diameterAt R a)
    | some b => (findB i b).map diameterB
  pure (" ".intercalate [
    "anc=" ++ (← ids R (ancestors a)),
    "desc=" ++ (← ids R (descendants R a)),
    "leaves=" ++ (← ids R (leaves R a)),
    "sib=" ++ (← ids R (siblings R a)),
    "ls=" ++ (← optId R (leftSibling R a)),
    "rs=" ++ (← optId R (rightSibling R a)),
    "path=" ++ (← ids R (nodePath a)),
    "root=" ++ (← optId R (some (root a))),
    "isroot=" ++ bool (isRoot a),
    "isleaf=" ++ bool isleaf,
    "depth=" ++ toString (depth a),
    "maxdepth=" ++ toString (maxDepth R a),
    "diam=" ++ toString diam])

def handle (toks : List String) : String :=
  let r : Option String :=
    match toks with
    | "props" :: rest => do
      let i ← (← kv rest "node").toNat?
      let (R, bt, tail) ← parseAny (dropToTree rest)
      if tail.isEmpty then props R bt i
      else
        -- a second tree on the line: the node lives in one of the two
        let (R2, bt2, tail2) ← parseAny tail
        if !tail2.isEmpty then none
        else if (locate R i).isSome then props R bt i else props R2 bt2 i
    | "goto" :: rest => do
      let i ← (← kv rest "from").toNat?
      let j ← (← kv rest "to").toNat?
      let (R1, _, tail) ← parseAny (dropToTree rest)
      let trees ← if tail.isEmpty then some [R1] else do
        let (R2, _, tail2) ← parseAny tail
        if !tail2.isEmpty then none else some [R1, R2]
      let find (k : Nat) : Option Loc := trees.findSome? fun R => (locate R k).map fun a => ⟨R, a⟩
      let u ← find i
      let v ← find j
      match goTo u v with
      | none => pure "rej"
      | some p => do
        -- after the root check both nodes live in `u.tree`
        pure ("ok " ++ (← ids u.tree p))
    | _ => none
  r.getD "bad-op"

end Drv.C12
