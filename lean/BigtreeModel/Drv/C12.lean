import BigtreeModel.Proto
/-! Driver handler for property C12: one case (token list) in, one canonical line out. -/
namespace Drv.C12
def handle (_toks : List String) : String := "unimplemented"
end Drv.C12
