import BigtreeModel.Basic
/-!
# Renderings (bigtree/tree/export.py) and the indentation parser (construct.str_to_tree)

Everything is written over `Str = List Char` (lengths are code points, as Python's `len`).

* vertical: `prune` (get_subtree's `prune_tree(max_depth)`), `visits` (what the loop of
  `yield_tree` reads off each node yielded by `preorder_iter(tree, max_depth)`: relative depth,
  truthiness of `right_sibling`, name), `stepLine`/`yieldLoop` (the loop body with its
  `unclosed_depth` set), `yieldTree`; the specification `specRoot`;
* `strToTreeLines` / `strToTree`: `str_to_tree` with its prefix list, `prefix_length`
  inference and the `cur_parent` walk (ancestor stack);
* horizontal: `HTree` (a tree whose child lists may contain the empty slots of a BinaryNode),
  `padAt`, `center`, `hblock`/`assemble` (`_hprint_branch`), `hyieldTree`, and a decoder
  `hdecode` (used as a *test* by the driver, nothing is proved about it);
* dot: `dotT` (`_recursive_append` with its `name_dict`), ids = label ++ str(index of path);
* mermaid: `mermaidRef` (index paths), `mermaidFlows`.
-/

namespace Render

/-! ## Python string helpers -/

/-- `str.isspace` for one code point (the Unicode White_Space set CPython uses) -/
def pySpace (c : Char) : Bool :=
  let n := c.toNat
  (9 ≤ n && n ≤ 13) || (28 ≤ n && n ≤ 32) || n == 0x85 || n == 0xA0 || n == 0x1680 ||
  (0x2000 ≤ n && n ≤ 0x200A) || n == 0x2028 || n == 0x2029 || n == 0x202F || n == 0x205F ||
  n == 0x3000

/-- `s.lstrip()` -/
def lstrip (s : Str) : Str := s.dropWhile pySpace
/-- `s.rstrip()` -/
def rstrip (s : Str) : Str := (s.reverse.dropWhile pySpace).reverse
/-- `s.rstrip(chars)` / `s.strip(chars)` with an explicit character set -/
def rstripChars (cs : Str) (s : Str) : Str := (s.reverse.dropWhile (cs.contains ·)).reverse
def lstripChars (cs : Str) (s : Str) : Str := s.dropWhile (cs.contains ·)

/-- `s.endswith(t)` -/
def endsWith (s t : Str) : Bool := t.reverse.isPrefixOf s.reverse

/-- `s.index(sub)`: position of the first occurrence, `none` for ValueError -/
def indexOf (sub : Str) : Str → Option Nat
  | [] => if sub.isEmpty then some 0 else none
  | c :: s => if sub.isPrefixOf (c :: s) then some 0 else (indexOf sub s).map (· + 1)

/-- `s.split("\n")` -/
def splitNl : Str → List Str
  | [] => [[]]
  | c :: s =>
    match splitNl s with
    | [] => [[]]            -- unreachable
    | l :: ls => if c == '\n' then [] :: l :: ls else (c :: l) :: ls

/-- `"\n".join(lines)` -/
def joinNl : List Str → Str
  | [] => []
  | [l] => l
  | l :: ls => l ++ '\n' :: joinNl ls

/-- `s.center(w)` (CPython: the odd blank goes left iff both the margin and the width are odd) -/
def center (s : Str) (w : Nat) : Str :=
  if w ≤ s.length then s else
    let marg := w - s.length
    let left := marg / 2 + (marg % 2) * (w % 2)
    List.replicate left ' ' ++ s ++ List.replicate (marg - left) ' '

/-- `str(n)` for a natural number -/
def natStr (n : Nat) : Str := Nat.toDigits 10 n

/-! ## get_subtree: prune_tree(max_depth) -/

mutual
/-- nodes at depth `md` lose their children (`d` = depth of the node, root = 1) -/
def cut (md d : Nat) : Tree → Tree
  | .node i n a cs => .node i n a (if d == md then [] else cutL md (d + 1) cs)
def cutL (md d : Nat) : List Tree → List Tree
  | [] => []
  | c :: cs => cut md d c :: cutL md d cs
end

/-- `if max_depth: tree = prune_tree(tree, max_depth=max_depth)` -/
def prune (md : Nat) (t : Tree) : Tree := if md == 0 then t else cut md 1 t

/-! ## yield_tree -/

structure Style where
  stem : Str
  branch : Str
  stemFinal : Str
  deriving Repr, DecidableEq

/-- `gap_str = " " * len(style_stem)` -/
def Style.gap (st : Style) : Str := List.replicate st.stem.length ' '

/-- the style check of `yield_tree` / `BasePrintStyle.__post_init__` -/
def Style.lengthsOk (st : Style) : Bool :=
  st.stem.length == st.branch.length && st.branch.length == st.stemFinal.length

/-- what the loop reads off one yielded node -/
structure Visit where
  depth : Nat        -- `_node.depth - initial_depth`; the root (`is_root`) is the one with 0
  hasRight : Bool    -- truthiness of `_node.right_sibling`
  name : Str
  deriving Repr, DecidableEq

mutual
/-- `preorder_iter(tree, max_depth=md)` with the three reads; `d` relative depth -/
def visits (md d : Nat) (hasRight : Bool) : Tree → List Visit
  | .node _ n _ cs =>
    if md == 0 || !(decide (d + 1 > md)) then ⟨d, hasRight, n⟩ :: visitsL md (d + 1) cs else []
def visitsL (md d : Nat) : List Tree → List Visit
  | [] => []
  | c :: cs => visits md d (!cs.isEmpty) c ++ visitsL md d cs
end

/-- one output triple of `yield_tree` -/
structure Line where
  pre : Str
  fill : Str
  name : Str
  deriving Repr, DecidableEq

def Line.text (l : Line) : Str := l.pre ++ l.fill ++ l.name

/-- `pre_str`: for `_depth in range(1, node_depth)` -/
def preStr (st : Style) (unclosed : List Nat) (d : Nat) : Str :=
  ((List.range' 1 (d - 1)).map fun j => if unclosed.contains j then st.stem else st.gap).flatten

/-- loop body: new `unclosed_depth`, `pre_str`, `fill_str` -/
def stepLine (st : Style) (unclosed : List Nat) (v : Visit) : List Nat × Str × Str :=
  if v.depth == 0 then (unclosed, [], [])
  else
    let d := v.depth
    let uf : List Nat × Str :=
      if v.hasRight then ((if unclosed.contains d then unclosed else d :: unclosed), st.branch)
      else ((if unclosed.contains d then unclosed.filter (· != d) else unclosed), st.stemFinal)
    (uf.1, preStr st uf.1 d, uf.2)

def yieldLoop (st : Style) : List Nat → List Visit → List Line
  | _, [] => []
  | u, v :: vs =>
    let r := stepLine st u v
    ⟨r.2.1, r.2.2, v.name⟩ :: yieldLoop st r.1 vs

/-- `yield_tree(tree, max_depth=md, style=st)` on a root (or already selected) tree -/
def yieldTree (st : Style) (md : Nat) (t : Tree) : List Line :=
  yieldLoop st [] (visits md 0 false (prune md t))

/-! ### specification of the vertical form -/

def Style.glyph (st : Style) (b : Bool) : Str := if b then st.stem else st.gap
def Style.fill (st : Style) (b : Bool) : Str := if b then st.branch else st.stemFinal

mutual
/-- a non-root node whose proper ancestors below the root have right-sibling flags `anc`
    (outermost first) -/
def specT (st : Style) (anc : List Bool) (hasRight : Bool) : Tree → List Line
  | .node _ n _ cs =>
    ⟨(anc.map st.glyph).flatten, st.fill hasRight, n⟩ :: specL st (anc ++ [hasRight]) cs
def specL (st : Style) (anc : List Bool) : List Tree → List Line
  | [] => []
  | c :: cs => specT st anc (!cs.isEmpty) c ++ specL st anc cs
end

def specRoot (st : Style) : Tree → List Line
  | .node _ n _ cs => ⟨[], [], n⟩ :: specL st [] cs

/-! ## str_to_tree -/

/-- `re.split(p1|p2|…, s)[-1]` for *literal*, non-empty alternatives: leftmost match, first
    alternative first, scanning resumes after the match. `skip` = characters of the current
    match still to be skipped, `last` = text after the end of the last match so far. -/
def reSplitLast (ps : List Str) : Nat → Str → Str → Str
  | _, last, [] => last
  | 0, last, c :: s =>
    match ps.find? (fun p => !p.isEmpty && p.isPrefixOf (c :: s)) with
    | some p => reSplitLast ps (p.length - 1) ((c :: s).drop p.length) s
    | none => reSplitLast ps 0 last s
  | k + 1, last, _ :: s => reSplitLast ps k last s

/-- the `node_name` of one line -/
def nodeName (prefixes : List Str) (line : Str) : Str :=
  if prefixes.isEmpty then lstrip (line.filter fun c => c.toNat < 128)
  else lstrip (reSplitLast prefixes 0 line line)

/-- a node under construction: name and the children attached so far -/
structure Frame where
  name : Str
  kids : List Tree
  deriving Repr

def Frame.close (f : Frame) : Tree := .node 0 f.name [] f.kids
def Frame.attach (p f : Frame) : Frame := { p with kids := p.kids ++ [f.close] }

/-- `while cur_parent.depth > q: cur_parent = cur_parent.parent`; the stack holds the chain
    root … cur_parent (top first), so `cur_parent.depth` = its length; `none` when the walk
    falls off the root (AttributeError). Fuel = stack length. -/
def popWhile (q : Nat) : Nat → List Frame → Option (List Frame)
  | 0, st => some st
  | fuel + 1, st =>
    match st with
    | [] => none
    | [f] => if 1 > q then none else some [f]
    | f :: p :: rest =>
      if rest.length + 2 > q then popWhile q fuel (p.attach f :: rest) else some (f :: p :: rest)

/-- collapse the chain at the end -/
def closeAll : Nat → List Frame → Option Tree
  | 0, _ => none
  | fuel + 1, st =>
    match st with
    | [] => none
    | [f] => some f.close
    | f :: p :: rest => closeAll fuel (p.attach f :: rest)

structure PState where
  prefixLen : Option Nat
  stack : List Frame

/-- body of `for node_str in tree_list[1:]`; `none` = any exception -/
def strStep (prefixes : List Str) (s : PState) (line : Str) : Option PState := do
  let name := nodeName prefixes line
  let pl ← match s.prefixLen with
    | some p => some p
    | none => do
      let i ← indexOf name line
      if i == 0 then none else some i
  let npl ← indexOf name line
  if npl % pl != 0 then none
  let stack ← popWhile (npl / pl) s.stack.length s.stack
  -- node_type(node_name): empty names are refused; `.parent = cur_parent`: duplicate sibling refused
  if name.isEmpty then none
  match stack with
  | [] => none
  | top :: _ =>
    if (top.kids.map Tree.name).contains name then none
    pure { prefixLen := some pl, stack := { name := name, kids := [] } :: stack }

def strLoop (prefixes : List Str) : PState → List Str → Option PState
  | s, [] => some s
  | s, l :: ls => (strStep prefixes s l).bind fun s' => strLoop prefixes s' ls

/-- `str_to_tree` after `tree_string.strip("\n").split("\n")` -/
def strToTreeLines (prefixes : List Str) : List Str → Option Tree
  | [] => none
  | root :: rest =>
    if root.isEmpty then none else
    (strLoop prefixes { prefixLen := none, stack := [{ name := root, kids := [] }] } rest).bind
      fun s => closeAll s.stack.length s.stack

/-- `str_to_tree(tree_string, tree_prefix_list)` (prefixes literal) -/
def strToTree (prefixes : List Str) (s : Str) : Option Tree :=
  let s' := rstripChars ['\n'] (lstripChars ['\n'] s)
  if s'.isEmpty then none else strToTreeLines prefixes (splitNl s')

/-- identities and attributes forgotten (what a fresh `Node(name)` tree carries) -/
def erase : Tree → Tree
  | .node _ n _ cs => .node 0 n [] (eraseL cs)
where eraseL : List Tree → List Tree
  | [] => []
  | c :: cs => erase c :: eraseL cs

/-! ## find_path (node_name_or_path of get_subtree) -/

mutual
/-- pre-order list of (path_name, subtree); `ppath` = path_name of the parent ("" above the root) -/
def pathsT (sep : Str) (ppath : Str) : Tree → List (Str × Tree)
  | .node i n a cs => (ppath ++ sep ++ n, .node i n a cs) :: pathsL sep (ppath ++ sep ++ n) cs
def pathsL (sep : Str) (ppath : Str) : List Tree → List (Str × Tree)
  | [] => []
  | c :: cs => pathsT sep ppath c ++ pathsL sep ppath cs
end

/-- `find_path(tree, path_name)`: `some none` = no match, `none` = SearchError (more than one) -/
def findPath (sep : Str) (ppath : Str) (t : Tree) (pathName : Str) : Option (Option Tree) :=
  let p := rstripChars sep pathName
  match (pathsT sep ppath t).filter (fun x => endsWith x.1 p) with
  | [] => some none
  | [x] => some (some x.2)
  | _ => none

/-- `get_subtree(tree, node_name_or_path, max_depth)` before the prune: `none` = exception -/
def selectSub (sep ppath : Str) (t : Tree) (nameOrPath : Str) : Option Tree :=
  if nameOrPath.isEmpty then some t
  else match findPath sep ppath t nameOrPath with
    | some (some s) => some s
    | _ => none

/-! ## hyield_tree -/

/-- a tree whose child lists may contain empty slots (BinaryNode) -/
inductive HTree where
  | hole
  | node (name : Str) (children : List HTree)
  deriving Repr, Inhabited

namespace HTree
def isReal : HTree → Bool
  | hole => false
  | node _ _ => true

mutual
def decEq : (a b : HTree) → Decidable (a = b)
  | hole, hole => isTrue rfl
  | hole, node _ _ => isFalse (by intro e; cases e)
  | node _ _, hole => isFalse (by intro e; cases e)
  | node n cs, node m ds =>
    if h1 : n = m then
      match decEqList cs ds with
      | isTrue h2 => isTrue (by subst h1 h2; rfl)
      | isFalse h2 => isFalse (by intro e; cases e; exact h2 rfl)
    else isFalse (by intro e; cases e; exact h1 rfl)
def decEqList : (a b : List HTree) → Decidable (a = b)
  | [], [] => isTrue rfl
  | [], _ :: _ => isFalse (by intro e; cases e)
  | _ :: _, [] => isFalse (by intro e; cases e)
  | x :: xs, y :: ys =>
    match decEq x y with
    | isTrue h1 =>
      match decEqList xs ys with
      | isTrue h2 => isTrue (by subst h1 h2; rfl)
      | isFalse h2 => isFalse (by intro e; cases e; exact h2 rfl)
    | isFalse h1 => isFalse (by intro e; cases e; exact h1 rfl)
end
instance : DecidableEq HTree := decEq
end HTree

/-- a `Node` tree has no empty slots -/
def ofTree : Tree → HTree
  | .node _ n _ cs => .node n (ofTreeL cs)
where ofTreeL : List Tree → List HTree
  | [] => []
  | c :: cs => ofTree c :: ofTreeL cs

/-- a `BinaryNode` tree: always two slots -/
def ofBTree : BTree → HTree
  | .nil => .hole
  | .node _ n _ l r => .node n [ofBTree l, ofBTree r]

mutual
/-- prune_tree(max_depth) on the slot form (`del children` empties both slots) -/
def hcut (md d : Nat) : HTree → HTree
  | .hole => .hole
  | .node n cs => .node n (if d == md then cs.map (fun _ => HTree.hole) else hcutL md (d + 1) cs)
def hcutL (md d : Nat) : List HTree → List HTree
  | [] => []
  | c :: cs => hcut md d c :: hcutL md d cs
end

def hprune (md : Nat) (t : HTree) : HTree := if md == 0 then t else hcut md 1 t

/-- `max(len(name))` over the nodes at relative depth `k` (0 when there is none) -/
def padAt : HTree → Nat → Nat
  | .hole, _ => 0
  | .node n _, 0 => n.length
  | .node _ cs, k + 1 => padAtL cs k
where padAtL : List HTree → Nat → Nat
  | [], _ => 0
  | c :: cs, k => max (padAt c k) (padAtL cs k)

structure HStyle where
  firstChild : Char
  subsequentChild : Char
  splitBranch : Char
  middleChild : Char
  lastChild : Char
  stem : Char
  branch : Char
  deriving Repr, DecidableEq

/-- `[0] + list(accumulate(nrow))` -/
def accum : Nat → List Nat → List Nat
  | a, [] => [a]
  | a, n :: ns => a :: accum (a + n) ns

/-- everything after the recursive calls of `_hprint_branch`: `parts` = per child (rows, branch index) -/
def assemble (S : HStyle) (nodeStr : Str) (parts : List (List Str × Nat)) : List Str × Nat :=
  let padding : Str := List.replicate nodeStr.length ' '
  let result : List Str := parts.flatMap (·.1)
  let nrow : List Nat := parts.map (·.1.length)
  let idxs : List Nat := parts.map (·.2)
  let total := nrow.sum
  let first := idxs.headD 0
  let last := total + idxs.getLastD 0 - nrow.getLastD 0
  let end_ := total - 1
  let mid := (first + last) / 2
  let sp : Str := padding ++ [' ']
  let stemRow : Str := padding ++ [S.stem]
  match parts with
  | [] => ([], 0)   -- not reached: `_hprint_branch` returns early for a node without children
  | [_] =>
    let pre := List.replicate first sp ++ [nodeStr ++ [S.branch]] ++ List.replicate (end_ - last) sp
    (List.zipWith (· ++ ·) pre result, mid)
  | [_, _] =>
    -- "Create gap if two children occupy two rows" (the `assert len(result) == 2` holds, see C18.h_gap_assert)
    let g : List Str × Nat × Nat × Nat :=
      if last - first == 1 then
        (match result with
         | [a, b] => [a, [], b]
         | r => r,
         first + 2, first + 2, (first + 2 - first) / 2)
      else (result, last, end_, mid)
    let result := g.1
    let last := g.2.1
    let end_ := g.2.2.1
    let mid := g.2.2.2
    let pre := List.replicate first sp ++ [padding ++ [S.firstChild]]
      ++ List.replicate (mid - first - 1) stemRow ++ [nodeStr ++ [S.splitBranch]]
      ++ List.replicate (last - mid - 1) stemRow ++ [padding ++ [S.lastChild]]
      ++ List.replicate (end_ - last) sp
    (List.zipWith (· ++ ·) pre result, mid)
  | _ =>
    let branchIdxs := List.zipWith (· + ·) idxs (accum 0 nrow)
    let nStems := List.zipWith (fun a b => b - a - 1) branchIdxs branchIdxs.tail
    let pre := List.replicate first sp ++ [padding ++ [S.firstChild]]
      ++ (nStems.dropLast.flatMap fun n => List.replicate n stemRow ++ [padding ++ [S.subsequentChild]])
      ++ List.replicate (nStems.getLastD 0) stemRow ++ [padding ++ [S.lastChild]]
      ++ List.replicate (end_ - last) sp
    let pre := pre.set mid (nodeStr ++ [S.splitBranch])
    let pre := if branchIdxs.contains mid then pre.set mid (nodeStr ++ [S.middleChild]) else pre
    (List.zipWith (· ++ ·) pre result, mid)

mutual
/-- `_hprint_branch(_node, _cur_depth)`; `pad d` = `padding_depths[d]` -/
def hblock (S : HStyle) (inter : Bool) (pad : Nat → Nat) (d : Nat) : HTree → List Str × Nat
  | .hole => ([S.branch :: ' ' :: rstrip (center [' ', ' '] (pad d))], 0)
  | .node n cs =>
    let centered := center n (pad d)
    if !(cs.any HTree.isReal) then ([S.branch :: ' ' :: rstrip centered], 0)
    else
      let nodeStr : Str :=
        if inter then S.branch :: ' ' :: centered ++ [' ', S.branch] else [S.branch, S.branch, S.branch]
      assemble S nodeStr (hblockL S inter pad (d + 1) cs)
def hblockL (S : HStyle) (inter : Bool) (pad : Nat → Nat) (d : Nat) : List HTree → List (List Str × Nat)
  | [] => []
  | c :: cs => hblock S inter pad d c :: hblockL S inter pad d cs
end

/-- `padding_depths` (a defaultdict(int): 0 everywhere unless `intermediate_node_name`) -/
def padOf (inter : Bool) (t : HTree) (d : Nat) : Nat := if inter && d ≥ 1 then padAt t (d - 1) else 0

/-- `hyield_tree(tree, max_depth=md, intermediate_node_name=inter, style=S)` -/
def hyieldTree (S : HStyle) (inter : Bool) (md : Nat) (t : HTree) : List Str :=
  let t' := hprune md t
  (hblock S inter (padOf inter t') 1 t').1

/-! ### a decoder for the horizontal form (driver-side test only) -/

def charAt (rows : List Str) (r c : Nat) : Option Char := (rows.getD r [])[c]?

/-- rows above/below `r` (exclusive) in column `k` while the glyph is a stem or a
    subsequent-child connector; returns the row of the terminating glyph `stop` -/
def scanCol (S : HStyle) (rows : List Str) (k : Nat) (stop : Char) (up : Bool) : Nat → Nat → Option Nat
  | 0, _ => none
  | fuel + 1, r =>
    if up && r == 0 then none else
    let r' := if up then r - 1 else r + 1
    match charAt rows r' k with
    | none => none
    | some ch =>
      if ch == stop then some r'
      else if ch == S.stem || ch == S.subsequentChild then scanCol S rows k stop up fuel r'
      else none

/-- decode the node whose branch glyph sits at (row `r`, column `c`) -/
def decodeNode (S : HStyle) (rows : List Str) : Nat → Nat → Nat → Option HTree
  | 0, _, _ => none
  | fuel + 1, r, c =>
    let row := (rows.getD r []).drop c
    match row with
    | b :: rest =>
      if b != S.branch then none else
      -- internal node without name: "───" ++ connector
      let (name, afterName) : Str × Str :=
        match rest with
        | ' ' :: rest' =>
          let r1 := rest'.dropWhile (· == ' ')
          (r1.takeWhile (· != ' '), (r1.dropWhile (· != ' ')).dropWhile (· == ' '))
        | b2 :: b3 :: rest' => if b2 == S.branch && b3 == S.branch then ([], b3 :: rest') else ([], [])
        | _ => ([], [])
      match afterName with
      | [] => some (.node name [])
      | b' :: conn :: _ =>
        if b' != S.branch then none else
        let k := (rows.getD r []).length - afterName.length + 1
        if conn == S.branch then
          -- single child on the same row
          (decodeNode S rows fuel r (k + 1)).map fun ch => .node name [ch]
        else do
          let top ← scanCol S rows k S.firstChild true rows.length r
          let bot ← scanCol S rows k S.lastChild false rows.length r
          let childRows := (List.range' top (bot - top + 1)).filter fun r' =>
            charAt rows r' (k + 1) == some S.branch
          let kids ← childRows.mapM fun r' => decodeNode S rows fuel r' (k + 1)
          pure (.node name kids)
      | _ => none
    | [] => none

/-- decode a whole horizontal rendering: the root is the row with the branch glyph in column 0 -/
def hdecode (S : HStyle) (rows : List Str) : Option HTree :=
  match (List.range rows.length).filter fun r => charAt rows r 0 == some S.branch with
  | [r] => decodeNode S rows ((rows.map List.length).foldl max 0 + 1) r 0
  | _ => none

/-- what the decoder can recover: holes and (without intermediate names) inner names are blank -/
def hExpected (inter : Bool) : HTree → HTree
  | .hole => .node [] []
  | .node n cs =>
    if !(cs.any HTree.isReal) then .node (rstrip n) []
    else .node (if inter then n else []) (hExpectedL inter cs)
where hExpectedL (inter : Bool) : List HTree → List HTree
  | [] => []
  | c :: cs => hExpected inter c :: hExpectedL inter cs

/-! ## tree_to_dot -/

abbrev NameDict := List (Str × List Str)

def NameDict.get (nd : NameDict) (k : Str) : List Str := (nd.lookup k).getD []
def NameDict.put (nd : NameDict) (k : Str) (v : List Str) : NameDict :=
  if nd.any (·.1 == k) then nd.map (fun e => if e.1 == k then (k, v) else e) else nd ++ [(k, v)]

structure DotOut where
  dict : NameDict
  vertices : List (Str × Str)   -- (id, label) in creation order
  edges : List (Str × Str)      -- (parent id, child id) in creation order

mutual
/-- `_recursive_append(parent_name, child_node)`; `ppath` = the parent's path_name -/
def dotT (sep : Str) (nd : NameDict) (parent : Option Str) (ppath : Str) : Tree → DotOut
  | .node _ n _ cs =>
    let path := ppath ++ sep ++ n
    let lst := nd.get n
    let lst' := if lst.contains path then lst else lst ++ [path]
    let nd' := nd.put n lst'
    let cid := n ++ natStr (lst'.idxOf path)
    let sub := dotL sep nd' cid path cs
    { dict := sub.dict, vertices := (cid, n) :: sub.vertices,
      edges := (match parent with | some p => [(p, cid)] | none => []) ++ sub.edges }
def dotL (sep : Str) (nd : NameDict) (parent : Str) (ppath : Str) : List Tree → DotOut
  | [] => { dict := nd, vertices := [], edges := [] }
  | c :: cs =>
    let a := dotT sep nd (some parent) ppath c
    let b := dotL sep a.dict parent ppath cs
    { dict := b.dict, vertices := a.vertices ++ b.vertices, edges := a.edges ++ b.edges }
end

/-- `tree_to_dot(tree)`: vertex ids in pre-order -/
def dotIds (sep : Str) (t : Tree) : List Str := (dotT sep [] none [] t).vertices.map (·.1)
def dotVertices (sep : Str) (t : Tree) : List (Str × Str) := (dotT sep [] none [] t).vertices
def dotEdges (sep : Str) (t : Tree) : List (Str × Str) := (dotT sep [] none [] t).edges

/-! ## pre-order indices and links (shared by the dot and mermaid statements) -/

mutual
/-- parent–child links as pairs of pre-order indices; `i` = index of this node -/
def linksT (i : Nat) : Tree → List (Nat × Nat)
  | .node _ _ _ cs => linksL i (i + 1) cs
def linksL (p i : Nat) : List Tree → List (Nat × Nat)
  | [] => []
  | c :: cs => (p, i) :: (linksT i c ++ linksL p (i + c.size) cs)
end

mutual
def namesT : Tree → List Str
  | .node _ n _ cs => n :: namesL cs
def namesL : List Tree → List Str
  | [] => []
  | c :: cs => namesT c ++ namesL cs
end

/-! ## tree_to_mermaid -/

/-- `mermaid_name`: "0" for the root, parent's ++ "-" ++ str(index) below -/
def mermaidRef : List Nat → Str
  | [] => ['0']
  | k :: rest => mermaidRef rest ++ '-' :: natStr k      -- address stored innermost index first

mutual
/-- refs in pre-order; `addr` innermost first -/
def mermaidIdsT (addr : List Nat) : Tree → List Str
  | .node _ _ _ cs => mermaidRef addr :: mermaidIdsL addr 0 cs
def mermaidIdsL (addr : List Nat) (k : Nat) : List Tree → List Str
  | [] => []
  | c :: cs => mermaidIdsT (k :: addr) c ++ mermaidIdsL addr (k + 1) cs
end

def mermaidIds (t : Tree) : List Str := mermaidIdsT [] t

/-- one flow line -/
structure Flow where
  fromRef : Str
  fromLabel : Option Str     -- only the root carries its label on the from-side
  toRef : Str
  toLabel : Str
  deriving Repr, DecidableEq

/-- default node shape `("{label}")`, default arrow `-->` -/
def shape (label : Str) : Str := ['(', '"'] ++ label ++ ['"', ')']

def Flow.text (f : Flow) : Str :=
  f.fromRef ++ (match f.fromLabel with | some l => shape l | none => []) ++ " --> ".toList
    ++ f.toRef ++ shape f.toLabel

mutual
/-- flow lines in the order `yield_tree` visits the non-root nodes; `addr` = address of the parent -/
def flowsL (paddr : List Nat) (pIsRoot : Bool) (pname : Str) (k : Nat) : List Tree → List Flow
  | [] => []
  | c :: cs => flowsT paddr pIsRoot pname k c ++ flowsL paddr pIsRoot pname (k + 1) cs
def flowsT (paddr : List Nat) (pIsRoot : Bool) (pname : Str) (k : Nat) : Tree → List Flow
  | .node _ n _ cs =>
    { fromRef := mermaidRef paddr, fromLabel := if pIsRoot then some pname else none,
      toRef := mermaidRef (k :: paddr), toLabel := n } :: flowsL (k :: paddr) false n 0 cs
end

/-- `tree_to_mermaid(tree, max_depth=md)`: the flow lines -/
def mermaidFlows (md : Nat) (t : Tree) : List Flow :=
  match prune md t with
  | .node _ n _ cs => flowsL [] true n 0 cs

/-! ## specification-side vocabulary used by the C18 theorems -/

mutual
/-- relative depths in pre-order -/
def depthsT (d : Nat) : Tree → List Nat
  | .node _ _ _ cs => d :: depthsL (d + 1) cs
def depthsL (d : Nat) : List Tree → List Nat
  | [] => []
  | c :: cs => depthsT d c ++ depthsL d cs
end

/-- no two children of one node carry the same name (what `Node` enforces) -/
def sibDistinct : Tree → Bool
  | .node _ _ _ cs => decide ((cs.map Tree.name).Nodup) && sibDistinctL cs
where sibDistinctL : List Tree → Bool
  | [] => true
  | c :: cs => sibDistinct c && sibDistinctL cs

/-- the name does not end in a decimal digit -/
def noDigitEnd (n : Str) : Bool :=
  match n.getLast? with
  | some c => !c.isDigit
  | none => true

/-- side conditions on a vertical style under which `str_to_tree` reads the text back:
    equal positive lengths, the two connectors differ, and no window of the indentation
    (a block of stems/gaps, possibly running into the next block or the connector) equals a connector -/
def styleOk (st : Style) : Bool :=
  st.lengthsOk && decide (0 < st.stem.length) && decide (st.branch ≠ st.stemFinal) &&
  [st.stem, st.gap].all fun X =>
    [st.stem, st.gap, st.branch, st.stemFinal].all fun Y =>
      (List.range st.stem.length).all fun o =>
        !([st.branch, st.stemFinal].contains (X.drop o ++ Y.take o))

/-- `p in s` (substring test) -/
def hasInfix (p : Str) : Str → Bool
  | [] => p.isPrefixOf []
  | c :: s => p.isPrefixOf (c :: s) || hasInfix p s

/-- side conditions on a name: non-empty, first character neither blank nor one of the style's
    glyph characters, and neither connector occurs inside the name -/
def nameOk (st : Style) (n : Str) : Bool :=
  match n with
  | [] => false
  | c :: _ =>
    !pySpace c && !((st.stem ++ st.branch ++ st.stemFinal ++ [' ']).contains c) &&
    !hasInfix st.branch n && !hasInfix st.stemFinal n

/-- width of one column band: `len(node_str) + 1` -/
def bandWidth (inter : Bool) (pad : Nat → Nat) (d : Nat) : Nat := if inter then pad d + 5 else 4

/-- column at which the nodes of depth `e` start inside a block whose root has depth `d` -/
def hcol (inter : Bool) (pad : Nat → Nat) (d : Nat) : Nat → Nat
  | 0 => 0
  | k + 1 => hcol inter pad d k + bandWidth inter pad (d + k)

/-- what a node shows at its place: leaves `─ name`, inner nodes `─ name ─` / `───` -/
def hlabel (S : HStyle) (inter : Bool) (pad : Nat → Nat) (d : Nat) (name : Str) (isLeaf : Bool) : Str :=
  if isLeaf then S.branch :: ' ' :: rstrip (center name (pad d))
  else if inter then S.branch :: ' ' :: center name (pad d) ++ [' ', S.branch]
  else [S.branch, S.branch, S.branch]

structure Placed where
  depth : Nat
  row : Nat
  isLeaf : Bool
  name : Str
  deriving Repr, DecidableEq

/-- does `_hprint_branch` insert the blank row between two one-row children -/
def gapInserted (parts : List (List Str × Nat)) : Bool :=
  match parts with
  | [a, b] => a.1.length + b.2 - a.2 == 1
  | _ => false

mutual
/-- where each node (pre-order; empty slots count as blank leaves) is placed: depth and row,
    `off` = first row of the block -/
def hplace (S : HStyle) (inter : Bool) (pad : Nat → Nat) (d off : Nat) : HTree → List Placed
  | .hole => [⟨d, off, true, [' ', ' ']⟩]
  | .node n cs =>
    if !(cs.any HTree.isReal) then [⟨d, off, true, n⟩]
    else
      ⟨d, off + (hblock S inter pad d (.node n cs)).2, false, n⟩ ::
        hplaceL S inter pad (d + 1) off (gapInserted (hblockL S inter pad (d + 1) cs)) cs
def hplaceL (S : HStyle) (inter : Bool) (pad : Nat → Nat) (d off : Nat) (gap : Bool) : List HTree → List Placed
  | [] => []
  | c :: cs =>
    hplace S inter pad d off c ++
      hplaceL S inter pad d (off + (hblock S inter pad d c).1.length + (if gap then 1 else 0)) gap cs
end

/-- side conditions on a horizontal style under which the connector runs of neighbouring
    blocks can be told apart (fails for the built-in "ascii" style: K4) -/
def hstyleOk (S : HStyle) : Bool :=
  S.firstChild != S.stem && S.firstChild != S.subsequentChild &&
  S.lastChild != S.stem && S.lastChild != S.subsequentChild &&
  S.branch != ' ' && S.stem != ' ' && S.firstChild != S.lastChild &&
  S.splitBranch != S.branch && S.middleChild != S.branch

/-- names the horizontal decoder can read back: non-empty, no white space -/
def hnameOk (n : Str) : Bool := !n.isEmpty && n.all fun c => !pySpace c

def hnamesOk : HTree → Bool
  | .hole => true
  | .node n cs => hnameOk n && hnamesOkL cs
where hnamesOkL : List HTree → Bool
  | [] => true
  | c :: cs => hnamesOk c && hnamesOkL cs

end Render
