import BigtreeModel.Basic
import BigtreeModel.Helper
/-!
# `get_tree_diff` (bigtree/tree/helper.py, after fix D6) on Model B

The function is modelled at the level it works on: two lists of rows (path string, name, listed
attribute values) in pre-order → outer merge on `[PATH, name]` with indicator → `_add_suffix`
per path component → attribute comparison → kept rows → `dataframe_to_tree` (path insertion) →
`add_dict_to_tree_by_path` for the carried value pairs and the ` (~)` renames.
String helpers, `Err`, `walk` come from `Helper.lean`.

The executable model is cut into named stages (`rowsOf`, `outerJoin`, `markedRows`, `attrDiffs`,
`keptRows`, `rebuild`, `renames`, `applyUpdates`, assembled in `treeDiff`) so that the proofs
(`BigtreeProofs/Lemmas/Diff*.lean`) can describe each stage separately. `sortedDesc` is a
structurally recursive insertion sort with de-duplication (`sorted(…, reverse=True)` + dict keys).
-/

namespace Helper

def sufRemoved : Str := [' ', '(', '-', ')']
def sufAdded : Str := [' ', '(', '+', ')']
def sufChanged : Str := [' ', '(', '~', ')']

/-- `node.get_attr(k)` -/
def getAttr (a : Attrs) (k : Str) : Val := (a.lookup k).getD .null

/-- a row of `tree_to_dataframe(tree, name_col, path_col, attr_dict={k: k for k in attr_list})` -/
structure DRow where
  path : Str
  name : Str
  vals : List Val
  deriving Repr

/-- `tree_to_dataframe(tree, name_col, path_col, attr_dict=…)`: one row per node of the
    pre-order walk (`path_name`, `name`, the listed attributes) -/
def rowsOf (sep : Str) (attrList : List Str) (t : Tree) : List DRow :=
  (walk [] [] t).map fun v => ⟨pathName sep v.names, v.sub.name, attrList.map (getAttr v.sub.attrs)⟩

inductive Ind where
  | left | right | both
  deriving DecidableEq, Repr

/-- a row of the outer merge on `[PATH, name]` with indicator -/
structure MRow where
  path : Str
  name : Str
  ind : Ind
  xs : List Val
  ys : List Val
  deriving Repr

def sameKey (r q : DRow) : Bool := r.path == q.path && r.name == q.name

/-- outer merge (keys are unique on each side; the row order of the result is pandas' business:
    here left rows first, then the right-only rows) -/
def outerJoin (nAttr : Nat) (r1 r2 : List DRow) : List MRow :=
  (r1.map fun r =>
    match r2.find? (sameKey r) with
    | some q => ⟨r.path, r.name, .both, r.vals, q.vals⟩
    | none => ⟨r.path, r.name, .left, r.vals, List.replicate nAttr .null⟩)
  ++ ((r2.filter fun q => !(r1.any fun r => sameKey r q)).map fun q =>
    ⟨q.path, q.name, .right, List.replicate nAttr .null, q.vals⟩)

/-- the component loop of `_add_suffix`: `idx` runs from 1; `pl` = `path_list` -/
def addSuffixList (sep : Str) (removed added : List Str) (pl : List Str) : List Str :=
  (List.range pl.length).map fun idx =>
    let c := pl.getD idx []
    if idx = 0 then c
    else
      let sub := join sep (pl.take (idx + 1))
      if removed.contains sub then c ++ sufRemoved
      else if added.contains sub then c ++ sufAdded
      else c

/-- `_add_suffix(path)` -/
def addSuffix (sep : Str) (removed added : List Str) (path : Str) : Str :=
  join sep (addSuffixList sep removed added (split sep path))

/-- what `add_path_to_tree` does to the node it ends on -/
inductive Upd where
  | nothing
  | pair (k : Str) (x y : Val)   -- `set_attrs({k: (x, y)})`, stored as two consecutive entries
  | name (s : Str)               -- `set_attrs({"name": s})`
  deriving Repr

def setPair (a : Attrs) (k : Str) (x y : Val) : Attrs :=
  (a.filter fun kv => kv.1 != k) ++ [(k, x), (k, y)]

def applyUpd (u : Upd) : Tree → Tree
  | .node i n av cs =>
    match u with
    | .nothing => .node i n av cs
    | .pair k x y => .node i n (setPair av k x y) cs
    | .name s => .node i s av cs

/-- a freshly created chain of nodes `c / rest…`, the last one receiving the update -/
def chain (u : Upd) (c : Str) : List Str → Tree
  | [] => applyUpd u (.node 0 c [] [])
  | c' :: rest => .node 0 c [] [chain u c' rest]

mutual
/-- the descent of `add_path_to_tree(…, duplicate_name_allowed=True)` below the root:
    `find_child_by_name` (two children with the name ⇒ `SearchError`), create the missing
    child as last child, update the final node -/
def ins (u : Upd) : List Str → Tree → Except Err Tree
  | [], t => .ok (applyUpd u t)
  | c :: rest, .node i n av cs =>
    if (cs.filter fun t => t.name == c).length > 1 then .error .searchError
    else if cs.any fun t => t.name == c then (insL u c rest cs).map (.node i n av ·)
    else .ok (.node i n av (cs ++ [chain u c rest]))
def insL (u : Upd) (c : Str) (rest : List Str) : List Tree → Except Err (List Tree)
  | [] => .ok []
  | t :: ts =>
    if t.name == c then (ins u rest t).map (· :: ts)
    else (insL u c rest ts).map (t :: ·)
end

/-- `add_path_to_tree(root, path, sep, node_attrs)`: strip, split, root check, descent -/
def addPath (sep : Str) (u : Upd) (root : Tree) (path : Str) : Except Err Tree :=
  if path.isEmpty then .error .valueError else
  match split sep (strip sep path) with
  | [] => .error .valueError
  | r :: rest => if r != root.name then .error .treeError else ins u rest root

/-- `dataframe_to_tree(data_both[[PATH]], sep)` -/
def rebuild (sep : Str) (paths : List Str) : Except Err Tree :=
  let ps := paths.map (strip sep)
  match ps with
  | [] => .error .valueError
  | p0 :: _ =>
    let rootName := (split sep p0).headD []
    ps.foldlM (fun t p => addPath sep .nothing t p) (.node 0 rootName [] [])

/-- rows whose attribute number `j` differs: `(~x.isnull() | ~y.isnull()) & (x != y) & both` -/
def attrDiffRows (j : Nat) (m : List MRow) : List MRow :=
  m.filter fun r =>
    let x := r.xs.getD j .null
    let y := r.ys.getD j .null
    (x != .null || y != .null) && x != y && r.ind == .both

/-- `a < b` on strings: lexicographic on code points -/
def strLt : Str → Str → Bool
  | _, [] => false
  | [], _ :: _ => true
  | a :: as, b :: bs => decide (a < b) || (a == b && strLt as bs)

/-- insertion into a strictly descending list; an element already present is dropped -/
def insDesc (x : Str) : List Str → List Str
  | [] => [x]
  | y :: ys => if strLt y x then x :: y :: ys else if x == y then y :: ys else y :: insDesc x ys

/-- `sorted(paths, reverse=True)` followed by the dict comprehension (one entry per key):
    the distinct paths in descending order -/
def sortedDesc (ps : List Str) : List Str := ps.foldr insDesc []

/-- the merged frame: outer merge of the two exports, then `_add_suffix` on every path -/
def markedRows (sep : Str) (attrList : List Str) (t1 t2 : Tree) : List MRow :=
  let both := outerJoin attrList.length (rowsOf sep attrList t1) (rowsOf sep attrList t2)
  let removed := (both.filter fun r => r.ind == .left).map (·.path)
  let added := (both.filter fun r => r.ind == .right).map (·.path)
  both.map fun r => { r with path := addSuffix sep removed added r.path }

/-- attribute differences, one dictionary per attribute that has any (`path_changes_list_of_dict`) -/
def attrDiffs (attrList : List Str) (both : List MRow) : List (List (Str × Upd)) :=
  (attrList.zipIdx.map fun (k, j) =>
    (attrDiffRows j both).map fun r => (r.path, Upd.pair k (r.xs.getD j .null) (r.ys.getD j .null))).filter
    fun d => !d.isEmpty

/-- the rows that go into `dataframe_to_tree` -/
def keptRows (onlyDiff : Bool) (deque : List Str) (both : List MRow) : List MRow :=
  if onlyDiff then both.filter fun r => r.ind != .both || deque.contains r.path else both

/-- the ` (~)` renames, in `sorted(…, reverse=True)` order of the paths -/
def renames (sep : Str) (deque : List Str) : List (Str × Upd) :=
  (sortedDesc deque).map fun k => (k, Upd.name ((split sep k).getLastD [] ++ sufChanged))

/-- `add_dict_to_tree_by_path` for a list of (path, update) -/
def applyUpdates (sep : Str) (us : List (Str × Upd)) (t : Tree) : Except Err Tree :=
  us.foldlM (fun t (pu : Str × Upd) => addPath sep pu.2 t pu.1) t

/-- `get_tree_diff(tree, other_tree, only_diff, attr_list)` for two root trees, `sep = tree.sep`
    (the function first writes `other_tree.sep = tree.sep`) -/
def treeDiff (sep : Str) (t1 t2 : Tree) (onlyDiff : Bool) (attrList : List Str) :
    Except Err (Option Tree) :=
  let both := markedRows sep attrList t1 t2
  let diffs := attrDiffs attrList both
  let deque : List Str := diffs.flatMap fun d => d.map (·.1)
  let kept := keptRows onlyDiff deque both
  if kept.isEmpty then .ok none else
  match rebuild sep (kept.map (·.path)) with
  | .error e => .error e
  | .ok t =>
    if deque.isEmpty then .ok (some t) else
    match applyUpdates sep (diffs.flatten ++ renames sep deque) t with
    | .error e => .error e
    | .ok t => .ok (some t)

/-! ## specification side of get_tree_diff (component level) -/

/-- (names from the root, attributes) of every node, pre-order -/
def compRows (t : Tree) : List (List Str × Attrs) := (walk [] [] t).map fun v => (v.names, v.sub.attrs)
def compPaths (t : Tree) : List (List Str) := (walk [] [] t).map (·.names)
def attrsAt (t : Tree) (p : List Str) : Option Attrs := (compRows t).lookup p

/-- listed attributes whose values differ, with both values -/
def changedAttrs (attrList : List Str) (a1 a2 : Attrs) : List (Str × Val × Val) :=
  attrList.filterMap fun k =>
    if getAttr a1 k = getAttr a2 k then none else some (k, getAttr a1 k, getAttr a2 k)

inductive Status where
  | removed | added | changed | same
  deriving DecidableEq, Repr

def status (attrList : List Str) (t1 t2 : Tree) (p : List Str) : Status :=
  match attrsAt t1 p, attrsAt t2 p with
  | some a1, some a2 => if changedAttrs attrList a1 a2 = [] then .same else .changed
  | some _, none => .removed
  | none, some _ => .added
  | none, none => .same

def Status.suffix : Status → Str
  | .removed => sufRemoved
  | .added => sufAdded
  | .changed => sufChanged
  | .same => []

/-- every component gets the suffix of the status of the prefix ending there -/
def markFull (st : List Str → Status) (p : List Str) : List Str :=
  (List.range p.length).map fun i => p.getD i [] ++ (st (p.take (i + 1))).suffix

def allPaths (t1 t2 : Tree) : List (List Str) :=
  compPaths t1 ++ (compPaths t2).filter fun p => !(compPaths t1).contains p

def keptPaths (attrList : List Str) (t1 t2 : Tree) (onlyDiff : Bool) : List (List Str) :=
  if onlyDiff then
    (allPaths t1 t2).filter fun p =>
      (allPaths t1 t2).any fun q => status attrList t1 t2 q != .same && p.isPrefixOf q
  else allPaths t1 t2

/-- the value pairs a changed node carries (pair = two consecutive entries) -/
def carried (attrList : List Str) (t1 t2 : Tree) (p : List Str) : Attrs :=
  match attrsAt t1 p, attrsAt t2 p with
  | some a1, some a2 => (changedAttrs attrList a1 a2).flatMap fun kxy => [(kxy.1, kxy.2.1), (kxy.1, kxy.2.2)]
  | _, _ => []

def expected (attrList : List Str) (t1 t2 : Tree) (onlyDiff : Bool) : List (List Str × Attrs) :=
  (keptPaths attrList t1 t2 onlyDiff).map fun p => (markFull (status attrList t1 t2) p, carried attrList t1 t2 p)

def endsWithMark (n : Str) : Prop := sufRemoved <:+ n ∨ sufAdded <:+ n ∨ sufChanged <:+ n

/-- strip one mark from a component -/
def unmark1 (n : Str) : Str :=
  if sufRemoved.isSuffixOf n || sufAdded.isSuffixOf n || sufChanged.isSuffixOf n then n.take (n.length - 4) else n
def unmark (m : List Str) : List Str := m.map unmark1

structure NamesOK (c : Char) (t : Tree) : Prop where
  nonempty : ∀ v ∈ walk [] [] t, v.sub.name ≠ []
  nosep : ∀ v ∈ walk [] [] t, c ∉ v.sub.name
  nomark : ∀ v ∈ walk [] [] t, ¬ endsWithMark v.sub.name
  sibUnique : ∀ v ∈ walk [] [] t, (v.sub.children.map Tree.name).Nodup

structure DiffOK (c : Char) (t1 t2 : Tree) : Prop where
  sepOK : c ∉ [' ', '(', ')', '-', '+', '~']
  ok1 : NamesOK c t1
  ok2 : NamesOK c t2
  root : t1.name = t2.name
end Helper
