/-!
# Basic types shared by every model

* `Str` — strings are `List Char` (no dependence on `String` internals in any theorem).
* `Val`, `Attrs` — attribute values the models know about.
* `Tree` — immutable ordered rose tree; `id` stands for the Python object's identity.
* `BTree` — binary tree with empty slots (BinaryNode).
-/

abbrev Str := List Char

inductive Val where
  | null
  | int (i : Int)
  | str (s : Str)
  | bool (b : Bool)
  deriving DecidableEq, Repr, Inhabited

abbrev Attrs := List (Str × Val)

inductive Tree where
  | node (id : Nat) (name : Str) (attrs : Attrs) (children : List Tree)
  deriving Repr, Inhabited

namespace Tree

def id : Tree → Nat | node i _ _ _ => i
def name : Tree → Str | node _ n _ _ => n
def attrs : Tree → Attrs | node _ _ a _ => a
def children : Tree → List Tree | node _ _ _ cs => cs

@[simp] theorem id_node (i n a cs) : (node i n a cs).id = i := rfl
@[simp] theorem name_node (i n a cs) : (node i n a cs).name = n := rfl
@[simp] theorem attrs_node (i n a cs) : (node i n a cs).attrs = a := rfl
@[simp] theorem children_node (i n a cs) : (node i n a cs).children = cs := rfl

/-- Induction principle for rose trees (the children hypothesis is by membership). -/
theorem ind {P : Tree → Prop}
    (h : ∀ i n a cs, (∀ c ∈ cs, P c) → P (node i n a cs)) : ∀ t, P t
  | node i n a cs => h i n a cs (fun c _ => ind h c)

mutual
def decEq : (a b : Tree) → Decidable (a = b)
  | node i n a cs, node j m b ds =>
    if h1 : i = j then
      if h2 : n = m then
        if h3 : a = b then
          match decEqList cs ds with
          | isTrue h4 => isTrue (by subst h1 h2 h3 h4; rfl)
          | isFalse h4 => isFalse (by intro e; cases e; exact h4 rfl)
        else isFalse (by intro e; cases e; exact h3 rfl)
      else isFalse (by intro e; cases e; exact h2 rfl)
    else isFalse (by intro e; cases e; exact h1 rfl)
def decEqList : (a b : List Tree) → Decidable (a = b)
  | [], [] => isTrue rfl
  | [], _ :: _ => isFalse (by intro e; cases e)
  | _ :: _, [] => isFalse (by intro e; cases e)
  | x :: xs, y :: ys =>
    match decEq x y with
    | isTrue h1 =>
      match decEqList xs ys with
      | isTrue h2 => isTrue (by subst h1 h2; rfl)
      | isFalse h2 => isFalse (by intro e; cases e; exact h2 rfl)
    | isFalse h1 => isFalse (by intro e; cases e; exact h1 rfl)
end

instance : DecidableEq Tree := decEq

/-- number of nodes -/
def size : Tree → Nat
  | node _ _ _ cs => 1 + sizeL cs
where sizeL : List Tree → Nat
  | [] => 0
  | c :: cs => size c + sizeL cs

end Tree

/-- Binary tree with empty slots: the shape of a `BinaryNode` tree. -/
inductive BTree where
  | nil
  | node (id : Nat) (name : Str) (attrs : Attrs) (left right : BTree)
  deriving Repr, Inhabited, DecidableEq
