import BigtreeModel.Basic
/-!
# Strings as `List Char`: the string operations the path constructors use

Mirrors the Python `str` methods that `add_path_to_tree` and friends call:

* `lstrip(chars)` / `rstrip(chars)` strip a *set of characters* (so a multi-character `sep`
  strips any of its characters, exactly as CPython does);
* `split(sep)` with a non-empty, possibly multi-character separator: leftmost, non-overlapping;
* `sep.join(parts)`.

(Self-contained on purpose: C03's model has its own string helpers.)
-/

namespace Str

/-- `s.lstrip(chars)` -/
def lstrip (chars : Str) : Str → Str
  | [] => []
  | c :: cs => if chars.contains c then lstrip chars cs else c :: cs

/-- `s.rstrip(chars)` -/
def rstrip (chars : Str) (s : Str) : Str := (lstrip chars s.reverse).reverse

/-- `s.lstrip(chars).rstrip(chars)` -/
def strip (chars : Str) (s : Str) : Str := rstrip chars (lstrip chars s)

/-- `sep.join(parts)` -/
def join (sep : Str) : List Str → Str
  | [] => []
  | [a] => a
  | a :: b :: rest => a ++ sep ++ join sep (b :: rest)

/-- scanning loop of `s.split(sep)`; `cur` is the current piece, reversed.
    Fuel = number of characters still to look at (+1). -/
def splitGo (sep : Str) : Nat → Str → Str → List Str
  | 0, _, cur => [cur.reverse]
  | _ + 1, [], cur => [cur.reverse]
  | f + 1, c :: cs, cur =>
    if sep.isPrefixOf (c :: cs) then cur.reverse :: splitGo sep f ((c :: cs).drop sep.length) []
    else splitGo sep f cs (c :: cur)

/-- `s.split(sep)` for a non-empty `sep` (Python raises `ValueError` on an empty one; callers
    in the model never pass it) -/
def split (sep : Str) (s : Str) : List Str := splitGo sep (s.length + 1) s []

/-- split on one character, structurally (used by the theorems; `split [c] = splitC c`) -/
def splitC (c : Char) : Str → List Str
  | [] => [[]]
  | x :: xs =>
    if x = c then [] :: splitC c xs
    else match splitC c xs with
      | [] => [[x]]          -- unreachable: `splitC` never returns `[]`
      | p :: ps => (x :: p) :: ps

/-- all non-empty prefixes of a list, shortest first (`branch[:1]`, `branch[:2]`, …) -/
def prefixes {α} : List α → List (List α)
  | [] => []
  | a :: as => [a] :: (prefixes as).map (a :: ·)

end Str
