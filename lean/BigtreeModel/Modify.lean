import BigtreeModel.Basic
/-!
# `bigtree.tree.modify`: `copy_or_shift_logic` and `replace_logic`

Model B (immutable rose trees carrying the Python object identity in `Tree.id`).

* A *reference to a node* of the destination tree is its list of node names below the root
  (`[]` = the root). This is a faithful handle because `Node` keeps sibling names unique
  (property C03: the path identifies the node); child lookup by name is "first match".
  A from-node that left the tree together with an overridden destination is represented by the
  subtree value captured when it was looked up (Python still holds the object).
* Deep copies get fresh ids from the counter `St.next` (every id in the trees is `< next`).
* `src = some s` is the tree-to-tree form (`to_tree` given). The five public functions always
  copy in that form; the model only reads `src`.
* Strings are `List Char`; `rstrip/lstrip` are character-set strips, `split/replace` work on
  substrings exactly as `str.split(sep)`, `str.replace(old, new)` for non-empty `sep`/`old`.
* Exceptions are modelled by kind (`Err`); the state an exception leaves behind is not modelled.

The model is a transcription of the independent reference used at design time
(`design-notes/probes/single_pair_reference.py`), with the string handling and the loop over
pairs added.
-/

namespace Modify

/-! ## strings -/

def stripL (set : Str) (s : Str) : Str := s.dropWhile (fun c => set.contains c)
def stripR (set : Str) (s : Str) : Str := (stripL set s.reverse).reverse

/-- `s.split(sep)` (non-empty `sep`): `k` is the number of characters of a separator occurrence
still to be skipped, `acc` the reversed current piece. -/
def splitGo (sep : Str) : Str → Nat → Str → List Str
  | [], _, acc => [acc.reverse]
  | _ :: cs, k + 1, acc => splitGo sep cs k acc
  | c :: cs, 0, acc =>
    if sep ≠ [] ∧ sep.isPrefixOf (c :: cs) then acc.reverse :: splitGo sep cs (sep.length - 1) []
    else splitGo sep cs 0 (c :: acc)

def splitOn (sep s : Str) : List Str := splitGo sep s 0 []

/-- `s.replace(old, new)` (non-empty `old`) -/
def replaceGo (old new : Str) : Str → Nat → Str
  | [], _ => []
  | _ :: cs, k + 1 => replaceGo old new cs k
  | c :: cs, 0 =>
    if old ≠ [] ∧ old.isPrefixOf (c :: cs) then new ++ replaceGo old new cs (old.length - 1)
    else c :: replaceGo old new cs 0

def replace (old new s : Str) : Str := replaceGo old new s 0

/-- `sep.join(parts)` -/
def join (sep : Str) : List Str → Str
  | [] => []
  | [p] => p
  | p :: ps => p ++ sep ++ join sep ps

/-- `path.split(sep)[-1]` -/
def lastComp (sep s : Str) : Str := ((splitOn sep s).getLast?).getD []
/-- `path.lstrip(sep).split(sep)[0]` -/
def headComp (sep s : Str) : Str := ((splitOn sep (stripL sep s)).head?).getD []

/-- `Node.path_name` of the node whose names from the root are `names` -/
def pathName (sep : Str) (names : List Str) : Str := sep ++ join sep names

/-! ## trees addressed by names -/

def setKids (cs : List Tree) : Tree → Tree
  | .node i n a _ => .node i n a cs
def appendKid (c : Tree) : Tree → Tree
  | .node i n a cs => .node i n a (cs ++ [c])

/-- `find_child_by_name` (sibling names are unique: first match) -/
def findChild (nm : Str) (cs : List Tree) : Option Tree := cs.find? (fun c => c.name == nm)

def eraseChild (nm : Str) : List Tree → List Tree
  | [] => []
  | c :: cs => if c.name == nm then cs else c :: eraseChild nm cs

def mapChild (nm : Str) (f : Tree → Tree) : List Tree → List Tree
  | [] => []
  | c :: cs => if c.name == nm then f c :: cs else c :: mapChild nm f cs

/-- the node reached from `t` by following child names -/
def getRel : List Str → Tree → Option Tree
  | [], t => some t
  | n :: ns, t => (findChild n t.children).bind (getRel ns)

/-- apply `f` to the node at a relative path (nothing happens when there is no such node) -/
def modifyAt : List Str → (Tree → Tree) → Tree → Tree
  | [], f, t => f t
  | n :: ns, f, .node i nm a cs => .node i nm a (mapChild n (modifyAt ns f) cs)

/-- `node.parent = None` for the node at a relative path; for the root this is a no-op -/
def removeAt : List Str → Tree → Tree
  | [], t => t
  | [n], .node i nm a cs => .node i nm a (eraseChild n cs)
  | n :: m :: ns, .node i nm a cs => .node i nm a (mapChild n (removeAt (m :: ns)) cs)

/-- handle of `node.parent` (`none` for the root) -/
def parentOf (p : List Str) : Option (List Str) := if p = [] then none else some p.dropLast

mutual
/-- pre-order list of all nodes with their relative paths -/
def nodesRel : Tree → List (List Str × Tree)
  | .node i n a cs => ([], .node i n a cs) :: nodesRelL cs
def nodesRelL : List Tree → List (List Str × Tree)
  | [] => []
  | c :: cs => (nodesRel c).map (fun pr => (c.name :: pr.1, pr.2)) ++ nodesRelL cs
end

/-- `node.leaves` (pre-order) with paths relative to `node` -/
def leavesRel (t : Tree) : List (List Str × Tree) :=
  (nodesRel t).filter (fun pr => pr.2.children.isEmpty)

mutual
/-- `copy.deepcopy`: same shape, names, attributes; fresh ids `k, k+1, …` in pre-order -/
def relabel : Nat → Tree → Tree × Nat
  | k, .node _ n a cs =>
    let r := relabelL (k + 1) cs
    (.node k n a r.1, r.2)
def relabelL : Nat → List Tree → List Tree × Nat
  | k, [] => ([], k)
  | k, c :: cs =>
    let r1 := relabel k c
    let r2 := relabelL r1.2 cs
    (r1.1 :: r2.1, r2.2)
end

/-! ## errors, configuration, state -/

inductive Err where
  | value      -- ValueError
  | notFound   -- NotFoundError
  | tree       -- TreeError (exactly that class)
  | search     -- SearchError
  | other      -- anything else (LoopError, AttributeError, …)
  deriving DecidableEq, Repr, Inhabited

structure Cfg where
  sep : Str            -- `sep` argument
  fsep : Str           -- `tree.sep`
  tsep : Str           -- `to_tree.sep`
  copy : Bool
  skippable : Bool
  overriding : Bool
  mergeChildren : Bool
  mergeLeaves : Bool
  deleteChildren : Bool
  withFullPath : Bool
  deriving DecidableEq, Repr, Inhabited

structure St where
  src : Option Tree    -- `tree` when `to_tree` is another tree
  dst : Tree           -- `to_tree` (= `tree` when `src = none`)
  next : Nat           -- fresh-id counter
  deriving DecidableEq, Repr, Inhabited

/-- the tree in which from-paths are looked up -/
def St.tree (st : St) : Tree := st.src.getD st.dst

/-! ## search -/

/-- `find_full_path(tree, path)`; the handle returned is the list of names below the root -/
def findFullPath (sep : Str) (t : Tree) (path : Str) : Except Err (Option (List Str × Tree)) :=
  match splitOn sep (stripL sep (stripR sep path)) with
  | [] => .error .value
  | r :: rest =>
    if r ≠ t.name then .error .value
    else .ok ((getRel rest t).map (fun x => (rest, x)))

/-- `find_path(tree, path)`: unique node whose `path_name` ends with the string -/
def findPath (sep : Str) (t : Tree) (path : Str) : Except Err (Option (List Str × Tree)) :=
  let q := stripR sep path
  match (nodesRel t).filter (fun pr => q.isSuffixOf (pathName sep (t.name :: pr.1))) with
  | [] => .ok none
  | [m] => .ok (some m)
  | _ => .error .search

/-! ## `add_path_to_tree` (default options) -/

/-- the "Grow tree" loop: follow existing children, create missing ones with fresh ids -/
def grow : List Str → Nat → Tree → Except Err (Tree × Nat)
  | [], k, t => .ok (t, k)
  | n :: ns, k, .node i nm a cs =>
    match findChild n cs with
    | some c =>
      match grow ns k c with
      | .ok r => .ok (.node i nm a (mapChild n (fun _ => r.1) cs), r.2)
      | .error e => .error e
    | none =>
      if n = [] then .error .tree            -- `Node("")` refuses an empty name
      else
        match grow ns (k + 1) (.node k n [] []) with
        | .ok r => .ok (.node i nm a (cs ++ [r.1]), r.2)
        | .error e => .error e

/-- `add_path_to_tree(tree, path, sep)`: new tree, new counter, handle of the returned node -/
def addPath (sep : Str) (t : Tree) (k : Nat) (path : Str) : Except Err (Tree × Nat × List Str) :=
  if path = [] then .error .value else
  match splitOn sep (stripR sep (stripL sep path)) with
  | [] => .error .value
  | r :: rest =>
    if r ≠ t.name then .error .tree
    else match grow rest k t with
      | .ok x => .ok (x.1, x.2, rest)
      | .error e => .error e

/-! ## one (from, to) pair of `copy_or_shift_logic` -/

/-- outcome of the to-node decision tree -/
structure Dest where
  dst : Tree
  next : Nat
  parent : Option (List Str)   -- `to_node` (`none` = `None`)
  mc : Bool                    -- the per-pair `_merge_children`
  deriving DecidableEq, Repr

def resolveFrom (cfg : Cfg) (st : St) (f : Str) : Except Err (Option (List Str × Tree)) :=
  if cfg.withFullPath then findFullPath cfg.fsep st.tree f else findPath cfg.fsep st.tree f

/-- "To node found": same node / merge children / merge leaves / overriding -/
def decideExisting (cfg : Cfg) (st : St) (fp dp : List Str) : Except Err Dest :=
  if st.src.isNone && fp == dp then                 -- from_node == to_node
    if cfg.mergeChildren then .ok ⟨removeAt dp st.dst, st.next, parentOf dp, true⟩
    else if cfg.mergeLeaves then .ok ⟨st.dst, st.next, parentOf dp, false⟩
    else .error .tree
  else if cfg.mergeChildren then
    if !cfg.overriding then .ok ⟨st.dst, st.next, some dp, true⟩
    else .ok ⟨removeAt dp st.dst, st.next, parentOf dp, false⟩
  else if cfg.mergeLeaves then
    if !cfg.overriding then .ok ⟨st.dst, st.next, some dp, false⟩
    else .ok ⟨modifyAt dp (setKids []) st.dst, st.next, some dp, false⟩
  else
    if !cfg.overriding then .error .tree
    else .ok ⟨removeAt dp st.dst, st.next, parentOf dp, false⟩

/-- "To node not found": create the parent path -/
def decideMissing (cfg : Cfg) (st : St) (tp : Str) : Except Err Dest :=
  match addPath cfg.tsep st.dst st.next (join cfg.tsep (splitOn cfg.tsep tp).dropLast) with
  | .error e => .error e
  | .ok x => .ok ⟨x.1, x.2.1, some x.2.2, cfg.mergeChildren⟩

def decideTo (cfg : Cfg) (st : St) (fp : List Str) (toPath : Option Str) : Except Err Dest :=
  match toPath with
  | none => .ok ⟨st.dst, st.next, none, cfg.mergeChildren⟩
  | some tp =>
    if tp = [] then .ok ⟨st.dst, st.next, none, cfg.mergeChildren⟩ else
    match findFullPath cfg.tsep st.dst tp with
    | .error e => .error e
    | .ok (some (dp, _)) => decideExisting cfg st fp dp
    | .ok none => decideMissing cfg st tp

/-- `c.parent = P` for a node `c` that is not (or no longer) a child anywhere in the tree:
duplicate-name check of `Node`, then append as last child -/
def attachOne (pp : List Str) (c : Tree) (t : Tree) : Except Err Tree :=
  match getRel pp t with
  | none => .error .other
  | some P =>
    if P.children.any (fun x => x.name == c.name) then .error .tree
    else .ok (modifyAt pp (appendKid c) t)

def attachAll (pp : List Str) : List Tree → Tree → Except Err Tree
  | [], t => .ok t
  | c :: cs, t =>
    match attachOne pp c t with
    | .error e => .error e
    | .ok t' => attachAll pp cs t'

/-- remove the nodes at the given relative paths one after the other -/
def removeAll : List (List Str) → Tree → Tree
  | [], t => t
  | p :: ps, t => removeAll ps (removeAt p t)

/-- `LoopError` of the parent setter: the object to attach still sits in the tree at `fp` and the
new parent is that node or lies below it -/
def loops (live : Bool) (fp pp : List Str) : Bool := live && fp.isPrefixOf pp

/-- `_merge_children`: the children of `Fc` go under `to_node`, then `from_node.parent = None` -/
def attachChildren (cfg : Cfg) (live : Bool) (fp : List Str) (Fc : Tree) (d : Dest) :
    Except Err Tree :=
  match d.parent with
  | none => .error .other                       -- `to_node.node_name` on `None`
  | some pp =>
    if loops live fp pp then .error .other else
    match attachAll pp (Fc.children.map (fun c => if cfg.deleteChildren then setKids [] c else c))
        d.dst with
    | .error e => .error e
    | .ok t => .ok (if live then removeAt fp t else t)

/-- `merge_leaves`: every leaf of `Fc` goes under `to_node` -/
def attachLeaves (live : Bool) (fp : List Str) (Fc : Tree) (d : Dest) : Except Err Tree :=
  match d.parent with
  | none => .error .other
  | some pp =>
    if loops live fp pp then .error .other else
    if Fc.children.isEmpty then
      attachOne pp Fc (if live then removeAt fp d.dst else d.dst)
    else
      match attachAll pp ((leavesRel Fc).map (·.2)) d.dst with
      | .error e => .error e
      | .ok t => .ok (if live then modifyAt fp (removeAll ((leavesRel Fc).map (·.1))) t else t)

/-- `from_node.parent = to_node` for the (possibly stripped) node `Fm`; `t0` is the tree after
`del from_node.children` -/
def attachNode (live : Bool) (fp : List Str) (Fm : Tree) (t0 : Tree) (parent : Option (List Str)) :
    Except Err Tree :=
  match parent with
  | none => .ok (if live then removeAt fp t0 else t0)
  | some pp =>
    if loops live fp pp then .error .other else
    attachOne pp Fm (if live then removeAt fp t0 else t0)

/-- "Reassign from_node to new parent": copy, then children / leaves / node.
`F0` is the from-node as looked up, `fp` its handle (meaningful when `srcNone`). -/
def attach (cfg : Cfg) (srcNone : Bool) (d : Dest) (fp : List Str) (F0 : Tree) :
    Except Err (Tree × Nat) :=
  let cur := if srcNone then getRel fp d.dst else none
  let F := cur.getD F0
  let live := cur.isSome && !cfg.copy          -- the object to attach still sits in the tree at `fp`
  let Fc := if cfg.copy then relabel d.next F else (F, d.next)
  let r := if d.mc then attachChildren cfg live fp Fc.1 d
           else if cfg.mergeLeaves then attachLeaves live fp Fc.1 d
           else
             -- plain shift / copy: `del from_node.children` when asked, then the parent setter
             attachNode live fp (if cfg.deleteChildren then setKids [] Fc.1 else Fc.1)
               (if live && cfg.deleteChildren then modifyAt fp (setKids []) d.dst else d.dst) d.parent
  match r with
  | .error e => .error e
  | .ok t => .ok (t, Fc.2)

def step (cfg : Cfg) (st : St) (pr : Str × Option Str) : Except Err St :=
  match resolveFrom cfg st pr.1 with
  | .error e => .error e
  | .ok none => if cfg.skippable then .ok st else .error .notFound
  | .ok (some (fp, F)) =>
    match decideTo cfg st fp pr.2 with
    | .error e => .error e
    | .ok d =>
      match attach cfg st.src.isNone d fp F with
      | .error e => .error e
      | .ok r => .ok { st with dst := r.1, next := r.2 }

/-! ## the whole call -/

def normFrom (cfg : Cfg) (p : Str) : Str := replace cfg.sep cfg.fsep (stripR cfg.sep p)
def normTo (cfg : Cfg) : Option Str → Option Str
  | none => none
  | some [] => none
  | some p => some (replace cfg.sep cfg.tsep (stripR cfg.sep p))
def norm (cfg : Cfg) (pr : Str × Option Str) : Str × Option Str := (normFrom cfg pr.1, normTo cfg pr.2)

def isDelete : Option Str → Bool
  | none => true
  | some [] => true
  | _ => false

/-- last components agree (checked when `to_path` is truthy) -/
def nameOk (cfg : Cfg) (pr : Str × Option Str) : Bool :=
  match pr.2 with
  | none => true
  | some [] => true
  | some tp => lastComp cfg.fsep pr.1 == lastComp cfg.tsep tp
def fromRootOk (cfg : Cfg) (rootName : Str) (pr : Str × Option Str) : Bool :=
  headComp cfg.fsep pr.1 == rootName
def toRootOk (cfg : Cfg) (rootName : Str) (pr : Str × Option Str) : Bool :=
  match pr.2 with
  | none => true
  | some [] => true
  | some tp => headComp cfg.tsep tp == rootName

/-- the up-front argument validation of `copy_or_shift_logic` (every failure is a `ValueError`);
`ps` are the raw pairs -/
def valid (cfg : Cfg) (st : St) (ps : List (Str × Option Str)) : Bool :=
  !(cfg.mergeChildren && cfg.mergeLeaves)
  && !(cfg.copy && ps.any (fun pr => isDelete pr.2))
  && (ps.map (norm cfg)).all (nameOk cfg)
  && (!cfg.withFullPath || (ps.map (norm cfg)).all (fromRootOk cfg st.tree.name))
  && (ps.map (norm cfg)).all (toRootOk cfg st.dst.name)

/-- "Perform shifting/copying": the loop over the normalised pairs -/
def loop (cfg : Cfg) : St → List (Str × Option Str) → Except Err St
  | st, [] => .ok st
  | st, pr :: ps =>
    match step cfg st pr with
    | .error e => .error e
    | .ok st' => loop cfg st' ps

/-- `copy_or_shift_logic(tree, from_paths, to_paths, …)` on zipped lists -/
def copyOrShift (cfg : Cfg) (st : St) (ps : List (Str × Option Str)) : Except Err St :=
  if valid cfg st ps then loop cfg st (ps.map (norm cfg)) else .error .value

/-- the list-level entry: lengths must agree -/
def copyOrShiftLists (cfg : Cfg) (st : St) (froms : List Str) (tos : List (Option Str)) :
    Except Err St :=
  if cfg.mergeChildren && cfg.mergeLeaves then .error .value
  else if froms.length ≠ tos.length then .error .value
  else copyOrShift cfg st (froms.zip tos)

/-! ### the loop as it was before `fix:` D4 (flag cleared for the rest of the call) -/

def stepPre (cfg : Cfg) (st : St) (pr : Str × Option Str) : Except Err (St × Cfg) :=
  match resolveFrom cfg st pr.1 with
  | .error e => .error e
  | .ok none => if cfg.skippable then .ok (st, cfg) else .error .notFound
  | .ok (some (fp, F)) =>
    match decideTo cfg st fp pr.2 with
    | .error e => .error e
    | .ok d =>
      match attach cfg st.src.isNone d fp F with
      | .error e => .error e
      | .ok r =>
        -- the pre-fix code assigned `merge_children = False` to the call-wide variable
        -- in the "destination exists, overriding" branch
        let leaked := cfg.mergeChildren && !d.mc
        .ok ({ st with dst := r.1, next := r.2 },
             if leaked then { cfg with mergeChildren := false } else cfg)

def loopPre (cfg : Cfg) : St → List (Str × Option Str) → Except Err St
  | st, [] => .ok st
  | st, pr :: ps =>
    match stepPre cfg st pr with
    | .error e => .error e
    | .ok r => loopPre r.2 r.1 ps

def copyOrShiftPre (cfg : Cfg) (st : St) (ps : List (Str × Option Str)) : Except Err St :=
  if valid cfg st ps then loopPre cfg st (ps.map (norm cfg)) else .error .value

/-! ## `replace_logic` -/

/-- `_node.parent = None; _node.parent = parent` for the child called `nm` of the node at `pp` -/
def reappend (pp : List Str) (nm : Str) (t : Tree) : Tree :=
  modifyAt pp (fun P =>
    match findChild nm P.children with
    | none => P
    | some c => setKids (eraseChild nm P.children ++ [c]) P) t

def reappendAll (pp : List Str) : List Str → Tree → Tree
  | [], t => t
  | n :: ns, t => reappendAll pp ns (reappend pp n t)

/-- names of the siblings that follow the child called `nm` -/
def laterNames (nm : Str) (cs : List Tree) : List Str :=
  ((cs.dropWhile (fun c => !(c.name == nm))).drop 1).map Tree.name

/-- "Replace to_node with from_node": the loop over `to_node_siblings[to_node_idx:]` — detach
`to_node`, attach `from_node` (`Fm`, sitting at `fp` in `t0` when `live0`), re-append the later
siblings; `dp` is the handle of `to_node`, `pp` of its parent -/
def replaceAt (live0 : Bool) (fp dp pp : List Str) (Fm t0 : Tree) : Except Err Tree :=
  let later := laterNames (dp.getLast?.getD []) ((getRel pp t0).map Tree.children |>.getD [])
  let t1 := removeAt dp t0                  -- to_node.parent = None
  let live := live0 && (getRel fp t1).isSome
  if live && fp.isPrefixOf pp then .error .other else   -- LoopError
  match attachOne pp Fm (if live then removeAt fp t1 else t1) with   -- from_node.parent = parent
  | .error e => .error e
  | .ok t2 => .ok (reappendAll pp later t2)

def stepReplace (cfg : Cfg) (st : St) (pr : Str × Option Str) : Except Err St :=
  match resolveFrom cfg st pr.1 with
  | .error e => .error e
  | .ok none => if cfg.skippable then .ok st else .error .notFound
  | .ok (some (fp, F0)) =>
    match pr.2 with
    | none => .error .other                         -- `find_full_path(to_tree, None)`
    | some tp =>
      match findFullPath cfg.tsep st.dst tp with
      | .error e => .error e
      | .ok none => .error .notFound
      | .ok (some (dp, _)) =>
        if st.src.isNone && fp == dp then .error .tree else
        let live0 := st.src.isNone && !cfg.copy
        let Fc := if cfg.copy then relabel st.next F0 else (F0, st.next)
        match parentOf dp with
        | none => .error .other                     -- the root has no parent: `None.children`
        | some pp =>
          match replaceAt live0 fp dp pp (if cfg.deleteChildren then setKids [] Fc.1 else Fc.1)
              (if live0 && cfg.deleteChildren then modifyAt fp (setKids []) st.dst else st.dst) with
          | .error e => .error e
          | .ok t => .ok { st with dst := t, next := Fc.2 }

def validReplace (cfg : Cfg) (st : St) (ps : List (Str × Option Str)) : Bool :=
  (!cfg.withFullPath || (ps.map (norm cfg)).all (fromRootOk cfg st.tree.name))
  && (ps.map (norm cfg)).all (toRootOk cfg st.dst.name)

def loopReplace (cfg : Cfg) : St → List (Str × Option Str) → Except Err St
  | st, [] => .ok st
  | st, pr :: ps =>
    match stepReplace cfg st pr with
    | .error e => .error e
    | .ok st' => loopReplace cfg st' ps

/-- `replace_logic(tree, from_paths, to_paths, …)` on zipped lists -/
def replaceNodes (cfg : Cfg) (st : St) (ps : List (Str × Option Str)) : Except Err St :=
  if validReplace cfg st ps then loopReplace cfg st (ps.map (norm cfg)) else .error .value

def replaceLists (cfg : Cfg) (st : St) (froms : List Str) (tos : List (Option Str)) :
    Except Err St :=
  if froms.length ≠ tos.length then .error .value
  else replaceNodes cfg st (froms.zip tos)

/-! ## specification vocabulary (used by the theorems, not by the driver) -/

/-- what the property observes of one node: path below the root, object identity, attributes -/
abbrev Entry := List Str × Nat × Attrs

/-- the tree as its pre-order list of entries; together with the paths this determines the ordered
tree (shape, sibling order, names), the ids and the attributes -/
def flat (t : Tree) : List Entry := (nodesRel t).map (fun pr => (pr.1, pr.2.id, pr.2.attrs))
def flatL (cs : List Tree) : List Entry := (nodesRelL cs).map (fun pr => (pr.1, pr.2.id, pr.2.attrs))

/-- the path set (paths below the root; `[]` is the root) in pre-order -/
def paths (t : Tree) : List (List Str) := (flat t).map (·.1)
/-- the object identities in the tree -/
def ids (t : Tree) : List Nat := (flat t).map (·.2.1)

/-- `e` lies in the subtree addressed by `p` -/
def under (p : List Str) (e : Entry) : Bool := p.isPrefixOf e.1
/-- re-root an entry of a subtree at `p` -/
def rebase (p : List Str) (e : Entry) : Entry := (p ++ e.1, e.2)

/-- sibling names are unique everywhere (what `Node` maintains) -/
def SibUnique (t : Tree) : Prop := ∀ pr ∈ nodesRel t, (pr.2.children.map Tree.name).Nodup

/-- the path string bigtree prints for a node: `sep + sep.join(names)` -/
def pathStr (c : Char) (root : Str) (p : List Str) : Str := pathName [c] (root :: p)

/-- a usable node name for separator `c`: non-empty and free of `c` -/
def GoodName (c : Char) (n : Str) : Prop := n ≠ [] ∧ c ∉ n

end Modify
