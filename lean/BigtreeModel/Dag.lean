import BigtreeModel.Basic
/-!
# DAGs: `dag_iterator`, closures, `go_to`, exports and constructors
(bigtree/utils/iterators.py `dag_iterator`, bigtree/node/dagnode.py, bigtree/dag/export.py,
bigtree/dag/construct.py)

A DAG is a list of node ids plus ordered adjacency lists (`_DAGNode__parents`,
`_DAGNode__children`) and the user attributes of each node. Node *names* are the ids (the
Python keys its visited set and its node tables by name; names are distinct by hypothesis).
Everything here is written the way the Python is written; the graph-theoretic specifications
(`Reach`, `UReach`, `IsPath`, `edges`) are at the end of each section.
-/

structure Dag where
  nodes : List Nat
  parents : Nat → List Nat
  children : Nat → List Nat
  attrs : Nat → Attrs := fun _ => []

namespace Dag

abbrev Edge := Nat × Nat

/-! ## specification vocabulary -/

/-- all edges, oriented parent → child -/
def edges (g : Dag) : List Edge :=
  g.nodes.flatMap fun p => (g.children p).map fun c => (p, c)

/-- directed reachability in at least one step (along `children`) -/
inductive Reach (g : Dag) : Nat → Nat → Prop
  | edge {a b} : b ∈ g.children a → Reach g a b
  | step {a b c} : b ∈ g.children a → Reach g b c → Reach g a c

/-- undirected reachability (reflexive): weak connectivity -/
inductive UReach (g : Dag) : Nat → Nat → Prop
  | refl (a) : UReach g a a
  | step {a b c} : UReach g a b → (c ∈ g.parents b ∨ c ∈ g.children b) → UReach g a c

/-- a directed path, as the list of its vertices -/
def IsPath (g : Dag) : List Nat → Prop
  | [] => False
  | [_] => True
  | a :: b :: rest => b ∈ g.children a ∧ IsPath g (b :: rest)

/-- `l` is a directed path from `u` to `w` -/
def PathFromTo (g : Dag) (u w : Nat) (l : List Nat) : Prop :=
  g.IsPath l ∧ l.head? = some u ∧ l.getLast? = some w

/-- well-formed: links closed in `nodes`, symmetric, duplicate-free, acyclic
    (what C10 shows the DAGNode setters maintain) -/
structure DWF (g : Dag) : Prop where
  nodup_nodes : g.nodes.Nodup
  par_closed : ∀ v ∈ g.nodes, ∀ p ∈ g.parents v, p ∈ g.nodes ∧ v ∈ g.children p
  chi_closed : ∀ v ∈ g.nodes, ∀ c ∈ g.children v, c ∈ g.nodes ∧ v ∈ g.parents c
  nodup_par : ∀ v ∈ g.nodes, (g.parents v).Nodup
  nodup_chi : ∀ v ∈ g.nodes, (g.children v).Nodup
  acyclic : ∀ x ∈ g.nodes, ¬ g.Reach x x

/-- weakly connected: any two nodes are joined by an undirected path -/
def Connected (g : Dag) : Prop := ∀ u ∈ g.nodes, ∀ w ∈ g.nodes, g.UReach u w

/-! ## `dag_iterator` -/

/-- `visited_nodes` and the pairs yielded so far -/
structure St where
  vis : List Nat
  out : List Edge

/-- the two yielding loops of `_dag_iterator(node)`; `vis` already contains `node` -/
def emit (g : Dag) (v : Nat) (vis : List Nat) : List Edge :=
  ((g.parents v).filter fun p => decide (p ∉ vis)).map (fun p => (p, v)) ++
  ((g.children v).filter fun c => decide (c ∉ vis)).map (fun c => (v, c))

/-- one recursing loop: `for m in ms: if m.name not in visited: yield from rec(m)`;
    the membership test is evaluated when the loop reaches `m` -/
def visitAll (rec : Nat → St → St) : List Nat → St → St
  | [], st => st
  | m :: ms, st => visitAll rec ms (if m ∈ st.vis then st else rec m st)

/-- `_dag_iterator(node)` with fuel -/
def visit (g : Dag) : Nat → Nat → St → St
  | 0, _, st => st
  | f + 1, v, st =>
    let vis := v :: st.vis                                       -- visited_nodes.add(node_name)
    let st0 : St := { vis := vis, out := st.out ++ g.emit v vis } -- loops 1 and 2
    let st1 := visitAll (visit g f) (g.parents v) st0            -- loop 3
    visitAll (visit g f) (g.children v) st1                      -- loop 4

def fuel (g : Dag) : Nat := g.nodes.length + 1

def dagRun (g : Dag) (v : Nat) : St := visit g g.fuel v ⟨[], []⟩

/-- `list(dag_iterator(v))` as (parent, child) pairs -/
def dagIter (g : Dag) (v : Nat) : List Edge := (g.dagRun v).out

/-! ## closures -/

/-- `list(dict.fromkeys(l))`: keep first occurrences -/
def dedup : List Nat → List Nat
  | [] => []
  | x :: xs => x :: (dedup xs).filter (fun y => y != x)

/-- `_recursive_parent(node)` -/
def ancRaw (g : Dag) : Nat → Nat → List Nat
  | 0, _ => []
  | f + 1, v => (g.parents v).flatMap fun p => ancRaw g f p ++ [p]

/-- `DAGNode.ancestors` -/
def ancestors (g : Dag) (v : Nat) : List Nat :=
  if (g.parents v).isEmpty then [] else dedup (g.ancRaw g.nodes.length v)

/-- `preorder_iter(node)` on a DAG (repeats a node once per path) -/
def preRaw (g : Dag) : Nat → Nat → List Nat
  | 0, _ => []
  | f + 1, v => v :: (g.children v).flatMap (preRaw g f)

/-- `DAGNode.descendants` -/
def descendants (g : Dag) (v : Nat) : List Nat :=
  dedup ((g.preRaw g.nodes.length v).filter fun x => x != v)

/-- `DAGNode.siblings` (a tuple, repeats kept) -/
def siblings (g : Dag) (v : Nat) : List Nat :=
  if (g.parents v).isEmpty then []
  else (g.parents v).flatMap fun p => (g.children p).filter fun c => c != v

/-- `_recursive_path(_node, _path)`: returns (`ans`, paths appended to `self.__path` meanwhile) -/
def goRec (g : Dag) (tgt : Nat) : Nat → Nat → List Nat → Option (List Nat) × List (List Nat)
  | 0, _, _ => (none, [])
  | f + 1, cur, path =>
    let path' := path ++ [cur]
    if cur = tgt then (some path', [])
    else (none, (g.children cur).flatMap fun c =>
      let r := goRec g tgt f c path'
      r.2 ++ r.1.toList)

/-- `u.go_to(w)`; `none` = TreeError -/
def goTo (g : Dag) (u w : Nat) : Option (List (List Nat)) :=
  if u = w then some [[u]]
  else if w ∉ g.descendants u then none
  else some (g.goRec w g.fuel u []).2

/-! ## building a `Dag` from an edge sequence (what a history of `c.parents = [p]` /
`p.children = [c]` calls leaves behind: both append to the two lists) -/

def ofEdges (n : Nat) (es : List Edge) (attrs : Nat → Attrs := fun _ => []) : Dag where
  nodes := List.range n
  parents := fun c => (es.filter fun e => e.2 == c).map (·.1)
  children := fun p => (es.filter fun e => e.1 == p).map (·.2)
  attrs := attrs

/-! ## attributes -/

/-- `dict.update` with one key -/
def attrSet : Attrs → Str → Val → Attrs
  | [], k, v => [(k, v)]
  | (k', v') :: rest, k, v => if k' = k then (k', v) :: rest else (k', v') :: attrSet rest k v

def attrUpdate (a b : Attrs) : Attrs := b.foldl (fun acc kv => attrSet acc kv.1 kv.2) a

def strLt : Str → Str → Bool
  | [], [] => false
  | [], _ :: _ => true
  | _ :: _, [] => false
  | a :: as, b :: bs => if a.toNat < b.toNat then true else if a.toNat > b.toNat then false else strLt as bs

def insertByKey (kv : Str × Val) : Attrs → Attrs
  | [] => [kv]
  | x :: xs => if strLt kv.1 x.1 then kv :: x :: xs else x :: insertByKey kv xs

def sortByKey (a : Attrs) : Attrs := a.foldr insertByKey []

/-- which attributes an exporter writes: `all_attrs=True` or `attr_dict` (attribute ↦ key) -/
inductive AttrSel where
  | all
  | pick (m : List (Str × Str))

/-- `describe(exclude_attributes=["name"], exclude_prefix="_")` resp. the `attr_dict` loop,
    as the update applied to the entry under construction -/
def selAttrs (sel : AttrSel) (a : Attrs) : Attrs :=
  match sel with
  | .all => sortByKey (a.filter fun kv => kv.1 != "name".toList && kv.1.head? != some '_')
  | .pick m => m.map fun kv => (kv.2, (a.lookup kv.1).getD .null)

/-! ## exports -/

/-- `dag_to_list` -/
def dagToList (g : Dag) (v : Nat) : List Edge := g.dagIter v

/-- one value of the exported dictionary; `parents = none`: no parent key -/
structure DEntry where
  key : Nat
  parents : Option (List Nat)
  attrs : Attrs
  deriving DecidableEq, Repr

def DEntry.truthy (e : DEntry) : Bool := e.parents.isSome || !e.attrs.isEmpty

/-- `data_dict[k] = e` (insertion order kept; an existing key keeps its position) -/
def dictPut : List DEntry → DEntry → List DEntry
  | [], e => [e]
  | x :: xs, e => if x.key = e.key then e :: xs else x :: dictPut xs e

def dictGet (d : List DEntry) (k : Nat) : Option DEntry := d.find? fun e => e.key == k

/-- body of the `for parent_node, child_node in dag_iterator(dag)` loop of `dag_to_dict`;
    `none` = the Python would raise KeyError (entry without parent key asked to append) -/
def dictStep (g : Dag) (sel : AttrSel) (acc : Option (List DEntry)) (e : Edge) : Option (List DEntry) :=
  acc.bind fun d =>
    let p := e.1
    let c := e.2
    let d1 := if (g.parents p).isEmpty
      then dictPut d { key := p, parents := none, attrs := attrUpdate [] (selAttrs sel (g.attrs p)) }
      else d
    match dictGet d1 c with
    | some ent =>
      if ent.truthy then
        match ent.parents with
        | some ps => some (dictPut d1 { ent with parents := some (ps ++ [p]) })
        | none => none
      else some (dictPut d1 { key := c, parents := some [p], attrs := attrUpdate [] (selAttrs sel (g.attrs c)) })
    | none => some (dictPut d1 { key := c, parents := some [p], attrs := attrUpdate [] (selAttrs sel (g.attrs c)) })

/-- `dag_to_dict` -/
def dagToDict (g : Dag) (sel : AttrSel) (v : Nat) : Option (List DEntry) :=
  (g.dagIter v).foldl (dictStep g sel) (some [])

/-- one DataFrame row -/
structure Row where
  name : Nat
  parent : Option Nat
  attrs : Attrs
  deriving DecidableEq, Repr

/-- rows appended by `dag_to_dataframe` before the frame is built -/
def rawRows (g : Dag) (sel : AttrSel) (v : Nat) : List Row :=
  (g.dagIter v).flatMap fun e =>
    (if (g.parents e.1).isEmpty
      then [{ name := e.1, parent := none, attrs := attrUpdate [] (selAttrs sel (g.attrs e.1)) }]
      else []) ++
    [{ name := e.2, parent := some e.1, attrs := attrUpdate [] (selAttrs sel (g.attrs e.2)) }]

/-- `pd.DataFrame(list of dicts)`: columns = keys in order of first appearance, missing = null -/
def columnsOf (rows : List Row) : List Str :=
  rows.foldl (fun cols r => r.attrs.foldl (fun cs kv => if kv.1 ∈ cs then cs else cs ++ [kv.1]) cols) []

def Row.align (cols : List Str) (r : Row) : Row :=
  { r with attrs := cols.map fun k => (k, (r.attrs.lookup k).getD .null) }

/-- `drop_duplicates()`: keep first occurrences -/
def dropDups : List Row → List Row
  | [] => []
  | r :: rs => r :: (dropDups rs).filter (fun x => x != r)

/-- `dag_to_dataframe` -/
def dagToRows (g : Dag) (sel : AttrSel) (v : Nat) : List Row :=
  let raw := g.rawRows sel v
  dropDups (raw.map (Row.align (columnsOf raw)))

/-! ## constructors -/

inductive Err where
  | tree    -- TreeError (LoopError is a subclass)
  | value   -- ValueError (empty input, no parent anywhere, conflicting attributes)
  deriving DecidableEq, Repr

def empty : Dag := { nodes := [], parents := fun _ => [], children := fun _ => [] }

/-- `node_type(name, **attrs)` entered into `node_dict` (no-op on the table when present) -/
def newNode (g : Dag) (x : Nat) (a : Attrs) : Dag :=
  if x ∈ g.nodes then g
  else { g with nodes := g.nodes ++ [x], attrs := fun i => if i = x then a else g.attrs i }

/-- `node.set_attrs(a)` -/
def setAttrs (g : Dag) (x : Nat) (a : Attrs) : Dag :=
  { g with attrs := fun i => if i = x then attrUpdate (g.attrs x) a else g.attrs i }

/-- `c.parents = [p]`: `__check_parent_loop`, then the appending loop (hooks are no-ops) -/
def setParent (g : Dag) (c p : Nat) : Except Err Dag :=
  if p = c then .error .tree
  else if !(g.ancestors p).isEmpty && c ∈ g.ancestors p then .error .tree
  else if p ∈ g.parents c then .ok g
  else .ok { g with
    parents := fun i => if i = c then g.parents c ++ [p] else g.parents i
    children := fun i => if i = p then g.children p ++ [c] else g.children i }

/-- a constructor's result: the node table as a DAG and the node handed back -/
structure Built where
  dag : Dag
  ret : Option Nat

/-- body of the loop of `list_to_dag` -/
def listStep (acc : Except Err Built) (e : Edge) : Except Err Built :=
  acc.bind fun b =>
    let g1 := newNode b.dag e.1 []
    let g2 := newNode g1 e.2 []
    (setParent g2 e.2 e.1).map fun g3 => { dag := g3, ret := some e.1 }

/-- `list_to_dag` -/
def listToDag (rel : List Edge) : Except Err Built :=
  if rel.isEmpty then .error .value
  else rel.foldl listStep (.ok { dag := empty, ret := none })

/-- inner loop of `dict_to_dag`: `for parent_name in parent_names` -/
def dictParents (c : Nat) (acc : Except Err Built) (p : Nat) : Except Err Built :=
  acc.bind fun b =>
    let g1 := newNode b.dag p []
    (setParent g1 c p).map fun g2 => { dag := g2, ret := some p }

/-- body of the outer loop of `dict_to_dag` -/
def dictEntryStep (acc : Except Err Built) (e : DEntry) : Except Err Built :=
  acc.bind fun b =>
    let g1 := if e.key ∈ b.dag.nodes then setAttrs b.dag e.key e.attrs else newNode b.dag e.key e.attrs
    (e.parents.getD []).foldl (dictParents e.key) (.ok { b with dag := g1 })

/-- `dict_to_dag` -/
def dictToDag (d : List DEntry) : Except Err Built :=
  if d.isEmpty then .error .value
  else (d.foldl dictEntryStep (.ok { dag := empty, ret := none })).bind fun b =>
    if b.ret.isNone then .error .value else .ok b

def nonNull (a : Attrs) : Attrs := a.filter fun kv => kv.2 != .null

/-- `assert_dataframe_no_duplicate_attribute`: one attribute tuple per child name -/
def rowsConsistent (rows : List Row) : Bool :=
  rows.all fun r => rows.all fun r' => r.name != r'.name || r.attrs == r'.attrs

/-- body of the loop of `dataframe_to_dag` -/
def rowStep (acc : Except Err Built) (r : Row) : Except Err Built :=
  acc.bind fun b =>
    let a := nonNull r.attrs
    let g1 := setAttrs (newNode b.dag r.name a) r.name a
    match r.parent with
    | none => .ok { b with dag := g1 }
    | some p =>
      let g2 := newNode g1 p []
      (setParent g2 r.name p).map fun g3 => { dag := g3, ret := some p }

/-- `dataframe_to_dag` (`ret = none`: the placeholder `DAGNode()` is returned) -/
def rowsToDag (rows : List Row) : Except Err Built :=
  if rows.isEmpty then .error .value
  else if !rowsConsistent rows then .error .value
  else rows.foldl rowStep (.ok { dag := empty, ret := none })

end Dag
