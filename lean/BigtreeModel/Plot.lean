import BigtreeModel.Basic
/-!
# `reingold_tilford` (bigtree/utils/plot.py) over exact rationals

The Python computes over binary64 floats and writes `x`, `mod`, `shift`, `y` onto the nodes.
The model computes the same three passes over `Rat` (core Lean) on rose trees:

* `PT`  — a node annotated with the attributes `x`, `mod`, `shift` the first pass writes;
* `FT`  — a node with its final coordinates `x`, `y`.

`firstPass` is the post-order pass. A sibling group is processed by the left-to-right loop
`fpGroup`, whose state is exactly what the Python state is at that moment:
`done` — the already processed left siblings (fully annotated, with their *current* `shift`) and
`pend` — the `shift` attribute already written on the not yet processed siblings (the Python's
shift loop `for multiple, sibling in enumerate(parent_node.children)` also writes the right
siblings, which later read it back with `get_attr("shift", 0)`).

Entry state. `x`, `mod`, `y` are overwritten before they are read. `shift` is read with a default
(`tree_node.get_attr("shift", _shift)`, `sibling.get_attr("shift", 0) + …`), so a value left by an
earlier run would survive; since the repair D9 (`fix: reingold_tilford clears the intermediate
shift values of a previous run`) `reingold_tilford` first pops the `shift` attribute of every node.
The input of the model is `ST`: the tree shape with the `shift` every node carries on entry
(0 = no attribute); `passes` are the three passes on that state (the pre-D9 behaviour),
`layoutS` = `ST.clear` followed by `passes` is `reingold_tilford` as it is now. `stored` returns
the shifts left on the nodes, so that histories *layout, structural edit (`ST.modifyAt`,
`ST.move`), layout, …* can be run through the model. `layout` on a `Tree` is the run on a fresh
tree. The model is for a call on the root node of a Node/BaseNode tree.
-/

namespace Plot

structure Params where
  sib : Rat   -- sibling_separation
  sub : Rat   -- subtree_separation
  lvl : Rat   -- level_separation
  xoff : Rat  -- x_offset
  yoff : Rat  -- y_offset

/-- input: tree shape with the `shift` attribute each node carries on entry (fresh node: 0) -/
inductive ST where
  | node (shift : Rat) (children : List ST)
  deriving Repr, Inhabited

namespace ST
def shift : ST → Rat | node s _ => s
def children : ST → List ST | node _ cs => cs
@[simp] theorem shift_node (s cs) : (node s cs).shift = s := rfl
@[simp] theorem children_node (s cs) : (node s cs).children = cs := rfl
end ST

mutual
/-- a fresh tree: no node carries a `shift` -/
def ST.ofTree : Tree → ST
  | .node _ _ _ cs => .node 0 (ST.ofTrees cs)
def ST.ofTrees : List Tree → List ST
  | [] => []
  | c :: cs => ST.ofTree c :: ST.ofTrees cs
end

/-- node after the first pass: the attributes `x`, `mod`, `shift` -/
inductive PT where
  | node (x mod shift : Rat) (children : List PT)
  deriving Repr, Inhabited

namespace PT
def x : PT → Rat | node x _ _ _ => x
def mod : PT → Rat | node _ m _ _ => m
def shift : PT → Rat | node _ _ s _ => s
def children : PT → List PT | node _ _ _ cs => cs
/-- `sibling.set_attrs({"shift": sibling.get_attr("shift", 0) + d})` -/
def addShift (d : Rat) : PT → PT | node x m s cs => node x m (s + d) cs

@[simp] theorem x_node (x m s cs) : (node x m s cs).x = x := rfl
@[simp] theorem mod_node (x m s cs) : (node x m s cs).mod = m := rfl
@[simp] theorem shift_node (x m s cs) : (node x m s cs).shift = s := rfl
@[simp] theorem children_node (x m s cs) : (node x m s cs).children = cs := rfl

/-- height (a single node has height 1) — only used as fuel -/
def height : PT → Nat
  | node _ _ _ cs => 1 + heightL cs
where heightL : List PT → Nat
  | [] => 0
  | c :: cs => max (height c) (heightL cs)
end PT

/-- node with final coordinates -/
inductive FT where
  | node (x y : Rat) (children : List FT)
  deriving Repr, Inhabited

namespace FT
def x : FT → Rat | node x _ _ => x
def y : FT → Rat | node _ y _ => y
def children : FT → List FT | node _ _ cs => cs
@[simp] theorem x_node (x y cs) : (node x y cs).x = x := rfl
@[simp] theorem y_node (x y cs) : (node x y cs).y = y := rfl
@[simp] theorem children_node (x y cs) : (node x y cs).children = cs := rfl
end FT

/-! ## first pass -/

/-- `_get_midpoint_of_children` for an annotated child list -/
def midpoint (cs : List PT) : Rat :=
  match cs.head?, cs.getLast? with
  | some f, some l => ((l.x + l.shift) + (f.x + f.shift)) / 2
  | _, _ => 0

/-- `while left_subtree and not left_subtree.children and left_subtree.left_sibling:
        left_subtree = left_subtree.left_sibling`
    (`lsibs` = the left siblings of `cur`, nearest first) -/
def scanLeft : PT → List PT → PT
  | cur, [] => cur
  | cur, l :: ls => if cur.children.isEmpty then scanLeft l ls else cur

/-- `while right_subtree and not right_subtree.children and right_subtree.right_sibling:
        right_subtree = right_subtree.right_sibling`
    (`rsibs` = the right siblings of `cur`, nearest first) -/
def scanRight : PT → List PT → PT
  | cur, [] => cur
  | cur, r :: rs => if cur.children.isEmpty then scanRight r rs else cur

/-- `_get_subtree_shift`. `left`/`right` are the current `left_subtree`/`right_subtree`,
    `lsibs`/`rsibs` their left/right siblings (nearest first) for the two `while` scans;
    the Python recursion becomes fuel (out of fuel returns the shift accumulated so far). -/
def getSubtreeShift (sub : Rat) (li ri : Nat) :
    Nat → PT → List PT → PT → List PT → Rat → Rat → Rat → Bool → Rat
  | 0, _, _, _, _, _, _, cum, _ => cum
  | fuel + 1, left, lsibs, right, rsibs, lcum, rcum, cum, initial =>
    let newShift : Rat :=
      if initial then 0
      else
        let xLeft := left.x + left.shift + lcum
        let xRight := right.x + right.shift + rcum + cum
        max ((xLeft + sub - xRight) / (1 - (li : Rat) / (ri : Rat))) 0
    let left' := if initial then left else scanLeft left lsibs
    let right' := if initial then right else scanRight right rsibs
    -- `if left_subtree.children and right_subtree.children:`
    match left'.children.reverse, right'.children with
    | lc :: lrest, rc :: rrest =>
      getSubtreeShift sub li ri fuel lc lrest rc rrest
        (lcum + left'.mod + left'.shift) (rcum + right'.mod + right'.shift) (cum + newShift) false
    | _, _ => cum + newShift

/-- the loop `for idx_node in range(tree_node_idx): _shift = max(_shift, _get_subtree_shift(…))`;
    `lefts` = the left siblings not yet compared, `idx` = index of the first of them -/
def maxShift (sub : Rat) (node : PT) (ri : Nat) : List PT → Nat → Rat → Rat
  | [], _, acc => acc
  | l :: ls, idx, acc =>
    maxShift sub node ri ls (idx + 1)
      (max acc (getSubtreeShift sub idx ri (l.height + 1) l [] node [] 0 0 0 true))

/-- `shift + _shift * multiple / tree_node_idx` for the siblings from index `m` on -/
def bumpPT (s : Rat) (j : Nat) : Nat → List PT → List PT
  | _, [] => []
  | m, n :: ns => n.addShift (s * (m : Rat) / (j : Rat)) :: bumpPT s j (m + 1) ns

def bumpR (s : Rat) (j : Nat) : Nat → List Rat → List Rat
  | _, [] => []
  | m, r :: rs => (r + s * (m : Rat) / (j : Rat)) :: bumpR s j (m + 1) rs

/-- first part of `_first_pass` for a non-root node: `x`, `mod`, and the `shift` it already has.
    `done` = its left siblings, `shift0` = `get_attr("shift", 0)`, `kids` = its annotated children -/
def place (sib : Rat) (done : List PT) (shift0 : Rat) (kids : List PT) : PT :=
  let mid : Rat := if kids.isEmpty then 0 else midpoint kids
  match done.getLast? with
  | some lsib =>                      -- non-leftmost node
    let x := lsib.x + sib
    .node x (if kids.isEmpty then 0 else x - mid) shift0 kids
  | none =>                           -- leftmost node
    .node (if kids.isEmpty then 0 else mid) 0 shift0 kids

/-- second part of `_first_pass` for the node at index `done.length`: compute `_shift` against
    every left sibling, then add `_shift * multiple / idx` to every sibling (left, itself, right) -/
def shiftSiblings (sub : Rat) (done : List PT) (node : PT) (pend : List Rat) : List PT × List Rat :=
  let j := done.length
  if j = 0 then (done ++ [node], pend)
  else
    let s := maxShift sub node j done 0 0
    (bumpPT s j 0 (done ++ [node]), bumpR s j (j + 1) pend)

mutual
/-- the annotated children of a node after `_first_pass` of all of them (post-order) -/
def fpKids (P : Params) : ST → List PT
  | .node _ cs => fpGroup P cs [] (cs.map ST.shift)
/-- left-to-right loop over one sibling group; `pend` starts as the shifts the siblings carry on
    entry -/
def fpGroup (P : Params) : List ST → List PT → List Rat → List PT
  | [], done, _ => done
  | t :: ts, done, pend =>
    let node := place P.sib done (pend.headD 0) (fpKids P t)
    let st := shiftSiblings P.sub done node pend.tail
    fpGroup P ts st.1 st.2
end

/-- `_first_pass` called on the root: `x` = mid-point of the children, `mod = shift = 0` -/
def firstPass (P : Params) (t : ST) : PT :=
  let kids := fpKids P t
  .node (midpoint kids) 0 0 kids

/-! ## second pass -/

/-- `max([...])` of a non-empty list -/
def maxL : List Rat → Rat
  | [] => 0
  | [a] => a
  | a :: b :: rest => max a (maxL (b :: rest))

mutual
/-- `_second_pass`: final `(x, y)` of every node and the returned `x_adjustment` -/
def secondPass (P : Params) (maxDepth : Nat) : Nat → Rat → PT → FT × Rat
  | depth, cum, .node x m s cs =>
    let finalX := x + s + cum + P.xoff
    let finalY := ((maxDepth : Rat) - (depth : Rat)) * P.lvl + P.yoff
    let rs := secondPassL P maxDepth (depth + 1) (cum + m + s) cs
    (.node finalX finalY (rs.map (·.1)),
      if cs.isEmpty then max 0 (-finalX) else maxL (rs.map (·.2)))
def secondPassL (P : Params) (maxDepth : Nat) : Nat → Rat → List PT → List (FT × Rat)
  | _, _, [] => []
  | depth, cum, c :: cs => secondPass P maxDepth depth cum c :: secondPassL P maxDepth depth cum cs
end

/-! ## third pass -/

mutual
def addX (d : Rat) : FT → FT
  | .node x y cs => .node (x + d) y (addXL d cs)
def addXL (d : Rat) : List FT → List FT
  | [] => []
  | c :: cs => addX d c :: addXL d cs
end

/-- `_third_pass`: `if x_adjustment:` shift every node -/
def thirdPass (adj : Rat) (t : FT) : FT := if adj = 0 then t else addX adj t

/-- the three passes on a tree whose nodes carry the shifts recorded in `t`
    (`reingold_tilford` before the repair D9) -/
def passes (P : Params) (t : ST) : FT :=
  let pt := firstPass P t
  let r := secondPass P pt.height 1 0 pt
  thirdPass r.2 r.1

mutual
/-- `for _node in preorder_iter(tree_node): _node.__dict__.pop("shift", None)` -/
def ST.clear : ST → ST
  | .node _ cs => .node 0 (ST.clearL cs)
def ST.clearL : List ST → List ST
  | [] => []
  | c :: cs => ST.clear c :: ST.clearL cs
end

/-- `reingold_tilford`: clear the shifts of an earlier run, then the three passes -/
def layoutS (P : Params) (t : ST) : FT := passes P t.clear

mutual
def PT.toST : PT → ST
  | .node _ _ s cs => .node s (PT.toSTL cs)
def PT.toSTL : List PT → List ST
  | [] => []
  | c :: cs => PT.toST c :: PT.toSTL cs
end

/-- the `shift` attributes left on the nodes by a run (second and third pass do not touch them) -/
def stored (P : Params) (t : ST) : ST := (firstPass P t.clear).toST

/-- `reingold_tilford` on a fresh tree -/
def layout (P : Params) (t : Tree) : FT := layoutS P (ST.ofTree t)

/-! ## structural edits between runs -/

/-- apply `g` to the `i`-th element -/
def modNth (g : ST → ST) : Nat → List ST → List ST
  | _, [] => []
  | 0, c :: cs => g c :: cs
  | i + 1, c :: cs => c :: modNth g i cs

/-- apply `f` to the child list of the node at address `addr` (child indices from the root);
    an address that leaves the tree changes nothing -/
def ST.modifyAt (f : List ST → List ST) : List Nat → ST → ST
  | [], .node s cs => .node s (f cs)
  | i :: p, .node s cs => .node s (modNth (ST.modifyAt f p) i cs)

/-- `node.parent = None` for the `i`-th child of the node at `addr` (the detached subtree is dropped) -/
def ST.detach (addr : List Nat) (i : Nat) : ST → ST := ST.modifyAt (fun cs => cs.eraseIdx i) addr
/-- `p.children = [fresh] + list(p.children)` -/
def ST.insertFirst (addr : List Nat) (fresh : ST) : ST → ST := ST.modifyAt (fun cs => fresh :: cs) addr
/-- `fresh.parent = p` -/
def ST.insertLast (addr : List Nat) (fresh : ST) : ST → ST := ST.modifyAt (fun cs => cs ++ [fresh]) addr
/-- `p.children = list(p.children)[::-1]` -/
def ST.reverseAt (addr : List Nat) : ST → ST := ST.modifyAt List.reverse addr
/-- `new = Node(..); old_root.parent = new`: a node that was never laid out becomes the root above the old tree -/
def ST.wrap (t : ST) : ST := .node 0 [t]
/-- `new = Node(..); new.children = p.children; new.parent = p` for the node `p` at `addr`: a node that was never
    laid out is inserted between `p` and all its children -/
def ST.interpose (addr : List Nat) : ST → ST := ST.modifyAt (fun cs => [.node 0 cs]) addr

/-- the subtree at an address -/
def ST.getAt : List Nat → ST → Option ST
  | [], t => some t
  | i :: p, .node _ cs => match cs[i]? with
    | some c => ST.getAt p c
    | none => none

/-- `n = <i-th child of the node at from>; n.parent = None; n.parent = <node at to>`:
    re-attach a (previously laid out) subtree as last child elsewhere; `to` is an address in the
    tree after the detachment. Nothing happens if `from` does not exist. -/
def ST.move (fromAddr : List Nat) (i : Nat) (toAddr : List Nat) (t : ST) : ST :=
  match ST.getAt (fromAddr ++ [i]) t with
  | some sub => ST.insertLast toAddr sub (ST.detach fromAddr i t)
  | none => t

/-! ## conditions on the entry shifts -/

mutual
/-- `Q` holds of the shift vector of every sibling group -/
def ST.AllGroups (Q : List Rat → Prop) : ST → Prop
  | .node _ cs => Q (cs.map ST.shift) ∧ ST.AllGroupsL Q cs
def ST.AllGroupsL (Q : List Rat → Prop) : List ST → Prop
  | [] => True
  | c :: cs => ST.AllGroups Q c ∧ ST.AllGroupsL Q cs
end

/-- within every sibling group the entry shifts are non-decreasing from left to right -/
def ST.Mono (t : ST) : Prop := t.AllGroups (fun l => l.Pairwise (· ≤ ·))
/-- no child carries a negative shift -/
def ST.NonNeg (t : ST) : Prop := t.AllGroups (fun l => ∀ s ∈ l, (0 : Rat) ≤ s)

/-! ## reading the result -/

mutual
/-- all nodes (as subtrees) in pre-order -/
def FT.subtrees : FT → List FT
  | .node x y cs => .node x y cs :: FT.subtreesL cs
def FT.subtreesL : List FT → List FT
  | [] => []
  | c :: cs => FT.subtrees c ++ FT.subtreesL cs
end

mutual
/-- all nodes in pre-order with their depth (`d` = depth of the argument) -/
def FT.withDepth : Nat → FT → List (Nat × FT)
  | d, .node x y cs => (d, .node x y cs) :: FT.withDepthL (d + 1) cs
def FT.withDepthL : Nat → List FT → List (Nat × FT)
  | _, [] => []
  | d, c :: cs => FT.withDepth d c ++ FT.withDepthL d cs
end

/-- the nodes of depth `d` (root = depth 1), in their left-to-right tree order -/
def FT.level (t : FT) (d : Nat) : List FT :=
  ((t.withDepth 1).filter (fun p => p.1 == d)).map (·.2)

/-- pre-order list of coordinates (what the driver prints) -/
def FT.coords (t : FT) : List (Rat × Rat) := t.subtrees.map fun n => (n.x, n.y)

/-! ## bare shapes (to state that the drawing has the shape of the input tree) -/

inductive Sk where
  | node (children : List Sk)
  deriving Repr, Inhabited

mutual
def ST.sk : ST → Sk
  | .node _ cs => .node (ST.skL cs)
def ST.skL : List ST → List Sk
  | [] => []
  | c :: cs => ST.sk c :: ST.skL cs
end

mutual
def PT.sk : PT → Sk
  | .node _ _ _ cs => .node (PT.skL cs)
def PT.skL : List PT → List Sk
  | [] => []
  | c :: cs => PT.sk c :: PT.skL cs
end

mutual
def FT.sk : FT → Sk
  | .node _ _ cs => .node (FT.skL cs)
def FT.skL : List FT → List Sk
  | [] => []
  | c :: cs => FT.sk c :: FT.skL cs
end

/-! ## specification only: the trees on which the sibling-pair comparison of `_get_subtree_shift` is exact

For two siblings `l` (index `i`) and `r` (index `j`, `i < j`) `_get_subtree_shift` walks down in lock
step: from `l` to its last child, then — if that node has no children — to its nearest left sibling
that has children (`scanLeft`), to that node's last child, …; mirrored in `r`. Two things can go wrong
(both are behind the known finding K1):

* the *walk* can end although the subtree is deeper (the next level of the contour belongs to a
  cousin, not to a sibling, of the current node): `rwalk`/`lwalk` count the levels the walk visits,
  `height` the levels that exist;
* for `i > 0` the shift found on one level is divided by `1 - i/j` and accumulated in that scaled form,
  so that from the second compared level on the need is under-estimated.

`Sk.Exact` excludes exactly these two situations, pair by pair: the pair `(0, j)` must have walks that
reach as deep as the shallower of the two subtrees, a pair `(i, j)` with `i > 0` must have only one level
to compare (one of the two subtrees has height ≤ 2). Nothing below is used by the driver. -/

namespace Sk

mutual
/-- number of levels of the subtree (a single node: 1) -/
def height : Sk → Nat
  | .node cs => 1 + heightL cs
/-- number of levels of a forest -/
def heightL : List Sk → Nat
  | [] => 0
  | c :: cs => max (height c) (heightL cs)
end

def hasKids : Sk → Bool
  | .node cs => !cs.isEmpty

mutual
/-- number of levels the right-contour walk visits in the subtree (last child, `scanLeft`, last child, …) -/
def rwalk : Sk → Nat
  | .node cs => 1 + rwalkL cs
/-- … in a sibling group whose last member is the current node of the walk -/
def rwalkL : List Sk → Nat
  | [] => 0
  | c :: cs => if cs.any hasKids then rwalkL cs else rwalk c
end

mutual
/-- number of levels the left-contour walk visits in the subtree (first child, `scanRight`, first child, …) -/
def lwalk : Sk → Nat
  | .node cs => 1 + lwalkL cs
/-- … in a sibling group whose first member is the current node of the walk -/
def lwalkL : List Sk → Nat
  | [] => 0
  | c :: cs => if hasKids c || cs.isEmpty then lwalk c else lwalkL cs
end

/-- the facing walks of `a` (left) and `b` (right) reach every level that exists in both subtrees -/
def pairExact (a b : Sk) : Bool := decide (min a.height b.height ≤ min a.rwalk b.lwalk)
/-- only one level below the two siblings exists in both subtrees -/
def shallow (a b : Sk) : Bool := decide (min a.height b.height ≤ 2)

/-- all pairs `(i, j)`, `0 < i < j`, of the group `c :: cs` seen from `c` as the left one -/
def shallowFrom (c : Sk) : List Sk → Bool
  | [] => true
  | d :: ds => shallow c d && shallowFrom c ds

/-- `cs.Pairwise shallow` -/
def shallowPairs : List Sk → Bool
  | [] => true
  | c :: cs => shallowFrom c cs && shallowPairs cs

/-- `∀ c ∈ cs, pairExact c0 c` -/
def exactFrom (c0 : Sk) : List Sk → Bool
  | [] => true
  | c :: cs => pairExact c0 c && exactFrom c0 cs

/-- condition on one sibling group: first child against every other: exact walks;
    any two later children: one compared level -/
def groupOK : List Sk → Bool
  | [] => true
  | c0 :: rest => exactFrom c0 rest && shallowPairs rest

mutual
/-- every sibling group of the tree satisfies `groupOK` -/
def exact : Sk → Bool
  | .node cs => groupOK cs && exactL cs
def exactL : List Sk → Bool
  | [] => true
  | c :: cs => exact c && exactL cs
end

end Sk

/-- the class of trees for which the cousin clause of C19 is proved (`C19.rt_cousins_partial`) -/
def ST.ChainExact (t : ST) : Prop := t.sk.exact = true
instance (t : ST) : Decidable t.ChainExact := inferInstanceAs (Decidable (_ = true))

/-- the same for a fresh tree -/
def ChainExact (t : Tree) : Prop := (ST.ofTree t).ChainExact
instance (t : Tree) : Decidable (ChainExact t) := inferInstanceAs (Decidable (ST.ChainExact _))

end Plot
