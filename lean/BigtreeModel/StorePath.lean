import BigtreeModel.Store
/-!
# Paths on the pointer store (`Node.path_name`, `depth`, `find_full_path`)

Strings are `List Char`.  `split`, `lstrip`, `rstrip`, `join` mirror `str.split(sep)`,
`str.lstrip(chars)`, `str.rstrip(chars)` (character-set stripping) and `sep.join`.
-/

namespace Store

/-- `sep.join(xs)` -/
def join (sep : Str) : List Str → Str
  | [] => []
  | [x] => x
  | x :: y :: rest => x ++ sep ++ join sep (y :: rest)

/-- `str.split(sep)` for a non-empty separator: leftmost, non-overlapping.  `skip` counts the
remaining characters of a separator occurrence being skipped, `acc` is the current piece reversed. -/
def splitAux (sep : Str) : Nat → Str → Str → List Str
  | _, [], acc => [acc.reverse]
  | k + 1, _ :: cs, acc => splitAux sep k cs acc
  | 0, c :: cs, acc =>
    if sep.isPrefixOf (c :: cs) then acc.reverse :: splitAux sep (sep.length - 1) cs []
    else splitAux sep 0 cs (c :: acc)

def split (sep : Str) (s : Str) : List Str := splitAux sep 0 s []

/-- `str.lstrip(chars)` -/
def lstrip (chars : Str) (s : Str) : Str := s.dropWhile fun c => chars.contains c

/-- `str.rstrip(chars)` -/
def rstrip (chars : Str) (s : Str) : Str := (lstrip chars s.reverse).reverse

/-- `[self] + list(self.ancestors)`, reversed: the route from the root to `v` -/
def pathNodes (s : Store) (v : Nat) : List Nat := (v :: anc s s.n v).reverse

/-- the names on the route from the root -/
def pathNames (s : Store) (v : Nat) : List Str := (pathNodes s v).map s.name

/-- `Node.path_name`: `sep = ancestors[-1].sep; sep + sep.join(names from the root)` -/
def pathName (s : Store) (v : Nat) : Str :=
  let sp := s.sepOf ((v :: anc s s.n v).getLast (by simp))
  sp ++ join sp (pathNames s v)

/-- `BaseNode.depth` (recursive property), with fuel -/
def depthAux (s : Store) : Nat → Nat → Nat
  | 0, _ => 1
  | f + 1, v =>
    match s.parent v with
    | none => 1
    | some p => depthAux s f p + 1

def depth (s : Store) (v : Nat) : Nat := depthAux s s.n v

/-- the descent loop of `find_full_path`: `none` = `SearchError`, `some none` = not found -/
def descend (s : Store) : Nat → List Str → Option (Option Nat)
  | p, [] => some (some p)
  | p, nm :: rest =>
    match findChildByName s p nm with
    | none => none
    | some none => some none
    | some (some c) => descend s c rest

/-- `find_full_path(start, path)`: outer `none` = an exception (`ValueError` for a wrong root name,
`SearchError`), `some none` = `None` returned, `some (some v)` = the node -/
def findFullPath (s : Store) (start : Nat) (path : Str) : Option (Option Nat) :=
  let sp := sep s start
  let parts := split sp (lstrip sp (rstrip sp path))
  let root := rootOf s s.n start
  match parts with
  | [] => none
  | r :: rest => if r = s.name root then descend s root rest else none

end Store
