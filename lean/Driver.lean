import BigtreeModel
/-! Line-protocol driver: `<handler> tok tok …` per line on stdin, one canonical line out. -/

def dispatch (line : String) : String :=
  match (line.trimAscii.toString.splitOn " ").filter (· ≠ "") with
  | [] => "bad-op"
  | h :: toks =>
    match h with
    | "C01" => Drv.C01.handle toks
    | "C02" => Drv.C02.handle toks
    | "C03" => Drv.C03.handle toks
    | "C04" => Drv.C04.handle toks
    | "C05" => Drv.C05.handle toks
    | "C06" => Drv.C06.handle toks
    | "C07" => Drv.C07.handle toks
    | "C08" => Drv.C08.handle toks
    | "C09" => Drv.C09.handle toks
    | "C10" => Drv.C10.handle toks
    | "C11" => Drv.C11.handle toks
    | "C12" => Drv.C12.handle toks
    | "C13" => Drv.C13.handle toks
    | "C14" => Drv.C14.handle toks
    | "C15" => Drv.C15.handle toks
    | "C16" => Drv.C16.handle toks
    | "C17" => Drv.C17.handle toks
    | "C18" => Drv.C18.handle toks
    | "C19" => Drv.C19.handle toks
    | "C20" => Drv.C20.handle toks
    | "echo" => " ".intercalate toks
    | _ => "bad-op"

partial def loop (hin hout : IO.FS.Stream) : IO Unit := do
  let line ← hin.getLine
  if line.isEmpty then return ()
  hout.putStrLn (dispatch line)
  loop hin hout

def main : IO Unit := do
  let hin ← IO.getStdin
  let hout ← IO.getStdout
  loop hin hout
  hout.flush
