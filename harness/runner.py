#!/venv/bin/python
"""./check <Cxx> [--tier quick|thorough] [--replay file]

One run = (1) regenerate tables from /repo, build the Lean project, (2) audit the property's
theorems (#print axioms + source grep), (3) correspondence: real bigtree vs. the compiled Lean
model on generated cases, (4) the model-free oracle on the real code, (5) known findings,
(6) evidence.  Exit 0 = held; 1 = VIOLATION line printed; 2 = infrastructure problem.
"""
from __future__ import annotations
import argparse, collections, fcntl, hashlib, importlib, json, os, random, re, subprocess, sys, time, traceback

HERE = os.path.dirname(os.path.abspath(__file__))
VERIF = os.path.dirname(HERE)
LEAN = os.path.join(VERIF, "lean")
sys.path.insert(0, HERE)
# the checks speak about bigtree's DEFAULT configuration: whatever the caller's environment says about the optional
# assertion checks is put aside before bigtree is imported (C20 starts its own interpreters with the variable set / unset)
os.environ.pop("BIGTREE_CONF_ASSERTIONS", None)
import core  # noqa: E402  (sets sys.path for bigtree)

STD_AXIOMS = {"propext", "Classical.choice", "Quot.sound"}
FORBIDDEN = re.compile(r"(?<![.\w])(sorry|admit|native_decide|bv_decide|implemented_by)\b|^\s*axiom\s|(?<![.\w])unsafe\s|maxHeartbeats\s+0\b", re.M)
TRUSTED_BASE = [
    "Lean 4.33.0 kernel (leanchecker re-check in the thorough tier)",
    "axioms: at most propext, Classical.choice, Quot.sound (audited per theorem by #print axioms on every run)",
    "correspondence check (this harness: generators, adapters, canonicalisation) tying the hand-written model to /repo's working tree",
    "Lean compiler for the native driver btmodel (a miscompilation would show as disagreement)",
    "CPython 3.12 and, where used, pandas/polars/pydot",
]


class Case:
    __slots__ = ("line", "data", "tags")

    def __init__(self, line: str, data=None, tags=()):
        self.line = line      # protocol line WITHOUT the handler key
        self.data = data      # whatever impl()/oracle() need (must be JSON-able for replays)
        self.tags = tuple(tags)


def log(*a):
    print(*a, file=sys.stderr, flush=True)


# ------------------------------------------------------------------ build + audit
def strip_comments(src: str) -> str:
    src = re.sub(r"/-.*?-/", "", src, flags=re.S)
    return re.sub(r"--.*", "", src)


def lean_sources(roots):
    """project files in the import closure of the given module names"""
    seen, todo = {}, list(roots)
    while todo:
        m = todo.pop()
        if m in seen:
            continue
        path = os.path.join(LEAN, *m.split(".")) + ".lean"
        if not os.path.exists(path):
            continue
        seen[m] = path
        for imp in re.findall(r"^\s*(?:public\s+)?import\s+(\S+)", open(path, encoding="utf-8").read(), re.M):
            todo.append(imp)
    return sorted(seen.values())


def grep_forbidden(roots):
    hits = []
    for p in lean_sources(roots):
        for m in FORBIDDEN.finditer(strip_comments(open(p, encoding="utf-8").read())):
            hits.append(f"{os.path.relpath(p, LEAN)}: {m.group(0).strip()}")
    return hits


def lean_build(targets):
    """regenerate tables, lake build <targets> under a lock; returns (ok, log_tail, failed_modules)"""
    import tables
    os.makedirs(os.path.join(LEAN, ".lake"), exist_ok=True)
    with open(os.path.join(LEAN, ".lake", "verif.lock"), "w") as lk:
        fcntl.flock(lk, fcntl.LOCK_EX)
        try:
            tables.regenerate(core.REPO, os.path.join(LEAN, "BigtreeModel", "Generated", "Tables.lean"))
        except Exception as e:  # source no longer parses the way tables.py expects
            # only a property whose model or theorems are built on the generated tables is affected: every other
            # target is built as usual (the file on disk is the last successfully extracted one)
            roots = [t for t in targets if not t.startswith("btmodel_")] + ["Main." + t[len("btmodel_"):] for t in targets if t.startswith("btmodel_")]
            uses = any(os.path.relpath(p, LEAN) == os.path.join("BigtreeModel", "Generated", "Tables.lean") for p in lean_sources(roots))
            if uses:
                return False, "tables.py: " + repr(e), ["BigtreeModel.Generated.Tables"]
            log("[build] note: tables.py could not read the source (" + repr(e) + "); this property does not use the generated tables")
        t = time.time()
        p = subprocess.run(["lake", "build"] + list(targets), cwd=LEAN, capture_output=True, text=True, timeout=3000)
        out = p.stdout + p.stderr
        failed = re.findall(r"^✖ \[\d+/\d+\] (?:Building|Built) (\S+)", out, re.M)
        log(f"[build] lake build rc={p.returncode} {time.time()-t:.1f}s")
        return p.returncode == 0, out[-4000:], failed


def run_audit(prop: str, theorems, imports):
    """#print axioms for each theorem -> {name: sorted axioms | None (missing)}"""
    os.makedirs(os.path.join(LEAN, ".lake", "audit"), exist_ok=True)
    path = os.path.join(LEAN, ".lake", "audit", f"{prop}.lean")
    with open(path, "w") as f:
        for imp in imports:
            f.write(f"import {imp}\n")
        for th in theorems:
            f.write(f"#print axioms {th}\n")
    p = subprocess.run(["lake", "env", "lean", path], cwd=LEAN, capture_output=True, text=True, timeout=1800)
    out = p.stdout + p.stderr
    res = {th: None for th in theorems}
    for m in re.finditer(r"'([^']+)' depends on axioms: \[([^\]]*)\]", out, re.S):
        res[m.group(1)] = sorted(a.strip() for a in m.group(2).split(",") if a.strip())
    for m in re.finditer(r"'([^']+)' does not depend on any axioms", out):
        res[m.group(1)] = []
    return res, out[-3000:]


def run_leanchecker(modules):
    p = subprocess.run(["lake", "env", "leanchecker"] + list(modules), cwd=LEAN, capture_output=True, text=True, timeout=3000)
    return p.returncode == 0, (p.stdout + p.stderr)[-2000:]


# ------------------------------------------------------------------ model side
def driver_exe(handler: str) -> str:
    return os.path.join(LEAN, ".lake", "build", "bin", "btmodel_" + handler)


def run_model(prop: str, handler: str, cases):
    exe = driver_exe(handler)
    inp = "".join(f"{handler} {c.line}\n" for c in cases)
    if os.path.exists(exe):
        cmd = [exe]
    else:
        cmd = ["lake", "env", "lean", "--run", os.path.join("Main", handler + ".lean")]
    p = subprocess.run(cmd, cwd=LEAN, input=inp, capture_output=True, text=True, timeout=3000)
    lines = p.stdout.split("\n")
    if lines and lines[-1] == "":
        lines.pop()
    if len(lines) != len(cases):
        raise RuntimeError(f"driver returned {len(lines)} lines for {len(cases)} cases (rc={p.returncode}) {p.stderr[-500:]}")
    return lines


# ------------------------------------------------------------------ implementation side
def run_impl(mod, cases):
    outs = []
    for c in cases:
        try:
            outs.append(mod.impl(c))
        except Exception as e:  # adapter crash = the API no longer fits; reported as disagreement
            outs.append("adapter-error:" + type(e).__name__ + ":" + str(e)[:200].replace("\n", " "))
    return outs


def safe_oracle(mod, c):
    """the oracle drives the real code; an exception escaping from it is itself reported as a failure message"""
    try:
        return list(mod.oracle(c) or [])
    except Exception as e:
        return ["oracle-crash:" + type(e).__name__ + ":" + str(e)[:200] + " @" + traceback.format_exc().splitlines()[-3].strip()]


def run_oracle(mod, cases):
    fails = []
    if not hasattr(mod, "oracle"):
        return fails
    for c in cases:
        for m in safe_oracle(mod, c):
            fails.append((c, m))
    return fails


def shrink(mod, case, still_bad, budget_s=20.0):
    """greedy shrink using mod.shrink(case) -> iterable of smaller Cases"""
    if not hasattr(mod, "shrink"):
        return case
    t0 = time.time()
    cur = case
    progress = True
    while progress and time.time() - t0 < budget_s:
        progress = False
        for cand in mod.shrink(cur):
            if time.time() - t0 > budget_s:
                break
            try:
                if still_bad(cand):
                    cur = cand
                    progress = True
                    break
            except Exception:
                continue
    return cur


def write_replay(prop, payload):
    os.makedirs(os.path.join(VERIF, "replays"), exist_ok=True)
    h = hashlib.sha1(json.dumps(payload, sort_keys=True, default=str).encode()).hexdigest()[:12]
    path = os.path.join("replays", f"{prop}-{h}.json")
    with open(os.path.join(VERIF, path), "w") as f:
        json.dump(payload, f, indent=1, default=str)
    return path


def load_known(prop):
    p = os.path.join(VERIF, "known_findings.json")
    if not os.path.exists(p):
        return []
    return [e for e in json.load(open(p))["findings"] if e["property"] == prop]


# ------------------------------------------------------------------ main
def main():
    ap = argparse.ArgumentParser()
    ap.add_argument("prop")
    ap.add_argument("--tier", default=os.environ.get("VERIF_TIER", "quick"), choices=["quick", "thorough"])
    ap.add_argument("--replay")
    ap.add_argument("--no-build", action="store_true")
    args = ap.parse_args()
    prop, tier = args.prop, args.tier
    seed = int(os.environ.get("VERIF_SEED", "0") or 0)
    t0 = time.time()
    mod = importlib.import_module("props." + prop)
    handler = getattr(mod, "HANDLER", prop)

    if args.replay:
        return do_replay(mod, prop, args.replay)

    violations = []   # (kind, replay_payload, suffix)
    notes = []

    # 1. build
    build_ok, build_log, failed_modules = (True, "", [])
    imports = list(getattr(mod, "PROOF_IMPORTS", [f"BigtreeProofs.Properties.{prop}"]))
    if not args.no_build:
        build_ok, build_log, failed_modules = lean_build(["btmodel_" + handler] + imports)
    # 2. audit
    theorems = list(mod.THEOREMS)
    axioms, audit_log = ({th: None for th in theorems}, "")
    forbidden = grep_forbidden(imports + ["Main." + handler])
    if build_ok:
        axioms, audit_log = run_audit(prop, theorems, imports)
    discharged = [th for th in theorems if axioms.get(th) is not None and set(axioms[th]) <= STD_AXIOMS]
    undischarged = [th for th in theorems if th not in discharged]
    checker_ok = None
    if tier == "thorough" and build_ok and not os.environ.get("VERIF_NO_LEANCHECKER"):
        checker_ok, checker_log = run_leanchecker(imports)
        if not checker_ok:
            notes.append("leanchecker: " + checker_log[-500:])
    proof_broken = (not build_ok) or bool(undischarged) or bool(forbidden) or (checker_ok is False)
    if forbidden:
        notes.append("forbidden constructs in Lean sources: " + "; ".join(forbidden[:5]))

    # 3. correspondence
    rng = random.Random(seed * 1000003 + int(prop[1:]))
    tgen = time.time()
    gen_crash = ""
    try:
        cases = list(mod.gen(rng, tier))
    except Exception:
        # generators may drive the real code (e.g. breadth-first state enumeration); a crash there means the
        # harness no longer fits the code's behaviour: the correspondence cannot be established
        gen_crash = traceback.format_exc()[-1500:]
        cases = []
        log(f"[{prop}] case generation crashed on the real code:\n{gen_crash}")
    log(f"[{prop}] generated {len(cases)} cases in {time.time()-tgen:.1f}s")
    timpl = time.time()
    impl_out = run_impl(mod, cases)
    log(f"[{prop}] impl side {time.time()-timpl:.1f}s")
    mismatches = []
    model_out = None
    exe = driver_exe(handler)
    if os.path.exists(exe) or build_ok:
        tm = time.time()
        try:
            model_out = run_model(prop, handler, cases)
        except Exception as e:
            log(f"[{prop}] model driver failed: {e}")
            print(f"INFRA-ERROR: model driver failed: {e}")
            return 2
        log(f"[{prop}] model side {time.time()-tm:.1f}s")
        cmp = getattr(mod, "compare", lambda a, b, c: a == b)
        for c, a, b in zip(cases, impl_out, model_out):
            if not cmp(a, b, c):
                mismatches.append((c, a, b))
    else:
        print("INFRA-ERROR: no driver binary and build failed:\n" + build_log[-1500:])
        if not failed_modules:
            return 2

    # 4. oracle
    torc = time.time()
    oracle_fails = run_oracle(mod, cases)
    log(f"[{prop}] oracle {time.time()-torc:.1f}s, {len(oracle_fails)} failing")

    # 5. known findings
    known = load_known(prop)
    known_active = [e for e in known if e.get("status") == "known"]
    for e in known_active:
        try:
            reproduced = mod.replay_known(e)
        except Exception as ex:
            reproduced = False
            notes.append(f"known finding {e['id']} could not be replayed: {ex!r}")
        if reproduced:
            print(f"KNOWN-FINDING: property={prop} {e['what']}")
    is_known = getattr(mod, "is_known", lambda case, msg, entries: False)
    new_oracle_fails = [(c, m) for c, m in oracle_fails if not is_known(c, m, known_active)]
    known_hits = len(oracle_fails) - len(new_oracle_fails)

    # 6. decide
    replay_path = None
    suffix = ""
    if new_oracle_fails:
        c, m = new_oracle_fails[0]
        def bad(cand):
            ms = safe_oracle(mod, cand)
            return any(not is_known(cand, x, known_active) for x in ms)
        c2 = shrink(mod, c, bad)
        msgs = [x for x in safe_oracle(mod, c2) if not is_known(c2, x, known_active)] or [m]
        replay_path = write_replay(prop, {"property": prop, "kind": "oracle", "handler": handler, "line": c2.line,
                                          "data": c2.data, "failure": msgs, "seed": seed, "tier": tier,
                                          "how": f"./check {prop} --replay <this file>"})
    elif mismatches or proof_broken or gen_crash:
        # failing-input search: oracle on mismatching cases was already run (they passed); widen
        found = None
        if hasattr(mod, "oracle"):
            found = search(mod, prop, seed, known_active, is_known, budget_s=(60 if tier == "quick" else 300))
        if found:
            c2, msgs = found
            replay_path = write_replay(prop, {"property": prop, "kind": "oracle", "handler": handler, "line": c2.line,
                                              "data": c2.data, "failure": msgs, "seed": seed, "tier": tier,
                                              "how": f"./check {prop} --replay <this file>"})
        else:
            suffix = " no-failing-input-found"
            payload = {"property": prop, "kind": "unchecked", "seed": seed, "tier": tier}
            if mismatches:
                def differs(cand):
                    a = run_impl(mod, [cand])[0]
                    b = run_model(prop, handler, [cand])[0]
                    return not getattr(mod, "compare", lambda x, y, z: x == y)(a, b, cand)
                c, a, b = mismatches[0]
                c2 = shrink(mod, c, differs)
                if c2 is not c:
                    a = run_impl(mod, [c2])[0]; b = run_model(prop, handler, [c2])[0]
                payload.update({"correspondence": getattr(mod, "CORRESPONDENCE", handler), "handler": handler,
                                "line": c2.line, "data": c2.data, "implementation": a, "model": b,
                                "mismatching_cases": len(mismatches),
                                "note": "model and implementation disagree on this case; the model-free oracle found no input on which the property itself fails"})
            if gen_crash:
                payload.update({"correspondence": getattr(mod, "CORRESPONDENCE", handler),
                                "note": "case generation (which drives the real code) crashed; the correspondence could not be run",
                                "traceback": gen_crash})
            if proof_broken:
                payload.update({"theorems_not_checked": undischarged, "failed_modules": failed_modules,
                                "forbidden": forbidden, "build_log_tail": build_log[-1500:] if not build_ok else "",
                                "audit_log_tail": audit_log[-800:] if undischarged else ""})
            replay_path = write_replay(prop, payload)

    # 7. evidence
    stats = collections.Counter()
    nontriv = set()
    is_nt = getattr(mod, "nontrivial", lambda c: True)
    for c in cases:
        for tg in c.tags:
            stats[tg] += 1
        if is_nt(c):
            nontriv.add(c.line)
    outcome_stats = collections.Counter((o.split(" ")[0][:24] if o else "") for o in impl_out)
    ev = {
        "property_id": prop, "tier": tier, "seed": seed, "level": "proof",
        "coverage": {
            "obligations": len(theorems), "discharged": len(discharged),
            "checker_cmd": "cd lean && lake build && lake env lean .lake/audit/%s.lean  (#print axioms per theorem)%s" % (
                prop, "; lake env leanchecker " + " ".join(imports) if tier == "thorough" else ""),
            "trusted_base": TRUSTED_BASE + list(getattr(mod, "MODELLED", [])),
            "theorems": {th: axioms.get(th) for th in theorems},
            "undischarged": undischarged,
            "leanchecker_ok": checker_ok,
            "traces_validated_against_impl": len(cases) - len(mismatches),
            "evaluations": len(cases),
            "distinct_nontrivial": len(nontriv),
            "rule": getattr(mod, "RULE", ""),
            "samples": [f"{handler} {c.line}"[:600] + "  =>  " + (o or "")[:200] for c, o in list(zip(cases, impl_out))[:: max(1, len(cases) // 5)][:6]]
                       + [f"theorem {th}" for th in theorems[:6]],
            "exhaustive": bool(getattr(mod, "EXHAUSTIVE", {}).get(tier)),
            "exhaustive_scope": getattr(mod, "EXHAUSTIVE", {}).get(tier) or "",
            "input_distribution": dict(stats.most_common(60)),
            "impl_outcome_heads": dict(outcome_stats.most_common(12)),
            "mismatches": len(mismatches), "oracle_failures": len(oracle_fails), "oracle_failures_matching_known_findings": known_hits,
            "oracle_run_on": len(cases) if hasattr(mod, "oracle") else 0,
            "notes": notes,
        },
        "assumptions": list(getattr(mod, "ASSUMPTIONS", [])),
        "wall_s": round(time.time() - t0, 2),
        "violations": 1 if replay_path else 0,
    }
    if os.path.realpath(core.REPO) == "/repo":
        os.makedirs(os.path.join(VERIF, "evidence"), exist_ok=True)
        with open(os.path.join(VERIF, "evidence", f"{prop}.json"), "w") as f:
            json.dump(ev, f, indent=1, default=str)
    else:
        log(f"[{prop}] BIGTREE_REPO={core.REPO}: evidence file not rewritten (evidence comes from /repo only)")
    log(f"[{prop}] tier={tier} seed={seed} cases={len(cases)} mismatches={len(mismatches)} oracle_fails={len(oracle_fails)} "
        f"theorems={len(discharged)}/{len(theorems)} wall={time.time()-t0:.1f}s")
    if replay_path:
        print(f"VIOLATION property={prop} replay={replay_path}{suffix}")
        return 1
    print(f"OK property={prop} theorems={len(discharged)}/{len(theorems)} cases={len(cases)}")
    return 0


def search(mod, prop, seed, known_active, is_known, budget_s):
    """failing-input search on the REAL code with the model-free oracle, over fresh generator seeds"""
    t0 = time.time()
    k = 0
    while time.time() - t0 < budget_s and k < 12:
        k += 1
        rng = random.Random((seed + 7919 * k) * 1000003 + int(prop[1:]))
        tier = "thorough" if k > 1 else "quick"
        try:
            gen_cases = mod.gen(rng, tier)
        except Exception:
            return None
        for c in gen_cases:
            if time.time() - t0 > budget_s:
                break
            msgs = [m for m in safe_oracle(mod, c) if not is_known(c, m, known_active)]
            if msgs:
                def bad(cand):
                    return any(not is_known(cand, x, known_active) for x in safe_oracle(mod, cand))
                c2 = shrink(mod, c, bad)
                return c2, [m for m in safe_oracle(mod, c2) if not is_known(c2, m, known_active)] or msgs
    return None


def do_replay(mod, prop, path):
    if not os.path.isabs(path):
        path = os.path.join(VERIF, path)
    payload = json.load(open(path))
    if payload.get("kind") == "unchecked" and "line" not in payload:
        print(f"replay names proof obligations that no longer check: {payload.get('theorems_not_checked')} {payload.get('failed_modules')}")
        return 1
    c = Case(payload["line"], payload.get("data"))
    if hasattr(mod, "rehydrate"):
        c = mod.rehydrate(c)
    out = run_impl(mod, [c])[0]
    print("implementation:", out)
    msgs = safe_oracle(mod, c) if hasattr(mod, "oracle") else []
    for m in msgs or []:
        print("oracle:", m)
    if msgs:
        print(f"VIOLATION property={prop} replay={os.path.relpath(path, VERIF)}")
        return 1
    if payload.get("kind") == "unchecked":
        try:
            b = run_model(prop, payload.get("handler", prop), [c])[0]
            print("model:", b)
            if not getattr(mod, "compare", lambda x, y, z: x == y)(out, b, c):
                print(f"VIOLATION property={prop} replay={os.path.relpath(path, VERIF)} no-failing-input-found")
                return 1
        except Exception as e:
            print("model driver unavailable:", e)
    print("replay: property holds on this input now")
    return 0


if __name__ == "__main__":
    try:
        sys.exit(main())
    except subprocess.TimeoutExpired as e:
        print("INFRA-ERROR: timeout", e)
        sys.exit(2)
