"""Bridge tie (registered under C01): after every call of a history the real trees are read back the way every
read-only function of bigtree reads them -- start at each parentless node, follow `.children` recursively --
and compared with the model's `Store.forest` (`lean/BigtreeModel/Bridge.lean`: `treeOf` of each root, roots in id
order), printed by `Drv.C01.handle` when the line carries the token `rb=1`."""
from __future__ import annotations
import core
from props import _store_util as U

RB = "rb=1"


def mk_line(d) -> str:
    return RB + " " + U.mk_line(d)


def wants_readback(line: str) -> bool:
    return RB in line.split()


def read_back(nodes, cls) -> str:
    """prefix form `( id xname - child* )` of every tree, roots in id order; names read from the objects"""
    idx = {id(x): i for i, x in enumerate(nodes)}

    def rec(x) -> str:
        nm = x.node_name if cls == "node" else ""
        return "( %s %s - %s)" % (idx.get(id(x), "?"), core.hx(nm), "".join(rec(c) + " " for c in x.children))

    return " ".join(rec(x) for x in nodes if x.parent is None)


def impl_line(d, readback: bool) -> str:
    """U.run_trace + U.show_trace, with the read-back of the real forest after every call"""
    if not readback:
        _nodes, tr = U.run_trace(d)
        return U.show_trace(tr)
    nodes = U.make_nodes(d)
    out = []
    for op in d["ops"]:
        o = U.apply_op(nodes, op)
        if o == "hang":
            out.append("hang ")
            break
        if not U.healthy(nodes):     # a cyclic store cannot be read back; the model never prints this
            out.append(o + " " + U.show_snap(U.snap(nodes)))
            out.append("corrupt ")
            break
        out.append(o + " " + U.show_snap(U.snap(nodes)) + " | " + read_back(nodes, d["cls"]))
    return " ; ".join(out)
