"""C10 — DAG links stay symmetric, duplicate-free and acyclic under every history.

Also the DAGNode building blocks for C02 / C20 (another module plugs them in):
`gen_histories`, `line_of`, `impl_history`, `oracle_c02`, `oracle_c10`, `compare`.

History data (JSON-able):
  {"cls": "dag", "n": k, "asrt": 0|1, "names": [str]*k, "ops": [op, …]}
  op  = ["P", v, arg, f] | ["C", v, arg, f]            v.parents = arg / v.children = arg
      | ["R", v, m, f]   | ["S", v, m, f]              v >> m / v << m
      | ["D", v] | ["X", v, name]                      del v.children / del v[name]
      | ["N", name, parg, carg, fp, fc]                DAGNode(name, parents=…, children=…) -> next id
  arg = ["L", [m, …]] | ["T", [m, …]] | ["N"]          list / tuple / not iterable (5)
      | ["G", [m, …]]                                   a one-shot iterator over these members (children arguments only:
                                                        DAGNode documents `Iterable` there; the setter must read it once)
      | ["H", k, [m, …]]                                the harness-side list OBJECT number k, passed as it is: the same
                                                        object for every use of k in the history (created at first use,
                                                        or by "M"); [m, …] = the content it must have at that moment if
                                                        nobody but the harness wrote to it (this is what the model sees)
      | ["M", k, [m, …]]  (an op)                       the harness overwrites list object k in place (`lst[:] = …`);
                                                        no DAGNode API is called
  m   = node id (int) | "j<k>"                         k-th non-node object (None, 7, "s", object())
  f   = "none" | "pre" | "post"                        user hook of that assignment raising
optional key "iter": v — after the history, `dag_iterator(node v)` of the final state is compared (as a multiset of
(parent, child) pairs) with `Dag.dagIter (DagStore.toDag s) v` of the model's final store: the tie of the bridge
lean/BigtreeProofs/Properties/DagBridge.lean (only generated for checks-on histories with pairwise distinct names).
"""
from __future__ import annotations
import gc, itertools, json, random, sys, zlib
import core
from core import hx
from runner import Case

THEOREMS = [
    "C10.dwf_init", "C10.dwf_step", "C10.dwf_run", "C10.dwf_trace", "C10.history_invariant",
    "C10.assign_only_adds", "C10.delete_exact", "C10.reject_loops",
    "C10.upfront_check_suffices", "C10.anc_fuel_complete", "C10.assign_list_exact", "C10.children_arg_kind_irrelevant"]
PROOF_IMPORTS = ["BigtreeProofs.Properties.C10"]
CORRESPONDENCE = "DagStore.step / DagStore.run  vs  DAGNode setters, >>, <<, deleters, constructor"
FAULTS = ["none", "pre", "post"]
JUNK_N = 4


# ------------------------------------------------------------------ protocol
def _m(m) -> str:
    return m if isinstance(m, str) else str(m)


def _ms(ms) -> str:
    return ",".join(_m(m) for m in ms) if ms else "-"


def _arg(a) -> str:
    if a[0] == "N":
        return "N"
    if a[0] == "H":          # the model reads it as a plain list with the content the caller put there
        return f"H{a[1]}=" + _ms(a[2])
    return a[0] + _ms(a[1])


def plain_arg(a):
    return ["L", list(a[2])] if a[0] == "H" else a


def plain_op(op):
    """the operation with every shared-list argument replaced by an equal fresh list (what it means to the property)"""
    if op[0] in ("P", "C"):
        return [op[0], op[1], plain_arg(op[2]), op[3]]
    if op[0] == "N":
        return [op[0], op[1], plain_arg(op[2]), plain_arg(op[3]), op[4], op[5]]
    return op


def op_tok(op) -> str:
    k = op[0]
    if k in ("P", "C"):
        return f"{k}:{op[1]}:{_arg(op[2])}:{op[3]}"
    if k in ("R", "S"):
        return f"{k}:{op[1]}:{_m(op[2])}:{op[3]}"
    if k == "D":
        return f"D:{op[1]}"
    if k == "X":
        return f"X:{op[1]}:{hx(op[2])}"
    if k == "N":
        return f"N:{hx(op[1])}:{_arg(op[2])}:{_arg(op[3])}:{op[4]}:{op[5]}"
    if k == "M":
        return f"M:{op[1]}"
    raise ValueError(op)


def line_of(d) -> str:
    names = ",".join(hx(x) for x in d["names"]) if d["names"] else "-"
    it = f" iter={d['iter']}" if d.get("iter") is not None else ""
    if d.get("copy") is not None:
        it += f" copy={d['copy']}"
    return (f"cls=dag n={d['n']} asrt={d['asrt']} names={names}{it} ops= "
            + " ".join(op_tok(o) for o in d["ops"])).rstrip() + ("" if d["ops"] else "")


def mk_data(n, ops, names=None, asrt=1):
    names = list(names) if names is not None else ["n%d" % i for i in range(n)]
    return {"cls": "dag", "n": n, "asrt": asrt, "names": names, "ops": [list(o) for o in ops]}


def mk_case(d, tags=()):
    return Case(line_of(d), d, tuple(tags))


def rehydrate(case):
    return Case(case.line, case.data, getattr(case, "tags", ()))


# ------------------------------------------------------------------ real-code side
class HookFault(Exception):
    pass


class _Ctl:
    def __init__(self):
        self.reg = []
        self.fp = "none"   # fault of the parents hooks
        self.fc = "none"   # fault of the children hooks


_HD = None


def _peek(node, others):
    """a hook may READ the graph before it refuses: whatever the library remembers from these reads (cached tuples,
    memoised closures) must not survive the roll-back"""
    from bigtree import DAGNode
    try:
        others = [o for o in others if isinstance(o, DAGNode)]
    except TypeError:
        others = []
    for x in [node] + others:
        for f in (lambda: x.children, lambda: x.parents, lambda: list(x.ancestors), lambda: list(x.descendants),
                  lambda: x.siblings, lambda: x.is_root, lambda: x.is_leaf):
            try:
                f()
            except Exception:  # noqa: BLE001
                pass


def _hd():
    """user subclass of DAGNode: registers every object on creation; the four documented hooks raise on demand"""
    global _HD
    if _HD is None:
        from bigtree import DAGNode

        class HD(DAGNode):
            ctl = None

            def __init__(self, name="", parents=None, children=None, **kw):
                HD.ctl.reg.append(self)
                super().__init__(name, parents=parents, children=children, **kw)

            def _DAGNode__pre_assign_parents(self, new_parents):
                if HD.ctl.fp == "pre":
                    _peek(self, new_parents); raise core.hook_exc(getattr(HD.ctl, "op", None), "pre-parents")

            def _DAGNode__post_assign_parents(self, new_parents):
                if HD.ctl.fp == "post":
                    _peek(self, new_parents); raise core.hook_exc(getattr(HD.ctl, "op", None), "post-parents")

            def _DAGNode__pre_assign_children(self, new_children):
                if HD.ctl.fc == "pre":
                    _peek(self, new_children); raise core.hook_exc(getattr(HD.ctl, "op", None), "pre-children")

            def _DAGNode__post_assign_children(self, new_children):
                if HD.ctl.fc == "post":
                    _peek(self, new_children); raise core.hook_exc(getattr(HD.ctl, "op", None), "post-children")

        _HD = HD
        # a second user class below the first: DAGs mix the two (a counter or table kept on `type(self)` is per class)
        HD.Sub = type("HDSub", (HD,), {})
    return _HD


class World:
    def __init__(self, names):
        self.HD = _hd()
        self.ctl = _Ctl()
        self.HD.ctl = self.ctl
        self.junk = [None, 7, "s", object()]
        self.pool = {}      # caller-side list objects that are passed to several calls
        for i, nm in enumerate(names):
            (self.HD.Sub if i % 2 else self.HD)(nm)

    @property
    def reg(self):
        return self.ctl.reg

    def ident(self, o):
        for i, x in enumerate(self.ctl.reg):
            if x is o:
                return i
        for k, j in enumerate(self.junk):
            if o is j:
                return "j%d" % k
        return "?"

    def member(self, m):
        if isinstance(m, str):
            return self.junk[int(m[1:])]
        return self.ctl.reg[m]   # IndexError = malformed case (adapter error)

    def arg(self, a):
        if a[0] == "N":
            return 5
        if a[0] == "H":
            if a[1] not in self.pool:
                self.pool[a[1]] = [self.member(m) for m in a[2]]
            return self.pool[a[1]]          # the SAME object every time, content untouched by the harness
        xs = [self.member(m) for m in a[1]]
        if a[0] == "G":
            return iter(xs)
        return xs if a[0] == "L" else tuple(xs)

    def _read(self, node, attr):
        """one adjacency list through the public API; an exception becomes a token, never a traceback"""
        try:
            return [self.ident(o) for o in getattr(node, attr)]
        except _Timeout:
            raise
        except Exception as e:
            return ["crash:" + type(e).__name__]

    def snapshot(self):
        return [(self._read(x, "parents"), self._read(x, "children")) for x in self.ctl.reg]

    def apply(self, op) -> str:
        """run one operation through the public API; 'ok' or 'rej' (any exception)"""
        k = op[0]
        ctl = self.ctl
        ctl.fp = ctl.fc = "none"
        ctl.op = op     # the class of the exception a raising hook throws is a function of the op
        if k == "P":
            v, a = self.ctl.reg[op[1]], self.arg(op[2])
            ctl.fp = op[3]
            try:
                v.parents = a
            except Exception:
                return "rej"
            finally:
                ctl.fp = "none"
        elif k == "C":
            v, a = self.ctl.reg[op[1]], self.arg(op[2])
            ctl.fc = op[3]
            try:
                v.children = a
            except Exception:
                return "rej"
            finally:
                ctl.fc = "none"
        elif k in ("R", "S"):
            v, o = self.ctl.reg[op[1]], self.member(op[2])
            ctl.fp = op[3]
            try:
                if k == "R":
                    v >> o
                else:
                    v << o
            except Exception:
                return "rej"
            finally:
                ctl.fp = "none"
        elif k == "D":
            v = self.ctl.reg[op[1]]
            try:
                del v.children
            except Exception:
                return "rej"
        elif k == "X":
            v = self.ctl.reg[op[1]]
            try:
                del v[op[2]]
            except Exception:
                return "rej"
        elif k == "M":
            if len(op) > 3 and op[3] == "F":
                # a library call on OTHER, fresh objects that fails half-way (a cyclic relation handed to a DAG
                # constructor, ...): the model sees an event that calls nothing; process-wide state must not leak
                from props._store_util import failing_library_call
                try:
                    failing_library_call(op[4])
                except Exception:
                    pass
            objs = [self.member(m) for m in op[2]]
            if op[1] in self.pool:
                self.pool[op[1]][:] = objs
            else:
                self.pool[op[1]] = objs
        elif k == "N":
            ps, cs = self.arg(op[2]), self.arg(op[3])
            ctl.fp, ctl.fc = op[4], op[5]
            n0 = len(ctl.reg)
            try:
                self.HD(op[1], parents=ps, children=cs)
            except Exception:
                if len(ctl.reg) != n0 + 1:
                    raise RuntimeError("constructor did not register its object")
                return "rej"
            finally:
                ctl.fp = ctl.fc = "none"
        else:
            raise ValueError(op)
        return "ok"


class _Timeout(BaseException):
    pass


HANG_SECONDS = 10.0


def _on_alarm(signum, frame):
    raise _Timeout()


def _arm(seconds):
    """wall-clock guard around one history (a broken loop check makes `ancestors` run away)"""
    import signal
    try:
        prev = signal.signal(signal.SIGPROF, _on_alarm)
        signal.setitimer(signal.ITIMER_PROF, seconds)
        return prev
    except ValueError:      # not in the main thread: no guard
        return None


def _disarm(prev):
    import signal
    if prev is not None:
        signal.setitimer(signal.ITIMER_PROF, 0)
        signal.signal(signal.SIGPROF, prev)


_MEMO: dict = {}
_MEMO_MAX = 700000


def run_real(d, assertions=None, with_anc=True, memo=True):
    """execute the history on real DAGNode objects.
    returns [(outcome, snapshot, ancestors|None)] with one entry for the initial state (outcome 'init')
    followed by one per op; snapshot = [(parent ids, child ids)] per node in allocation order."""
    asrt = bool(d["asrt"]) if assertions is None else bool(assertions)
    key = "|".join((line_of(d), repr(d["ops"]), str(asrt), str(with_anc)))
    hit = _MEMO.get(key)
    if hit is not None:
        return json.loads(hit)
    out = _run_real_once(d, asrt, with_anc, HANG_SECONDS)
    if out[-1][0] == "hang":
        # a stall of the whole process (garbage collection, a busy machine) looks the same: once more, longer
        out = _run_real_once(d, asrt, with_anc, 3 * HANG_SECONDS)
    blob = json.dumps(out)      # strings are invisible to the cyclic GC: hundreds of thousands of traces stay cheap
    if memo and len(_MEMO) < _MEMO_MAX:
        _MEMO[key] = blob
    return json.loads(blob)     # always the same shape (lists), memoised or not


def _run_real_once(d, asrt, with_anc, limit):
    import bigtree.node.dagnode as dn
    old = dn.ASSERTIONS
    dn.ASSERTIONS = asrt
    timer = _arm(limit)
    try:
        w = World(d["names"])
        out = [("init", w.snapshot(), None)]
        for op in d["ops"]:
            try:
                o = w.apply(op)
            except _Timeout:
                out.append(("hang", w.snapshot(), None))
                break
            snap = w.snapshot()
            anc = None
            acyc = _acyclic(snap)
            if with_anc and asrt and acyc and not _crashed(snap):
                anc = [w._read(x, "ancestors") for x in w.reg]
            out.append((o, snap, anc))
            if asrt and not acyc:
                break   # the guards walk `ancestors`, which does not terminate on a cyclic store: stop here
    except _Timeout:
        out.append(("hang", [], None))
    finally:
        _disarm(timer)
        dn.ASSERTIONS = old
    return out


def _crashed(snap) -> bool:
    return any(isinstance(x, str) and x.startswith("crash:") for ps, cs in snap for x in list(ps) + list(cs))


def _fmt_snap(snap) -> str:
    return " ".join(f"{i}:{_ms(p)}/{_ms(c)}" for i, (p, c) in enumerate(snap))


def _real_iter(d, asrt) -> str:
    """replay the history on fresh real objects and drive `dag_iterator` from node d["iter"] of the final state"""
    import bigtree.node.dagnode as dn
    from bigtree import dag_iterator
    old = dn.ASSERTIONS
    dn.ASSERTIONS = asrt
    timer = _arm(HANG_SECONDS)
    try:
        w = World(d["names"])
        for op in d["ops"]:
            w.apply(op)
        pairs = [(w.ident(p), w.ident(c)) for p, c in dag_iterator(w.reg[d["iter"]])]
    except _Timeout:
        return "iter hang"
    except Exception as e:  # noqa: BLE001
        return "iter crash:" + type(e).__name__
    finally:
        _disarm(timer)
        dn.ASSERTIONS = old
    return "iter " + (",".join(f"{p}>{c}" for p, c in pairs) if pairs else "-")


def _real_copy(d, asrt) -> str:
    """replay the history on fresh real objects, then `node.copy()` - first of node d["copy"], then of every node no copy
    has covered yet (one copy per weakly connected component) - and print the cells of the duplicates: the duplicate of
    node i is written i+n, as in the model's mirrored store (tie of DagStore.deepCopy, C07Dag.*).  The originals must
    be what they were."""
    import bigtree.node.dagnode as dn
    old = dn.ASSERTIONS
    dn.ASSERTIONS = asrt
    timer = _arm(HANG_SECONDS)
    try:
        w = World(d["names"])
        for op in d["ops"]:
            w.apply(op)
        reg = list(w.ctl.reg)
        n = len(reg)
        for i, x in enumerate(reg):
            x._vid = i                       # private: copied along, never part of an observation
        before = [([id(p) for p in x.parents], [id(c) for c in x.children]) for x in reg]
        cells = {}
        for start in [d["copy"]] + list(range(n)):
            if start in cells:
                continue
            seen, todo = {}, [reg[start].copy()]
            while todo:
                y = todo.pop()
                if id(y) in seen:
                    continue
                seen[id(y)] = y
                todo += list(y.parents) + list(y.children)
            for y in seen.values():
                if any(y is x for x in reg):
                    return "copy shares-objects"
                if y._vid in cells:
                    return "copy covers-a-node-twice"
                cells[y._vid] = (",".join(str(p._vid + n) for p in y.parents) or "-",
                                 ",".join(str(c._vid + n) for c in y.children) or "-")
        if before != [([id(p) for p in x.parents], [id(c) for c in x.children]) for x in reg]:
            return "copy changed-the-original"
    except _Timeout:
        return "copy hang"
    except Exception as e:  # noqa: BLE001
        return "copy crash:" + type(e).__name__
    finally:
        _disarm(timer)
        dn.ASSERTIONS = old
    return "copy " + " ".join(f"{i + n}:{cells[i][0]}/{cells[i][1]}" for i in range(n) if i in cells)


def impl_history(d, assertions=None) -> str:
    tr = run_real(d, assertions)
    out = " ; ".join(f"{o} {_fmt_snap(s)}" for o, s, _ in tr[1:])
    if d.get("iter") is not None:
        asrt = bool(d["asrt"]) if assertions is None else bool(assertions)
        out += " ; " + _real_iter(d, asrt)
    if d.get("copy") is not None:
        asrt = bool(d["asrt"]) if assertions is None else bool(assertions)
        out += " ; " + _real_copy(d, asrt)
    return out


def impl(case) -> str:
    return impl_history(case.data)


ORDER_DIFFS = []


def _parse_out(s):
    res = []
    for part in s.split(" ; "):
        toks = part.split(" ")
        if toks[0] == "iter":      # the iterator of the final state: a multiset of pairs
            res.append(("iter", sorted(toks[1].split(","))))
            continue
        nodes = []
        for t in toks[1:]:
            i, rest = t.split(":", 1)
            p, c = rest.split("/")
            nodes.append((i, sorted(p.split(",")), sorted(c.split(","))))
        res.append((toks[0], nodes))
    return res


def compare(a: str, b: str, case=None) -> bool:
    """the property constrains the adjacency lists as duplicate-free sets: compare as multisets
    (a pure re-ordering is recorded in ORDER_DIFFS, it is not an alarm)"""
    if a == b:
        return True
    if a.startswith("adapter-error") or b in ("bad-op", "unimplemented") or not a or not b:
        return False
    try:
        same = _parse_out(a) == _parse_out(b)
    except Exception:
        return False
    if same:
        ORDER_DIFFS.append(case.line if case is not None else a)
        if len(ORDER_DIFFS) <= 3:
            print(f"[C10] note: list ORDER differs from the model (sets equal): impl={a[:200]} model={b[:200]}", file=sys.stderr)
    return same


# ------------------------------------------------------------------ oracles (model-free)
def _edges(snap):
    """edge set read off the parents lists, and off the children lists"""
    up = {(p, i) for i, (ps, _) in enumerate(snap) for p in ps}
    down = {(i, c) for i, (_, cs) in enumerate(snap) for c in cs}
    return up, down


def _reach(snap, start, direction):
    """nodes reachable from start by >=1 step along parents (direction 0) or children (1): plain graph search"""
    seen, todo = set(), [start]
    while todo:
        x = todo.pop()
        if not isinstance(x, int) or x >= len(snap):
            continue
        for y in snap[x][direction]:
            if y not in seen:
                seen.add(y)
                todo.append(y)
    return seen


def _acyclic(snap) -> bool:
    return all(i not in _reach(snap, i, 0) and i not in _reach(snap, i, 1) for i in range(len(snap)))


def _requested(op, n_before):
    """(edges the call asks for, or None when the argument is not a collection of nodes)"""
    k = op[0]
    def nodes(a):
        if a[0] == "N":
            return None
        return list(a[1])
    if k == "P":
        ms = nodes(op[2])
        return None if ms is None else [(m, op[1]) for m in ms]
    if k == "C":
        ms = nodes(op[2])
        return None if ms is None else [(op[1], m) for m in ms]
    if k == "R":
        return [(op[1], op[2])]
    if k == "S":
        return [(op[2], op[1])]
    if k == "N":
        ps, cs = nodes(op[2]), nodes(op[3])
        if ps is None or cs is None:
            return None
        return [(m, n_before) for m in ps] + [(n_before, m) for m in cs]
    return []


def _must_refuse(op, before):
    """does the requested assignment contain a non-node, a self-loop, a repeated member, or close a cycle
    (decided on the graph *before* the call by graph search) — the cases C10 says are refused"""
    k = op[0]
    n = len(before)
    reasons = []
    def check(v, ms, as_parents):
        if any(isinstance(m, str) for m in ms):
            reasons.append("non-node member")
            return
        if len(set(ms)) != len(ms):
            reasons.append("repeated member")
        if v in ms:
            reasons.append("self-loop")
        if v < n:
            if as_parents:   # m -> v closes a cycle iff m is a descendant of v
                desc = _reach(before, v, 1)
                if any(m in desc for m in ms):
                    reasons.append("cycle")
            else:            # v -> m closes a cycle iff m is an ancestor of v
                anc = _reach(before, v, 0)
                if any(m in anc for m in ms):
                    reasons.append("cycle")
    if k == "P" and op[2][0] != "N":
        check(op[1], op[2][1], True)
    elif k == "C" and op[2][0] != "N":
        check(op[1], op[2][1], False)
    elif k == "R":
        if isinstance(op[2], str):
            reasons.append("non-node member")
        else:
            check(op[2], [op[1]], True)
    elif k == "S":
        check(op[1], [op[2]], True)
    elif k == "N":
        ps = op[2][1] if op[2][0] != "N" else []
        cs = op[3][1] if op[3][0] != "N" else []
        if any(isinstance(m, str) for m in list(ps) + list(cs)):
            reasons.append("non-node member")
        else:
            if len(set(ps)) != len(ps) or len(set(cs)) != len(cs):
                reasons.append("repeated member")
            # new node v with parents ps and children cs: cycle iff some child is an ancestor-or-self of some parent
            for c in cs:
                up = _reach(before, c, 1) | {c}
                if any(p in up for p in ps):
                    reasons.append("cycle")
                    break
    return reasons


def _wf_msgs(snap, where):
    msgs = []
    n = len(snap)
    for i, (ps, cs) in enumerate(snap):
        for lst, nm in ((ps, "parents"), (cs, "children")):
            if any((not isinstance(x, int)) or x >= n for x in lst):
                msgs.append(f"{where}: node {i} lists a non-node in its {nm}: {lst}")
            if len(set(map(str, lst))) != len(lst):
                msgs.append(f"{where}: node {i} lists an edge twice in its {nm}: {lst}")
    up, down = _edges(snap)
    if up != down:
        for (p, c) in sorted(map(lambda e: (str(e[0]), str(e[1])), up - down)):
            msgs.append(f"{where}: {c} lists {p} as a parent but {p} does not list {c} as a child")
        for (p, c) in sorted(map(lambda e: (str(e[0]), str(e[1])), down - up)):
            msgs.append(f"{where}: {p} lists {c} as a child but {c} does not list {p} as a parent")
    if not msgs:
        for i in range(n):
            if i in _reach(snap, i, 0):
                msgs.append(f"{where}: node {i} is its own ancestor")
    return msgs


def oracle_c10(d, assertions=None):
    """first-principles reading of C10 on the real objects (graph search, set algebra; no model)"""
    tr = run_real(d, assertions)
    asrt = bool(d["asrt"]) if assertions is None else bool(assertions)
    msgs = []
    for k, op in enumerate(d["ops"]):
        if k + 1 >= len(tr):
            break
        _, before, _ = tr[k]
        out, after, anc = tr[k + 1]
        where = f"after op {k} {op_tok(op)} ({out})"
        op = plain_op(op)
        if _crashed(after):
            msgs.append(f"{where}: reading node.parents / node.children raised: {_fmt_snap(after)}")
            break
        if op[0] == "M":
            # no DAGNode API was called: the links cannot have changed (they can if a node adopted the caller's list)
            if after != before:
                msgs.append(f"{where}: the caller changed a list it had passed earlier and the DAG changed with it: "
                            f"before {_fmt_snap(before)} after {_fmt_snap(after)}")
            msgs += _wf_msgs(after, where)
            if msgs:
                break
            continue
        if not asrt and (not _valid_members(op) or _must_refuse(op, before) or _not_a_list(op)):
            break   # checks off: the claim covers the history up to the first call the checks would have refused
        if out == "hang":
            msgs.append(f"{where}: the call did not return within {HANG_SECONDS}s")
            break
        wf = _wf_msgs(after, where)
        msgs += wf
        if wf:
            break
        # node.ancestors agrees with the graph search and never contains the node itself
        if anc is not None:
            for i, a in enumerate(anc):
                if a[:1] and isinstance(a[0], str) and a[0].startswith("crash:"):
                    msgs.append(f"{where}: node {i}.ancestors raised {a[0][6:]}")
                    continue
                if i in a or set(a) != _reach(after, i, 0) or len(set(a)) != len(a):
                    msgs.append(f"{where}: node {i}.ancestors = {a}, graph search gives {sorted(_reach(after, i, 0))}")
        eb, _ = _edges(before)
        ea, _ = _edges(after)
        kind = op[0]
        if kind in ("P", "C", "R", "S", "N"):
            req = _requested(op, len(before))
            if out == "ok":
                if req is None:
                    msgs.append(f"{where}: a non-collection argument was accepted")
                else:
                    if not eb <= ea:
                        msgs.append(f"{where}: an assignment removed edges {sorted(eb - ea)}")
                    if ea != eb | set(req):
                        msgs.append(f"{where}: edges after {sorted(map(str, ea))} != before ∪ requested {sorted(map(str, eb | set(req)))}")
                why = _must_refuse(op, before)
                if why:
                    msgs.append(f"{where}: accepted although it asks for {'/'.join(why)}")
            else:
                # refused / failed: nothing may be lost; a failed constructor may keep the edges of its
                # (successful) parents assignment
                if not eb <= ea:
                    msgs.append(f"{where}: a refused assignment removed edges {sorted(eb - ea)}")
                extra = ea - eb
                if extra:
                    ok_ghost = (kind == "N" and req is not None and
                                extra == {e for e in req if e[1] == len(before)})
                    if not ok_ghost:
                        msgs.append(f"{where}: a refused assignment added edges {sorted(map(str, extra))}")
        elif kind == "D":
            want = {e for e in eb if e[0] != op[1]}
            if out != "ok" or ea != want:
                msgs.append(f"{where}: del children must remove exactly the edges out of {op[1]}: got {sorted(ea)}, want {sorted(want)}")
        elif kind == "X":
            named = {(op[1], c) for c in before[op[1]][1] if d_name(d, before, c) == op[2]}
            removed = eb - ea
            if ea - eb:
                msgs.append(f"{where}: del by name added edges {sorted(ea - eb)}")
            if not removed <= named:
                msgs.append(f"{where}: del by name removed edges that were not named: {sorted(removed - named)}")
            if out == "ok" and len(named) == 1 and removed != named:
                msgs.append(f"{where}: del by name did not remove the named edge {sorted(named)}")
            if out != "ok" and removed:
                msgs.append(f"{where}: del by name raised but removed {sorted(removed)}")
    return msgs


def d_name(d, snap, i):
    """name of node i: initial names, then constructor names in allocation order"""
    names = list(d["names"]) + [op[1] for op in d["ops"] if op[0] == "N"]
    return names[i]


def oracle_c02(d, assertions=None):
    """C02 on DAGNode, model-free: whenever the call raised, every node's parents and children are the
    same objects in the same order as before the call.  The constructor is two assignments (parents, then
    children): when it raises, the state must equal the state before it or the state right after its own
    parents assignment (pre-existing lists unchanged except the new node appended to each requested parent)."""
    tr = run_real(d, assertions)
    asrt = bool(d["asrt"]) if assertions is None else bool(assertions)
    msgs = []
    for k, op in enumerate(d["ops"]):
        if k + 1 >= len(tr):
            break
        _, before, _ = tr[k]
        out, after, _ = tr[k + 1]
        if out != "rej" or op[0] == "M":
            continue
        where = f"op {k} {op_tok(op)} raised"
        op = plain_op(op)
        if not asrt and not _valid_members(op):
            continue   # checks switched off by the user AND an argument the checks exist to refuse: outside C02's claim
        if op[0] != "N":
            if after != before:
                msgs.append(f"{where} but the store changed: before {_fmt_snap(before)} after {_fmt_snap(after)}")
            continue
        new = len(before)
        plain = [[list(p), list(c)] for p, c in before] + [[[], []]]
        if after == plain:
            continue
        ps = op[2][1] if op[2][0] == "L" else None
        if ps is not None and all(isinstance(m, int) and m < new for m in ps) and len(set(ps)) == len(ps):
            half = [[list(p), list(c) + ([new] if i in ps else [])] for i, (p, c) in enumerate(before)] + [[list(ps), []]]
            if after == half:
                continue
        msgs.append(f"{where} but the store is neither the old one nor the one after its parents assignment: "
                    f"before {_fmt_snap(before)} after {_fmt_snap(after)}")
    return msgs


def _valid_members(op) -> bool:
    """argument is a list/tuple of distinct DAGNode objects (what the switched-off checks would have enforced)"""
    lists = []
    if op[0] in ("P", "C"):
        lists = [op[2]]
    elif op[0] == "N":
        lists = [op[2], op[3]]
    elif op[0] in ("R", "S"):
        return isinstance(op[2], int)
    for a in lists:
        if a[0] == "N":
            continue
        if any(isinstance(m, str) for m in a[1]) or len(set(a[1])) != len(a[1]):
            return False
    return True


def _not_a_list(op) -> bool:
    """argument kinds the type checks refuse: anything but a list for parents, a non-iterable for children"""
    if op[0] == "P":
        return op[2][0] != "L"
    if op[0] == "C":
        return op[2][0] == "N"
    if op[0] == "N":
        return op[2][0] != "L" or op[3][0] == "N"
    return False


def oracle(case):
    # with the checks off the clauses are read on the prefix of the history that the checks would have accepted
    return oracle_c10(case.data)


# ------------------------------------------------------------------ generators
def _all_lists(members, maxlen):
    for r in range(maxlen + 1):
        for l in itertools.product(members, repeat=r):
            yield list(l)


def _bfs_states(n, names):
    """all list-exact stores reachable on n nodes (by running the REAL code), each with a shortest history"""
    moves = []
    for v in range(n):
        others = [i for i in range(n) if i != v]
        # a multi-member assignment is the sequence of its single insertions, and `c.parents=[p]` / `p.children=[c]`
        # append to the same two lists: single-member parents assignments reach every store (n <= 3 uses all moves
        # anyway and finds the same 1 / 3 / 49 stores)
        for r in range(1, n if n <= 3 else 2):
            for l in itertools.permutations(others, r):
                moves.append(["P", v, ["L", list(l)], "none"])
                if n <= 3:
                    moves.append(["C", v, ["L", list(l)], "none"])
        moves.append(["D", v])
        for nm in sorted(set(names)):
            moves.append(["X", v, nm])
    def state(h):
        tr = run_real(mk_data(n, h, names), with_anc=False, memo=False)
        return repr(tr[-1][1])
    cap = {1: 50, 2: 100, 3: 600, 4: 12000}.get(n, 12000)   # real counts: 1, 3, 49, 7885; a broken setter may diverge
    seen = {state([]): []}
    frontier = [[]]
    while frontier and len(seen) < cap:
        nxt = []
        for h in frontier:
            for mv in moves:
                h2 = h + [mv]
                st = state(h2)
                if st not in seen:
                    seen[st] = h2
                    nxt.append(h2)
            if len(seen) >= cap:
                break
        frontier = nxt
    return list(seen.values())


_BFS_CACHE: dict = {}


def bfs_states(n, names):
    key = (n, tuple(names))
    if key not in _BFS_CACHE:
        _BFS_CACHE[key] = _bfs_states(n, names)
    return _BFS_CACHE[key]


def _successor_ops(n, names, full):
    """every op x every argument tuple (incl. invalid) on n nodes. `full`: all faults everywhere and lists up to
    length 3 over nodes + one non-node; else all faults for lists up to length 2, length-3 lists without faults"""
    members = list(range(n)) + ["j0"]
    ops = []
    for v in range(n):
        for kind in ("P", "C"):
            for l in _all_lists(members, 3 if n >= 2 else 2):
                if not full and len(l) == 3 and "j0" in l:
                    continue
                fs = FAULTS if (full or len(l) <= 2) else ["none", "post"] if len(set(map(str, l))) == len(l) else ["none"]
                for f in fs:
                    ops.append([kind, v, ["L", l], f])
            for l in _all_lists(members, 2):
                for f in (FAULTS if full else ["none"]):
                    ops.append([kind, v, ["T", l], f])
            for f in FAULTS:
                ops.append([kind, v, ["N"], f])
        for kind in ("R", "S"):
            for m in members + ["j1", "j2", "j3"]:
                for f in FAULTS:
                    ops.append([kind, v, m, f])
        ops.append(["D", v])
        for nm in sorted(set(names)) + ["zz"]:
            ops.append(["X", v, nm])
    return ops


def _constructor_ops(n, full):
    members = list(range(n)) + ["j0"]
    ops = []
    lists = list(_all_lists(members, 2))
    for ps in lists:
        for cs in lists:
            for fp, fc in ([(a, b) for a in FAULTS for b in FAULTS] if full else
                           [("none", "none"), ("post", "none"), ("none", "post"), ("none", "pre"), ("pre", "none")]):
                ops.append(["N", "a", ["L", ps], ["L", cs], fp, fc])
    for a in (["N"], ["T", [0] if n else []]):
        ops.append(["N", "b", a, ["L", []], "none", "none"])
        ops.append(["N", "b", ["L", []], a, "none", "none"])
    return ops


EXH_NAMES = ["a", "b", "a", "c"]


def gen_exhaustive(tier, asrt=1):
    """successor enumeration: every reachable list-exact store on <=3 nodes x every op x every argument tuple"""
    out = []
    full = tier == "thorough"
    for n in (1, 2, 3):
        names = EXH_NAMES[:n]
        states = bfs_states(n, names)
        ops = _successor_ops(n, names, full)
        cops = _constructor_ops(n, full) if n <= 2 else []
        for h in states:
            for op in ops:
                out.append((mk_data(n, h + [op], names, asrt), ("exh", "n=%d" % n, "op=" + op[0])))
            for op in cops:
                out.append((mk_data(n, h + [op], names, asrt), ("exh", "n=%d" % n, "op=N")))
    return out


def gen_exhaustive4(rng, per_state):
    """thorough: every reachable list-exact store on 4 nodes x a random sample of ops"""
    out = []
    names = EXH_NAMES[:4]
    states = bfs_states(4, names)
    members = list(range(4)) + ["j0"]
    for h in states:
        for _ in range(per_state):
            op = None
            while op is None:
                op = _random_op(rng, 4, names, None, 0.3, 0.5, members)
            out.append((mk_data(4, h + [op], names, 1), ("exh4", "n=4", "op=" + op[0])))
    return out


def _random_list(rng, pool, maxlen):
    k = rng.choice([0, 1, 1, 1, 2, 2, 3, maxlen])
    k = min(k, maxlen)
    return [rng.choice(pool) for _ in range(k)]


def _random_op(rng, n, names, rank, fault_rate, wild, members=None):
    """one op on n nodes. With `rank` (a hidden topological order) members are chosen so that the edge goes from
    lower to higher rank (always acyclic) unless the op is 'wild' (probability `wild`): then anything goes."""
    f = rng.choice(["pre", "post", "post"]) if rng.random() < fault_rate else "none"
    v = rng.randrange(n)
    r = rng.random()
    is_wild = rng.random() < wild or rank is None
    allm = members if members is not None else list(range(n)) + ["j%d" % rng.randrange(JUNK_N)]
    def pick(as_parent_of_v, k):
        if is_wild:
            return [rng.choice(allm) for _ in range(k)]
        pool = [u for u in range(n) if (rank[u] < rank[v] if as_parent_of_v else rank[u] > rank[v])]
        if not pool:
            return []
        return rng.sample(pool, min(k, len(pool)))
    if r < 0.30:
        return ["P", v, [("T" if is_wild and rng.random() < 0.15 else "L"), pick(True, rng.choice([0, 1, 1, 2, 2, 3, 4]))], f]
    if r < 0.55:
        return ["C", v, [rng.choice(["T", "G", "G"]) if rng.random() < 0.2 else "L", pick(False, rng.choice([0, 1, 1, 2, 2, 3, 4]))], f]
    if r < 0.65:
        m = pick(False, 1)
        return ["R", v, (m[0] if m else rng.choice(allm)), f]
    if r < 0.75:
        m = pick(True, 1)
        return ["S", v, (m[0] if m else rng.choice(allm)), f]
    if r < 0.80:
        return ["D", v]
    if r < 0.90:
        return ["X", v, rng.choice(list(names) + ["zz"])]
    if r < 0.93 and is_wild:
        return [rng.choice(["P", "C"]), v, ["N"], f]
    return None  # constructor, built by the caller (needs the running node count)


def gen_random_history(rng, fault_rate=0.25, nmin=4, nmax=8, maxops=40, wild=0.15, asrt=1):
    n = rng.randint(nmin, nmax)
    alphabet = rng.choice([["a", "b", "c"], ["n%d" % i for i in range(12)], ["x"], ["a", "é", " ", "a/b"]])
    names = [rng.choice(alphabet) for _ in range(n)]
    rank = list(range(n))
    rng.shuffle(rank)
    ops = []
    cur = n
    content = {}          # caller-side list objects: what the harness last put in them
    share = rng.random() < 0.4
    def maybe_shared(a, ok):
        """re-use a caller-side list object: either pass an existing one again (the op then uses ITS content) or
        register this argument as a new object"""
        if not share or a[0] != "L" or rng.random() > 0.35:
            return a
        k = rng.randrange(3)
        if k in content and rng.random() < 0.7:
            return ["H", k, list(content[k])]
        if k not in content:
            content[k] = list(a[1])
            return ["H", k, list(a[1])]
        return a
    for _ in range(rng.randint(1, maxops)):
        if share and content and rng.random() < 0.06:
            k = rng.choice(sorted(content))
            content[k] = [rng.randrange(cur) for _ in range(rng.choice([0, 1, 2, 3]))]
            ops.append(["M", k, list(content[k])])
            continue
        op = _random_op(rng, cur, names, rank, fault_rate, wild)
        if op is not None and op[0] in ("P", "C"):
            op = [op[0], op[1], maybe_shared(op[2], True), op[3]]
        if op is None:
            if cur >= 12:
                continue
            # constructor: the new node gets a rank; parents below it, children above it (unless wild)
            is_wild = rng.random() < wild
            newrank = rng.random() * (cur + 1) - 0.5
            allm = list(range(cur)) + ["j0"]
            if is_wild:
                ps = _random_list(rng, allm, 3)
                cs = _random_list(rng, allm, 3)
            else:
                lo = [u for u in range(cur) if rank[u] < newrank]
                hi = [u for u in range(cur) if rank[u] > newrank]
                ps = rng.sample(lo, min(len(lo), rng.choice([0, 1, 2, 4])))
                cs = rng.sample(hi, min(len(hi), rng.choice([0, 0, 1, 2])))
            fp = rng.choice(["pre", "post"]) if rng.random() < fault_rate / 2 else "none"
            fc = rng.choice(["pre", "post"]) if rng.random() < fault_rate / 2 else "none"
            nm = rng.choice(alphabet)
            ck = "G" if rng.random() < 0.1 else "L"
            op = ["N", nm, maybe_shared(["L", ps], True), maybe_shared([ck, cs], True), fp, fc]
            rank.append(newrank)
            names.append(nm)
            cur += 1
        ops.append(op)
    return mk_data(n, ops, names[:n], asrt)


def shared_corpus():
    """the same caller-side list object passed to several calls (and changed by the caller in between)"""
    out = []
    H = lambda k, ms: ["H", k, list(ms)]
    seqs = [
        # shared = [a, b]; c.parents = shared; d.parents = shared; e >> c
        [["P", 2, H(0, [0, 1]), "none"], ["P", 3, H(0, [0, 1]), "none"], ["R", 4, 2, "none"], ["R", 5, 3, "none"]],
        [["P", 2, H(0, [0, 1]), "none"], ["P", 3, H(0, [0, 1]), "none"], ["P", 2, ["L", [4]], "none"], ["D", 0]],
        [["P", 2, H(0, [0]), "none"], ["M", 0, [0, 1]], ["P", 3, H(0, [0, 1]), "none"], ["M", 0, []], ["S", 2, 4, "none"]],
        [["P", 2, H(0, [0, 1]), "post"], ["P", 2, H(0, [0, 1]), "none"], ["M", 0, [4]], ["P", 3, H(0, [4]), "none"]],
        [["P", 2, H(0, [0, 1]), "none"], ["M", 0, [5, 4]], ["D", 0], ["P", 3, H(0, [5, 4]), "pre"], ["P", 3, H(0, [5, 4]), "none"]],
        # children setter
        [["C", 0, H(0, [2, 3]), "none"], ["C", 1, H(0, [2, 3]), "none"], ["C", 0, ["L", [4]], "none"], ["R", 1, 5, "none"]],
        [["C", 0, H(0, [2]), "none"], ["M", 0, [2, 3, 4]], ["C", 1, H(0, [2, 3, 4]), "post"], ["C", 1, H(0, [2, 3, 4]), "none"], ["M", 0, []]],
        # one object as parents of one node and children of another
        [["P", 3, H(0, [1, 2]), "none"], ["C", 0, H(0, [1, 2]), "none"], ["R", 4, 3, "none"], ["C", 0, ["L", [5]], "none"]],
        # constructor
        [["N", "c", H(0, [0, 1]), ["L", []], "none", "none"], ["N", "d", H(0, [0, 1]), ["L", []], "none", "none"], ["R", 2, 6, "none"], ["S", 7, 3, "none"]],
        [["N", "c", ["L", []], H(0, [4, 5]), "none", "none"], ["N", "d", ["L", []], H(0, [4, 5]), "none", "none"], ["C", 6, ["L", [3]], "none"], ["M", 0, [1]]],
        [["N", "c", H(0, [0]), H(1, [5]), "none", "none"], ["M", 0, [0, 1]], ["M", 1, [4]], ["N", "d", H(0, [0, 1]), H(1, [4]), "none", "post"], ["P", 6, ["L", [2]], "none"]],
    ]
    for sq in seqs:
        out.append((mk_data(6, sq), ("corpus", "shared-list")))
    return out


def gen_shared_exhaustive(rng, tier):
    """from every list-exact store on 3 nodes: the same list object given to two setter calls, then one more insertion"""
    out = []
    n = 3
    names = EXH_NAMES[:n]
    lists = [list(l) for r in (1, 2) for l in itertools.permutations(range(n), r)]
    combos = []
    for v1 in range(n):
        for v2 in range(n):
            for l in lists:
                for k1, k2 in (("P", "P"), ("C", "C"), ("P", "C"), ("C", "P")):
                    for k3 in ("P", "C"):
                        for w in range(n):
                            for v3 in {v1, v2}:
                                combos.append((v1, v2, l, k1, k2, k3, w, v3))
    for h in bfs_states(n, names):
        empty = not h
        pick = combos if (empty or tier == "thorough") else rng.sample(combos, 40)
        for v1, v2, l, k1, k2, k3, w, v3 in pick:
            ops = [[k1, v1, ["H", 0, l], "none"], [k2, v2, ["H", 0, l], "none"], [k3, v3, ["L", [w]], "none"]]
            out.append((mk_data(n, h + ops, names), ("exh-shared", "n=3")))
    return out


def corpus():
    """explicit cases: cycle attempts through paths of length >= 3 via either setter, shortcuts that must be accepted,
    roll-backs that must keep pre-existing edges, repeated members, the deleters"""
    out = []
    chain = [["P", 1, ["L", [0]], "none"], ["C", 1, ["L", [2]], "none"], ["R", 2, 3, "none"], ["S", 4, 3, "none"]]  # 0>1>2>3>4
    for f in FAULTS:
        closers = [["P", 0, ["L", [4]], f], ["P", 0, ["L", [3]], f], ["C", 4, ["L", [0]], f], ["C", 3, ["L", [0]], f],
                   ["P", 0, ["L", [5, 4]], f], ["C", 4, ["L", [5, 0]], f], ["R", 4, 0, f], ["S", 0, 4, f],
                   ["R", 3, 0, f], ["S", 1, 4, f], ["P", 1, ["L", [0, 3]], f], ["C", 3, ["L", [4, 1]], f],
                   # shortcuts (ancestor as direct parent / descendant as direct child): legal
                   ["P", 4, ["L", [0]], f], ["C", 0, ["L", [4]], f], ["P", 3, ["L", [0, 1, 5]], f], ["C", 1, ["L", [3, 4, 5]], f],
                   ["R", 0, 3, f], ["S", 4, 1, f],
                   # partly present already: roll-back must keep the old edge and its position
                   ["P", 2, ["L", [5, 1, 0]], f], ["C", 2, ["L", [5, 3, 4]], f], ["P", 2, ["L", [1]], f], ["C", 2, ["L", [3]], f],
                   ["P", 2, ["L", [1, 1]], f], ["C", 2, ["L", [5, 5]], f], ["P", 2, ["L", [2]], f], ["C", 2, ["L", [2]], f],
                   ["P", 2, ["L", [5, "j0"]], f], ["C", 2, ["L", [5, "j1"]], f], ["P", 2, ["T", [5]], f], ["C", 2, ["T", [5]], f],
                   ["P", 2, ["N"], f], ["C", 2, ["N"], f],
                   # one-shot iterators as the children argument (D13): read once, assigned and rolled back like a list
                   ["C", 2, ["G", [5, 3, 4]], f], ["C", 0, ["G", [4, 5]], f], ["C", 4, ["G", [5, 0]], f], ["C", 2, ["G", [5, 5]], f],
                   ["C", 2, ["G", []], f], ["C", 3, ["G", [5, "j1"]], f], ["P", 2, ["G", [5]], "none"]]
        for c in closers:
            out.append((mk_data(6, chain + [c]), ("corpus", "chain")))
    diamond = [["C", 0, ["L", [1, 2]], "none"], ["P", 3, ["L", [2, 1]], "none"], ["C", 3, ["L", [4]], "none"]]
    for f in FAULTS:
        for c in [["C", 4, ["L", [0]], f], ["P", 0, ["L", [4]], f], ["C", 3, ["L", [5, 0]], f], ["P", 1, ["L", [5, 4]], f],
                  ["P", 4, ["L", [0, 1, 2]], f], ["C", 0, ["L", [3, 4, 5]], f], ["D", 0], ["D", 3], ["X", 0, "n1"], ["X", 3, "n4"]]:
            out.append((mk_data(6, diamond + [c]), ("corpus", "diamond")))
    # long chain, cycle through a path of length 7
    long = [["R", i, i + 1, "none"] for i in range(7)]
    for c in [["P", 0, ["L", [7]], "none"], ["C", 7, ["L", [0]], "none"], ["C", 7, ["L", [3]], "post"], ["P", 7, ["L", [0, 2, 4]], "post"]]:
        out.append((mk_data(8, long + [c]), ("corpus", "long")))
    # deleters and names
    dupn = [["C", 0, ["L", [1, 2, 3]], "none"]]
    for c in [["X", 0, "a"], ["X", 0, "b"], ["X", 0, "zz"], ["D", 0], ["X", 1, "a"]]:
        out.append((mk_data(4, dupn + [c, ["C", 0, ["L", [3, 2, 1]], "none"]], ["r", "a", "a", "b"]), ("corpus", "delete")))
    # constructor: half-built node when the children assignment fails
    for op in [["N", "x", ["L", [0]], ["L", [0]], "none", "none"], ["N", "x", ["L", [0, 1]], ["L", [2]], "none", "post"],
               ["N", "x", ["L", [0, 1]], ["L", [2]], "post", "none"], ["N", "x", ["L", [2]], ["L", [0]], "none", "none"],
               ["N", "x", ["L", [0]], ["L", [2]], "none", "none"], ["N", "x", ["L", [0, 0]], ["L", []], "none", "none"],
               ["N", "x", ["L", [0, 1]], ["G", [2]], "none", "post"], ["N", "x", ["L", [0]], ["G", [2]], "none", "none"]]:
        out.append((mk_data(3, [["R", 0, 1, "none"], ["R", 1, 2, "none"], op, ["D", 0]]), ("corpus", "constructor")))
    return out


def gen_histories(rng, tier, fault_rate=0.25, asrt=1, exhaustive=True):
    """list of (data, tags): corpus + successor enumeration on <=3 nodes + random histories on 4-8 nodes"""
    out = [(dict(d, asrt=asrt), t) for d, t in corpus() + shared_corpus()]
    if exhaustive:
        out += gen_exhaustive(tier, asrt)
    nrand = 1500 if tier == "quick" else 12000
    for _ in range(nrand):
        d = gen_random_history(rng, fault_rate, asrt=asrt)
        out.append((d, ("rand", "n=%d" % d["n"], "ops=%d" % (10 * (len(d["ops"]) // 10)))))
    for _ in range(nrand // 10):   # hostile stream: mostly malformed arguments
        d = gen_random_history(rng, fault_rate, nmin=2, nmax=5, maxops=12, wild=0.7, asrt=asrt)
        out.append((d, ("rand-wild", "n=%d" % d["n"])))
    # failing library calls between the operations of some random histories (own PRNG: the histories stay what they were)
    r2 = random.Random(7919 + asrt)
    res = []
    for d, t in out:
        if t and t[0] == "rand" and d["ops"] and r2.random() < 0.2:
            ops = list(d["ops"])
            for _ in range(r2.choice([1, 1, 2])):
                v = r2.randrange(7)
                ops.insert(r2.randrange(len(ops) + 1), ["M", 900 + v, [], "F", v])
            d = dict(d, ops=ops)
            t = tuple(t) + ("failing-library-call",)
        res.append((d, t))
    return res


def _distinct_names(d) -> bool:
    names = list(d["names"]) + [o[1] for o in d["ops"] if o[0] == "N"]
    return len(set(names)) == len(names)


def with_iter(d, t):
    """ask for dag_iterator of the final state too (it keys its visited set by name: distinct names only); the start
    node is a function of the case itself, so the random stream of the generator is left as it was"""
    if d["asrt"] == 1 and d["n"] >= 1 and _distinct_names(d):
        k = zlib.crc32(line_of(d).encode())
        d2 = dict(d, iter=k % d["n"])
        if (k >> 8) % 3 == 0 and not any(o[0] == "N" for o in d["ops"]):
            # a third of them also copy the final state (DAGNode.copy of one node per component)
            return dict(d2, copy=(k >> 12) % d["n"]), tuple(t) + ("iter", "copy")
        return d2, tuple(t) + ("iter",)
    return d, t


def gen(rng, tier):
    cases = [mk_case(*with_iter(d, t)) for d, t in gen_histories(rng, tier, 0.25, asrt=1)]
    cases += [mk_case(d, t) for d, t in gen_shared_exhaustive(random.Random(rng.random()), tier)]
    if tier == "thorough":
        cases += [mk_case(d, t) for d, t in gen_exhaustive4(rng, 12)]
    # the switch: the same kinds of histories with the checks off (the model is parameterised by it)
    sub = random.Random(rng.random())
    off = gen_histories(sub, tier, 0.25, asrt=0, exhaustive=False)
    cases += [mk_case(d, t + ("asrt=0",)) for d, t in off[: (400 if tier == "quick" else 3000)]]
    gc.collect()
    gc.freeze()     # several 100k case objects: keep them out of later full collections (multi-second pauses otherwise)
    return cases


def nontrivial(case):
    d = case.data
    if d["n"] < 2 and not any(o[0] == "N" for o in d["ops"]):
        return False
    def sz(o):
        if o[0] in ("P", "C"):
            pa = plain_arg(o[2])
            return len(pa[1]) if pa[0] != "N" else 0
        if o[0] == "M":
            return 0
        if o[0] == "N":
            return 1
        return 1
    return sum(sz(o) for o in d["ops"]) >= 2


def shrink(case):
    d = case.data
    ops = d["ops"]
    def mk(newops):
        nd = dict(d, ops=newops)
        return Case(line_of(nd), nd, case.tags)
    # drop one op (constructors only when no later op mentions an id allocated at or after it)
    alloc = d["n"]
    for i, o in enumerate(ops):
        if o[0] == "M":
            continue        # later uses of that list object record the content written here
        if o[0] == "N":
            later = ops[i + 1:]
            def mentions(op, lim):
                xs = []
                if op[0] in ("P", "C"):
                    pa = plain_arg(op[2])
                    xs = [op[1]] + (pa[1] if pa[0] != "N" else [])
                elif op[0] in ("R", "S"):
                    xs = [op[1], op[2]]
                elif op[0] in ("D", "X"):
                    xs = [op[1]]
                elif op[0] == "N":
                    xs = [10 ** 9]
                elif op[0] == "M":
                    xs = list(op[2])
                return any(isinstance(x, int) and x >= lim for x in xs)
            ok = not any(mentions(op, alloc) for op in later)
            alloc += 1
            if not ok:
                continue
        yield mk(ops[:i] + ops[i + 1:])
    # less sharing: a shared list object replaced by an equal fresh list
    for i, o in enumerate(ops):
        if o[0] in ("P", "C") and o[2][0] == "H":
            yield mk(ops[:i] + [[o[0], o[1], plain_arg(o[2]), o[3]]] + ops[i + 1:])
        if o[0] == "N" and (o[2][0] == "H" or o[3][0] == "H"):
            yield mk(ops[:i] + [[o[0], o[1], plain_arg(o[2]), plain_arg(o[3]), o[4], o[5]]] + ops[i + 1:])
    # faults off, shorter member lists
    for i, o in enumerate(ops):
        if o[0] in ("P", "C", "R", "S") and o[3] != "none":
            yield mk(ops[:i] + [o[:3] + ["none"]] + ops[i + 1:])
        if o[0] in ("P", "C") and o[2][0] in ("L", "T") and len(o[2][1]) > 0:
            for j in range(len(o[2][1])):
                yield mk(ops[:i] + [[o[0], o[1], [o[2][0], o[2][1][:j] + o[2][1][j + 1:]], o[3]]] + ops[i + 1:])


RULE = ("one case = one whole history on DAGNode objects (user subclass whose four hooks raise on demand): corpus of cycle "
        "attempts through paths of length >= 3 via either setter + successor enumeration (every list-exact store reachable "
        "on <= 3 nodes x every op x every argument tuple incl. non-nodes, self, repeats, tuples, non-iterables x fault) + "
        "random histories on 4-8 nodes (1-40 ops, up to 4 parents, ~25% faults, ~15% malformed; a hostile stream with 70% "
        "malformed) + the same with the checks off + argument re-use: the SAME caller-side list object passed to two or more "
        "setter / constructor calls of one history and overwritten in place by the caller between calls (corpus, 40% of the "
        "random histories, and from every 3-node store: two calls sharing one list object then one more insertion); "
        "checks-on histories whose node names are pairwise distinct (tag iter) additionally compare dag_iterator from one node "
        "of the final state with Dag.dagIter of the graph read off the model's final store (DagStore.toDag, the bridge to "
        "C16/C17), as multisets of (parent, child) pairs; "
        "non-trivial = the history asks for >= 2 edges/deletions on >= 2 nodes")
EXHAUSTIVE = {
    "quick": "all list-exact stores reachable on 1..3 DAG nodes (1 + 3 + 49 states, found by breadth-first search on the real "
             "code) x every operation x every receiver x every member list of length <= 3 over the nodes and a non-node "
             "(all three fault points for lists of length <= 2; length-3 lists over the nodes with none/post) + tuples, "
             "non-iterables, >>, <<, both deleters, constructor with every pair of lists of length <= 2 (<= 2 nodes)",
    "thorough": "(shared list objects: every 3-node store x every (receiver pair, list, setter pair, follow-up insertion)) "
                "as quick with all three fault points everywhere and all nine fault pairs for the constructor; plus every "
                "list-exact store reachable on 4 nodes (7885 states) x 12 random operations each (states exhaustive, operations sampled)",
}
MODELLED = [
    "DAGNode objects are ids in allocation order; identity = equality of ids; ids >= n stand for non-node objects",
    "user hooks may raise at the four documented points and do nothing else",
    "the model has values, not references: a list object the caller passes twice is two equal lists to the model, and a "
    "caller overwriting its own list afterwards is a no-op on the store; any aliasing of the argument on the real side "
    "therefore shows as a disagreement",
    "exceptions are modelled by kind (ok / rej); list.remove on an absent element and attribute access on a non-node abort "
    "the roll-back loop exactly where Python does",
    "the constructor is modelled as allocation followed by the two setters; a failing children assignment leaves the "
    "half-built node linked to its parents (as in the code)",
]
ASSUMPTIONS = [
    "hooks do not themselves mutate links",
    "arguments are lists, tuples or non-iterables whose members are DAGNode objects or plain non-node objects "
    "(None, int, str, object()); single-pass iterators are not generated",
    "C10's clauses are claimed (theorems) for the default configuration ASSERTIONS=True; with the checks off the oracle "
    "reads them on the prefix of each history up to the first call the checks would have refused, the rest is model "
    "correspondence only",
]
LEVEL_TEXT = ("Lean 4 proof, for all stores, all operation histories, all arguments (valid or not) and all hook-fault points, "
              "about a statement-level model of dagnode.py (DagStore), tied to /repo by differential testing of the real "
              "DAGNode API against the compiled model on every run")
LEVEL_NOTE = ("Proved (no sorry, standard axioms only): DWF (p in parents c <-> c in children p; both lists Nodup; ids in range; "
              "Acc of the parent relation = nobody is its own ancestor) holds initially and is preserved by every operation "
              "(both setters, >>, <<, both deleters, constructor) with every argument and every fault, hence over every "
              "history and every intermediate store; assignments only add (old lists are prefixes) and an accepted one adds "
              "exactly the requested edges (also list-exactly); deletions remove exactly the named edges; self-loops, cycles "
              "through paths of any length, repeated members and non-nodes are refused; the guard that looks at the initial "
              "store only is sufficient for the sequential insertion loop; the fuel n+1 of the recursive `ancestors` is "
              "complete. Rests on the tie: that DagStore mirrors dagnode.py (0 disagreements; lists compared as multisets, "
              "order differences logged). Not covered: single-pass iterator arguments, hooks that mutate links, "
              "behaviour with the checks switched off beyond the model correspondence.")
TECHNIQUE = "machine-checked proof (Lean 4) on a hand-written executable model + correspondence check against the real code"
NOT_READY = False
RULE = RULE + " Fourth session: a third of the distinct-name checks-on histories without constructor calls end with copy=<v>: one node.copy() per weakly connected component of the final state, compared cell by cell with DagStore.deepCopy of the model's final store (tie of C07Dag.*); failing library calls (cyclic relation lists, ...) as no-op events between the operations of a fifth of the random histories."
RULE = RULE + ' Fifth session: one-shot iterators as children arguments (argument kind G; the setter reads its argument once, D13); every DAG mixes two user classes; theorem children_arg_kind_irrelevant.'
