"""Helpers shared by C05 and C13 (group E: constructors): value normalisation, canonical
printing of result trees, DataFrame construction through the real pandas / polars."""
from __future__ import annotations
import math
import core
from core import hx, enc_val

NAME_FAMILY = ["a", "b", "ab", "ba", "aa", "xa", "a b", "a.b", "c"]
SEPS = ["/", ".", "\\", "|"]
SEP_MULTI = "::"

# attribute columns: fixed type per key so that DataFrame columns are homogeneous
ATTR_TYPES = {"v": "int", "w": "str", "f": "bool", "age": "int", "name": "str"}
STR_POOL = ["", "x", "a/b", "hello world", "é", "0", "a"]


def norm_val(v):
    """what came out of a node attribute -> JSON-able canonical value (numbers compared
    numerically: pandas up-casts an int column with missing cells to float)"""
    if v is None:
        return None
    if isinstance(v, bool):
        return v
    try:
        import numpy as np
        if isinstance(v, np.bool_):
            return bool(v)
        if isinstance(v, np.integer):
            return int(v)
        if isinstance(v, np.floating):
            v = float(v)
    except ImportError:  # pragma: no cover
        pass
    if isinstance(v, int):
        return v
    if isinstance(v, float):
        if math.isnan(v):
            return None
        if v.is_integer():
            return int(v)
        raise ValueError("non-integral float attribute %r" % v)
    if isinstance(v, str):
        return v
    raise TypeError("unexpected attribute value %r" % (v,))


def node_attrs(n) -> dict:
    return {k: norm_val(v) for k, v in n.describe(exclude_prefix="_", exclude_attributes=["name"])}


def enc_attrs_sorted(a: dict) -> str:
    if not a:
        return "-"
    items = sorted(((hx(k), enc_val(v)) for k, v in a.items()), key=lambda kv: kv[0])
    return ",".join(k + ":" + v for k, v in items)


def show_res(root, ids=None) -> str:
    """( <id|n> xname attrs child* ) ; ids: core.IdMap of the pre-existing nodes or None"""
    out = []
    def go(n):
        i = "n"
        if ids is not None:
            k = ids(n)
            if k != "?":
                i = str(k)
        out.append("( %s %s %s" % (i, hx(n.node_name), enc_attrs_sorted(node_attrs(n))))
        for c in n.children:
            go(c)
        out.append(")")
    go(root)
    return " ".join(out)


def addr_of(n) -> str:
    idx = []
    while n.parent is not None:
        p = n.parent
        k = [i for i, c in enumerate(p.children) if c is n]
        assert len(k) == 1
        idx.append(k[0])
        n = p
    return "r" + "".join(".%d" % k for k in reversed(idx))


def name_path(n):
    out = []
    while n is not None:
        out.append(n.node_name)
        n = n.parent
    return tuple(reversed(out))


def preorder(root):
    out = []
    def go(n):
        out.append(n)
        for c in n.children:
            go(c)
    go(root)
    return out


def rej(e: Exception, named=()) -> str:
    nm = type(e).__name__
    return "rej:" + nm if nm in named else "rej"


# ------------------------------------------------------------------ data frames
def make_frame(lib: str, cols, rows, str_cols=()):
    """cols: column names; rows: list of lists (None = missing). Columns named in `str_cols` are string
    columns (path / child / parent); attribute columns are typed by ATTR_TYPES.
    lib: 'pd' (pandas, default dtypes), 'pdobj' (pandas, dtype=object), 'pl' (polars)"""
    if lib in ("pd", "pdobj"):
        import pandas as pd
        if lib == "pdobj":
            return pd.DataFrame([list(r) for r in rows], columns=list(cols), dtype=object)
        return pd.DataFrame([list(r) for r in rows], columns=list(cols))
    import polars as pl
    tmap = {"int": pl.Int64, "str": pl.String, "bool": pl.Boolean}
    schema = {c: (pl.String if c in str_cols else tmap[ATTR_TYPES.get(c, "str")]) for c in cols}
    return pl.DataFrame([list(r) for r in rows], schema=schema, orient="row")


def rand_attr_value(rng, key):
    t = ATTR_TYPES[key]
    if t == "int":
        return rng.choice([0, 1, 2, 5, -3, 90, 12345678901])
    if t == "bool":
        return rng.random() < 0.5
    return rng.choice(STR_POOL)
