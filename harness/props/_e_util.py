"""Helpers shared by C05 and C13 (group E: constructors): value normalisation, canonical
printing of result trees, DataFrame construction through the real pandas / polars."""
from __future__ import annotations
import math
import core
from core import hx, enc_val

NAME_FAMILY = ["a", "b", "ab", "ba", "aa", "xa", "a b", "a.b", "c"]
SEPS = ["/", ".", "\\", "|"]
SEP_MULTI = "::"

# attribute columns: fixed type per key so that DataFrame columns are homogeneous
ATTR_TYPES = {"v": "int", "w": "str", "f": "bool", "age": "int", "name": "str", "g": "float",
              # column labels that are no Python identifiers (a blank, a keyword, digits): pandas renames such labels in
              # namedtuple-based row access; as attribute names they are perfectly legal
              "first name": "str", "class": "int", "2024": "int"}
# Float attributes: the models know null | int | str | bool.  A float column is carried through the model as an
# OPAQUE string "~<repr>" (the constructors only copy values and drop missing ones, they never compute with them);
# on the implementation side the cell is the real float.  NaN is the missing value and is never written as "~nan".
FLOAT_POOL = ["~0.5", "~-2.25", "~inf", "~-inf", "~1e+300"]


def to_cell(v):
    """case value -> the Python object handed to the library"""
    if isinstance(v, str) and v.startswith("~"):
        return float(v[1:])
    return v

STR_POOL = ["", "x", "a/b", "hello world", "é", "0", "a", "NaN", " NAN "]   # (not "nan": astype(str) of a missing cell)


def norm_val(v):
    """what came out of a node attribute -> JSON-able canonical value (numbers compared
    numerically: pandas up-casts an int column with missing cells to float)"""
    if v is None:
        return None
    if isinstance(v, bool):
        return v
    try:
        import numpy as np
        if isinstance(v, np.bool_):
            return bool(v)
        if isinstance(v, np.integer):
            return int(v)
        if isinstance(v, np.floating):
            v = float(v)
    except ImportError:  # pragma: no cover
        pass
    if isinstance(v, int):
        return v
    if isinstance(v, float):
        if math.isnan(v):
            return None
        if v.is_integer() and abs(v) < 2 ** 62:
            return int(v)
        return "~" + repr(v)
    if isinstance(v, str):
        return v
    raise TypeError("unexpected attribute value %r" % (v,))


def node_attrs(n) -> dict:
    return {k: norm_val(v) for k, v in n.describe(exclude_prefix="_", exclude_attributes=["name"])}


def enc_attrs_sorted(a: dict) -> str:
    if not a:
        return "-"
    items = sorted(((hx(k), enc_val(v)) for k, v in a.items()), key=lambda kv: kv[0])
    return ",".join(k + ":" + v for k, v in items)


def show_res(root, ids=None) -> str:
    """( <id|n> xname attrs child* ) ; ids: core.IdMap of the pre-existing nodes or None"""
    out = []
    def go(n):
        i = "n"
        if ids is not None:
            k = ids(n)
            if k != "?":
                i = str(k)
        out.append("( %s %s %s" % (i, hx(n.node_name), enc_attrs_sorted(node_attrs(n))))
        for c in n.children:
            go(c)
        out.append(")")
    go(root)
    return " ".join(out)


def addr_of(n) -> str:
    idx = []
    while n.parent is not None:
        p = n.parent
        k = [i for i, c in enumerate(p.children) if c is n]
        assert len(k) == 1
        idx.append(k[0])
        n = p
    return "r" + "".join(".%d" % k for k in reversed(idx))


def name_path(n):
    out = []
    while n is not None:
        out.append(n.node_name)
        n = n.parent
    return tuple(reversed(out))


def preorder(root):
    out = []
    def go(n):
        out.append(n)
        for c in n.children:
            go(c)
    go(root)
    return out


def rej(e: Exception, named=()) -> str:
    nm = type(e).__name__
    return "rej:" + nm if nm in named else "rej"


# ------------------------------------------------------------------ data frames
def odd_index(df, rows):
    """the row labels of a pandas frame are not part of the input's meaning: as a function of the case (no random
    stream involved) two thirds of the frames get a non-default, still unique index - a permutation of 0..n-1 (what
    sort_values / sample / a filter without reset_index leave behind) or string labels"""
    import zlib
    n = len(df)
    k = zlib.crc32(repr(rows).encode()) % 3
    if n == 0 or k == 0:
        return df
    if k == 1:
        df.index = [(i * 7 + 3) % n if n % 7 else (n - 1 - i) for i in range(n)]
    else:
        df.index = ["r%d" % (n - i) for i in range(n)]
    return df


def make_frame(lib: str, cols, rows, str_cols=()):
    """cols: column names; rows: list of lists (None = missing). Columns named in `str_cols` are string
    columns (path / child / parent); attribute columns are typed by ATTR_TYPES.
    lib: 'pd' (pandas, default dtypes), 'pdobj' (pandas, dtype=object), 'pl' (polars)"""
    if lib in ("pd", "pdobj"):
        import pandas as pd
        if lib == "pdobj":
            df = pd.DataFrame([[to_cell(x) for x in r] for r in rows], columns=list(cols), dtype=object)
        else:
            df = pd.DataFrame([[to_cell(x) for x in r] for r in rows], columns=list(cols))
        return odd_index(df, rows)
    import polars as pl
    tmap = {"int": pl.Int64, "str": pl.String, "bool": pl.Boolean, "float": pl.Float64}
    schema = {c: (pl.String if c in str_cols else tmap[ATTR_TYPES.get(c, "str")]) for c in cols}
    return pl.DataFrame([[to_cell(x) for x in r] for r in rows], schema=schema, orient="row")


def rand_attr_value(rng, key):
    t = ATTR_TYPES[key]
    if t == "int":
        return rng.choice([0, 1, 2, 5, -3, 90, 12345678901])
    if t == "bool":
        return rng.random() < 0.5
    if t == "float":
        return rng.choice(FLOAT_POOL)
    return rng.choice(STR_POOL)
