"""C15 — get_tree_diff reports exactly the differences between two trees."""
from __future__ import annotations
import itertools, zlib, math, random
import core
from core import hx
from runner import Case

THEOREMS = ["C15.diff_spec", "C15.diff_marks", "C15.diff_nodes_only_diff", "C15.diff_nodes_all", "C15.diff_identical_none",
            "C15.diff_identical_self", "C15.diff_no_other_change"]
RULE = ("first tree: random shape (1-14 nodes; all shapes <=4 nodes in the enumerated part) labelled from the hostile "
        "alphabet b, bc, b.c, b(, x+, 'a b', c), *, [z], b$, ^a, a|b, \\d, a, ab (sibling names distinct, names that contain a "
        "character of the separator left out); attributes age (int) / tag (str) on ~60% of the nodes; second tree = "
        "the first after a random edit script of 0-4 steps (delete a subtree, add a node, change/remove/add an "
        "attribute); attr_list in {[], [age], [tag], [age, tag]}; only_diff on/off; separators / . \\ | ::. "
        "About a quarter of the random pairs are history-built: the same two tree objects are first diffed in an earlier "
        "state (other attribute values), then edited in place to the final state and diffed again (the model sees the "
        "final state only). The edit script also re-orders siblings; 'positional twins' are pairs that read the same "
        "position by position in pre-order but differ path by path. A case is non-trivial when at least one node is marked; distinct = distinct lines")
EXHAUSTIVE = {"quick": "every ordered shape with <=4 nodes (names b, bc, b.c, b( ... in rotation) x every single-subtree deletion and every single-node addition, only_diff on/off",
              "thorough": "every ordered shape with <=5 nodes x every single-subtree deletion and every single-node addition, only_diff on/off"}
MODELLED = ["a DataFrame is a list of rows; the outer merge on [PATH, name] returns every key once (keys are unique per tree); its row order is not modelled (results are compared as sets of component tuples)",
            "pandas' up-casting (int -> float, None -> NaN) is undone when the carried values are canonicalised (compared numerically, NaN/None as null)",
            "the pair (value in tree, value in other_tree) of a changed node is written as two consecutive attribute entries"]
ASSUMPTIONS = ["both arguments are root Nodes with the same root name",
               "names contain no character of the separator; the separator contains none of the characters of ' (-)', ' (+)', ' (~)'",
               "no name ends in ' (-)', ' (+)' or ' (~)' (otherwise the output format itself is ambiguous)",
               "attribute values are None, int or str; a listed attribute holds values of one type",
               "attr_list has no repeated entry and does not contain 'name' or 'PATH' (they would collide with the frame's own columns)"]

HOSTILE = ["b", "bc", "b.c", "b(", "x+", "a b", "c)", "*", "[z]", "b$", "^a", "a|b", "\\d", "a", "ab"]
SEPS = ["/", "/", "/", ".", "\\", "|", "::"]
ATTRSETS = [[], [], ["age"], ["age"], ["tag"], ["age", "tag"]]


# ---------------------------------------------------------------- specs and edit scripts
def rand_attrs(rng):
    a = {}
    if rng.random() < 0.6:
        a["age"] = rng.choice([1, 2, 3])
    if rng.random() < 0.3:
        a["tag"] = rng.choice(["u", "v", "a b", ""])
    return a


def label(shape, rng, alphabet):
    def go(s, nm):
        pool = list(alphabet)
        rng.shuffle(pool)
        kids = []
        for k, c in enumerate(s):
            cn = pool[k] if k < len(pool) else pool[k % len(pool)] + str(k)
            kids.append(go(c, cn))
        return (nm, rand_attrs(rng), kids)
    return go(shape, rng.choice(["r", "b", "a b", "b("] if "b(" in alphabet else ["r", "b"]))


def to_mut(spec):
    return [spec[0], dict(spec[1]), [to_mut(k) for k in spec[2]]]


def from_mut(m):
    return (m[0], dict(sorted(m[1].items())), [from_mut(k) for k in m[2]])


def all_nodes(m, parent=None, out=None):
    out = [] if out is None else out
    out.append((m, parent))
    for k in m[2]:
        all_nodes(k, m, out)
    return out


def edit(rng, spec, alphabet, steps):
    m = to_mut(spec)
    ops = []
    for _ in range(steps):
        ns = all_nodes(m)
        r = rng.random()
        if r < 0.12:
            cands = [x for x, _ in ns if len(x[2]) >= 2]
            if not cands:
                continue
            node = rng.choice(cands)
            if rng.random() < 0.5:
                node[2].reverse()
            else:
                rng.shuffle(node[2])
            ops.append("perm")
        elif r < 0.4 and len(ns) > 1:
            node, parent = rng.choice(ns[1:])
            parent[2].remove(node)
            ops.append("del")
        elif r < 0.7:
            node, _ = rng.choice(ns)
            nm = rng.choice(alphabet)
            if any(k[0] == nm for k in node[2]):
                continue
            new = [nm, rand_attrs(rng), []]
            pos = rng.randrange(len(node[2]) + 1)
            node[2].insert(pos, new)
            if rng.random() < 0.3:   # a small added subtree
                new[2].append([rng.choice(alphabet), rand_attrs(rng), []])
            ops.append("add")
        else:
            node, _ = rng.choice(ns)
            key = rng.choice(["age", "age", "tag"])
            v = rng.choice([1, 2, 3, None]) if key == "age" else rng.choice(["u", "v", "w", None])
            if v is None:
                node[1].pop(key, None)
            else:
                node[1][key] = v
            ops.append("attr")
    return from_mut(m), ops


def norm(spec):
    return (spec[0], dict(sorted(spec[1].items())), [norm(k) for k in spec[2]])


# ---------------------------------------------------------------- cases
def _line(d):
    al = ",".join(hx(a) for a in d["attr_list"]) if d["attr_list"] else "-"
    return (f"sep={hx(d['sep'])} only={1 if d['only_diff'] else 0} attrs={al} T " + core.enc_tree(d["t1"])
            + " U " + core.enc_tree(d["t2"]))


def mk(t1, t2, sep, only_diff, attr_list, tags=(), prev=None):
    d = {"t1": norm(t1), "t2": norm(t2), "sep": sep, "only_diff": only_diff, "attr_list": list(attr_list)}
    if prev:
        d["prev"] = prev
        tags = tuple(tags) + ("history",)
    return Case(_line(d), d, tags)


def positional_twin(rng, t1):
    """a second tree with the same names in which some sibling lists are re-ordered and the attribute dictionaries are
    re-dealt so that the k-th node in pre-order carries what the k-th node of `t1` carries: the two trees read the
    same position by position and differ path by path"""
    m = to_mut(t1)
    for node, _ in all_nodes(m):
        if len(node[2]) >= 2 and rng.random() < 0.7:
            node[2].reverse() if rng.random() < 0.5 else rng.shuffle(node[2])
    seq = [dict(x[1]) for x, _ in all_nodes(to_mut(t1))]
    for (node, _), a in zip(all_nodes(m), seq):
        node[1].clear()
        node[1].update(a)
    return from_mut(m)


def make_prev(rng, d):
    """an earlier state of the same two objects: same shape plus possibly an extra leaf (detached afterwards), other
    attribute values (edited in place afterwards); returns {"t1": spec, "t2": spec, "extra1": [...], ...}"""
    out = {}
    for which in ("t1", "t2"):
        m = to_mut(d[which])
        for node, _ in all_nodes(m):
            if rng.random() < 0.5:
                for k in ("age", "tag"):
                    r = rng.random()
                    if r < 0.3:
                        node[1].pop(k, None)
                    elif r < 0.6:
                        node[1][k] = rng.choice([1, 2, 3]) if k == "age" else rng.choice(["u", "v", "w"])
        out[which] = from_mut(m)
    out["same_attr_list"] = rng.random() < 0.8
    out["detach_reattach"] = rng.random() < 0.3
    return out


def rehydrate(case):
    return Case(case.line, case.data)


def L(name, *kids, **attrs):
    return (name, attrs, list(kids))


def gen(rng: random.Random, tier: str):
    cases = []
    # ---- corpus: the three D6 witnesses (+ separator) and the docstring examples
    for only in (True, False):
        cases.append(mk(L("r", L("b"), L("bc")), L("r", L("bc")), "/", only, [], ("corpus", "D6-prefix")))
        cases.append(mk(L("r", L("b("), L("x")), L("r", L("x")), "/", only, [], ("corpus", "D6-paren")))
        cases.append(mk(L("r", L("b.c"), L("bxc")), L("r", L("bxc")), "/", only, [], ("corpus", "D6-dot")))
        cases.append(mk(L("r", L("a", L("b")), L("c")), L("r", L("a"), L("c", L("d"))), "\\", only, [], ("corpus", "D6-sep")))
        cases.append(mk(L("r", L("x+", L("*")), L("[z]")), L("r", L("x+"), L("[z]", L("^a"))), "/", only, [], ("corpus", "regex-chars")))
        cases.append(mk(L("Downloads", L("Pictures", L("photo1.jpg", tags="photo1")), L("file1.doc", tags="file1")),
                        L("Downloads", L("Pictures", L("photo1.jpg", tags="photo1-edited"), L("photo2.jpg", tags="photo2-new")), L("file1.doc", tags="file1")),
                        "/", only, ["tags"], ("corpus", "docstring")))
        cases.append(mk(L("r", L("a", L("b", age=1), age=1), age=1), L("r", L("a", L("b", age=2), age=2), age=2), "/", only, ["age"], ("corpus", "nested-changes")))
        cases.append(mk(L("r", L("a", L("b"), age=1)), L("r", L("a", L("c"), age=2)), "/", only, ["age"], ("corpus", "changed-parent-of-marked")))
        cases.append(mk(L("r", L("a", age=1)), L("r", L("a", age=1)), "/", only, ["age"], ("corpus", "identical")))

    # ---- enumerated small scope
    nmax = 4 if tier == "quick" else 5
    names = ["b", "bc", "b.c", "b(", "x+", "c)"]
    for shape in core.all_shapes_upto(nmax):
        ctr = itertools.count()
        spec = core.label(shape, lambda i, d, k, p: "r" if i == 0 else names[(i + k) % len(names)] + ("" if k < len(names) else str(k)))
        # make sibling names distinct deterministically
        def fix(s):
            seen = set(); kids = []
            for k in s[2]:
                nm = k[0]
                while nm in seen:
                    nm = nm + "'"
                seen.add(nm)
                kids.append(fix((nm, k[1], k[2])))
            return (s[0], s[1], kids)
        spec = fix(spec)
        m = to_mut(spec)
        ns = all_nodes(m)
        for idx in range(1, len(ns)):
            m2 = to_mut(spec)
            n2 = all_nodes(m2)
            n2[idx][1][2].remove(n2[idx][0])
            for only in (True, False):
                cases.append(mk(spec, from_mut(m2), "/", only, [], ("enum", "del")))
        for idx in range(len(ns)):
            for nm in ("b", "q"):
                m2 = to_mut(spec)
                n2 = all_nodes(m2)
                if any(k[0] == nm for k in n2[idx][0][2]):
                    continue
                n2[idx][0][2].append([nm, {}, []])
                for only in (True, False):
                    cases.append(mk(spec, from_mut(m2), "/", only, [], ("enum", "add")))

    # ---- random pairs
    nr = 1200 if tier == "quick" else 12000
    for _ in range(nr):
        sep = rng.choice(SEPS)
        alphabet = [a for a in HOSTILE if not (set(a) & set(sep))]
        size = rng.randint(1, 6) if rng.random() < 0.5 else rng.randint(7, 14)
        shape = core.random_shape(rng, size)
        t1 = label(shape, rng, alphabet)
        steps = rng.choice([0, 1, 1, 2, 2, 3, 4])
        t2, ops = edit(rng, t1, alphabet, steps)
        only = rng.random() < 0.5
        al = rng.choice(ATTRSETS)
        tags = ["random", "sep=" + sep, "only" if only else "all", "attrs=%d" % len(al)] + sorted(set(ops)) + (["noedit"] if not ops else [])
        c = mk(t1, t2, sep, only, al, tags)
        if rng.random() < 0.25:
            c = mk(t1, t2, sep, only, al, tags, prev=make_prev(rng, c.data))
        cases.append(c)
    # ---- positional twins: same names, re-ordered siblings, attributes re-dealt by pre-order position
    for _ in range(150 if tier == "quick" else 1500):
        sep = rng.choice(SEPS)
        alphabet = [a for a in HOSTILE if not (set(a) & set(sep))]
        shape = core.random_shape(rng, rng.randint(3, 9))
        t1 = label(shape, rng, alphabet)
        t2 = positional_twin(rng, t1)
        if rng.random() < 0.3:
            t2, _ops = edit(rng, t2, alphabet, 1)
        only = rng.random() < 0.5
        al = rng.choice([["age"], ["age", "tag"], ["tag"]])
        cases.append(mk(t1, t2, sep, only, al, ("twin", "only" if only else "all")))
    for only in (True, False):
        cases.append(mk(L("r", L("x", age=1), L("y", age=2)), L("r", L("y", age=1), L("x", age=2)), "/", only, ["age"], ("corpus", "twin")))
    # ---- large trees: more than 1000 merged paths, the differences near the end of the path order (row positions
    # >= 1000 of the frames the function builds: chunked or position/label based row handling shows only there)
    def big(last_leaf, extra, age):
        kids = []
        for i in range(36):
            leaves = [L("l%02d" % j, **({"age": age} if (i, j) == (35, 27) else {})) for j in range(29)]
            if i == 35:
                leaves = leaves[:28] + ([L(last_leaf)] if last_leaf else []) + ([L(extra)] if extra else [])
            if i == 0:
                # ... and a directory next to siblings named like itself plus a character that sorts BEFORE the separator
                # ('.', ' ', '(', '+'), with differences of its own below it: string order of the paths is not pre-order
                leaves = leaves + [L("yy0" if age == 1 else "zz0")]
            kids.append(L("n%02d" % i, *leaves))
            if i == 0:
                kids += [L("n00.u", L("q", age=age)), L("n00 (l)"), L("n00+e", L("w"))]
        return L("r", *kids)
    for only in (True, False):
        cases.append(mk(big("l28", None, 1), big(None, "zz", 2), "/", only, ["age"], ("corpus", "large", "only" if only else "all")))
    return cases


# ---------------------------------------------------------------- real trees
_PROP = {}


def _prop_class(keys):
    """a Node subclass in which the attributes `keys` live in private fields behind read-only properties"""
    if keys not in _PROP:
        from bigtree import Node
        ns = {k: property(lambda self, _k=k: self.__dict__.get("_p_" + _k)) for k in keys}

        def __init__(self, name, **kw):
            Node.__init__(self, name, **{("_p_" + k if k in keys else k): v for k, v in kw.items()})
        ns["__init__"] = __init__
        _PROP[keys] = type("PropNode", (Node,), ns)
    return _PROP[keys]


def attrs_of(n):
    """public attributes of an input node, property-backed ones included"""
    out = {k: v for k, v in n.describe(exclude_attributes=["name"], exclude_prefix="_")}
    out.update({k[3:]: v for k, v in vars(n).items() if k.startswith("_p_")})
    return out


def build(spec, sep, cls=None):
    from bigtree import Node
    cls = cls or Node
    def go(s, parent):
        n = cls(s[0], sep=sep, **s[1]) if parent is None else cls(s[0], parent=parent, **s[1])
        for k in s[2]:
            go(k, n)
        return n
    return go(spec, None)


def cval(v):
    """undo pandas' up-casting"""
    try:
        import numpy as np
        if isinstance(v, np.generic):
            v = v.item()
    except ImportError:
        pass
    if v is None:
        return None
    if isinstance(v, bool):
        return v
    if isinstance(v, float):
        if math.isnan(v):
            return None
        if v == int(v):
            return int(v)
        return v
    return v


def enc_pairs(n):
    """public attributes of a result node; a tuple value (x, y) is written as two entries"""
    items = []
    for k, v in sorted(n.describe(exclude_attributes=["name"], exclude_prefix="_")):
        if isinstance(v, tuple) and len(v) == 2:
            items.append(hx(k) + ":" + core.enc_val(cval(v[0])))
            items.append(hx(k) + ":" + core.enc_val(cval(v[1])))
        else:
            items.append(hx(k) + ":" + core.enc_val(cval(v)))
    return ",".join(items) if items else "-"


def preorder(n):
    out = [n]
    for c in n.children:
        out += preorder(c)
    return out


def comps(n):
    out = []
    while n is not None:
        out.append(str(n.name))
        n = n.parent
    return tuple(reversed(out))


_CACHE = {}
_ALIASED = []


def _pre_specs(spec):
    out = [spec]
    for k in spec[2]:
        out += _pre_specs(k)
    return out


def run(d):
    """one real call per case (impl and oracle look at the same objects; neither mutates them)"""
    from bigtree import get_tree_diff
    key = id(d)
    hit = _CACHE.get(key)
    if hit is not None and hit[0] is d:
        if isinstance(hit[1], Exception):
            raise hit[1]
        return hit[1]
    prev = d.get("prev")
    if prev:
        # HISTORY: the same two objects were diffed before, in an earlier state; then edited in place
        a = build(prev["t1"], d["sep"])
        b = build(prev["t2"], d["sep"])
        try:
            # with a list object the caller keeps: whatever the call does to it must not matter later
            _kept = list(d["attr_list"]) + ["zz_absent"]
            get_tree_diff(a, b, only_diff=d["only_diff"], attr_list=_kept)
            if _kept != list(d["attr_list"]) + ["zz_absent"]:
                _ALIASED.append(list(_kept))
        except Exception:
            pass
        try:
            # ... and, LAST before the edit, the very request that is compared later (same trees, same options, same
            # attr_list): what it remembers about the two trees is from before the edit
            get_tree_diff(a, b, only_diff=d["only_diff"],
                          attr_list=list(d["attr_list"]) if prev.get("same_attr_list", True) else ["age"])
        except Exception:
            pass
        for tree, spec in ((a, d["t1"]), (b, d["t2"])):
            for n, want in zip(preorder(tree), [x[1] for x in _pre_specs(spec)]):
                for k, _v in list(n.describe(exclude_attributes=["name"], exclude_prefix="_")):
                    if k not in want:
                        delattr(n, k)
                for k, v in want.items():
                    setattr(n, k, v)
            if prev.get("detach_reattach") and tree.children:
                kids = list(tree.children)
                tree.children = []
                tree.children = kids
    else:
        k = zlib.crc32(repr((d["t1"], d["t2"], d["sep"], d["attr_list"])).encode())
        # (function of the case, no random stream) the second tree may come with ANOTHER separator of its own - the
        # function works in the first tree's separator; names never contain that one, they may contain the other
        sep2 = d["sep"] if k % 3 else [x for x in (".", "|", "\\", "/", "b") if x != d["sep"]][(k // 3) % 4]
        # ... and the listed attributes may be supplied by properties of a user subclass (get_attr = getattr)
        cls = _prop_class(tuple(sorted(d["attr_list"]))) if d["attr_list"] and (k // 16) % 3 == 0 else None
        a = build(d["t1"], d["sep"], cls)
        b = build(d["t2"], sep2, cls)
    if len(_CACHE) > 50000:
        _CACHE.clear()
    al = list(d["attr_list"])
    try:
        if _ALIASED:
            raise RuntimeError(f"the caller's attr_list was modified in place by an earlier call: {_ALIASED.pop()}")
        out = (a, b, get_tree_diff(a, b, only_diff=d["only_diff"], attr_list=al))
        if al != list(d["attr_list"]):
            raise RuntimeError(f"the caller's attr_list was modified in place: {al}")
    except Exception as e:
        _CACHE[key] = (d, e)
        raise
    _CACHE[key] = (d, out)
    return out


def impl(case):
    d = case.data
    try:
        _a, _b, res = run(d)
    except Exception:
        return "rej"
    if res is None:
        return "none"
    rows = sorted("/".join(hx(c) for c in comps(n)) + "@" + enc_pairs(n) for n in preorder(res))
    return "ok " + ";".join(rows)


# ---------------------------------------------------------------- oracle (model-free)
def spec_paths(spec):
    out = {}
    def go(s, pre):
        p = pre + (s[0],)
        out[p] = s[1]
        for k in s[2]:
            go(k, p)
    go(spec, ())
    return out


def expected(d):
    """first-principles reading of the statement on the two specifications"""
    P1, P2 = spec_paths(d["t1"]), spec_paths(d["t2"])
    rem = {p for p in P1 if p not in P2}
    add = {p for p in P2 if p not in P1}
    chg = {}
    for p in P1:
        if p in P2:
            dif = {}
            for k in d["attr_list"]:
                x, y = P1[p].get(k), P2[p].get(k)
                if x != y:
                    dif[k] = (x, y)
            if dif:
                chg[p] = dif
    def mark(p):
        out = []
        for i in range(len(p)):
            q = p[:i + 1]
            out.append(p[i] + (" (-)" if q in rem else " (+)" if q in add else " (~)" if q in chg else ""))
        return tuple(out)
    marked = rem | add | set(chg)
    if d["only_diff"]:
        keep = {q[:i + 1] for q in marked for i in range(len(q))}
    else:
        keep = set(P1) | set(P2)
    return {mark(p): chg.get(p, {}) for p in keep}, rem, add, chg


def oracle(case):
    d = case.data
    msgs = []
    try:
        a, b, res = run(d)
    except Exception as e:
        return [f"get_tree_diff raised {type(e).__name__}: {e}"]
    exp, rem, add, chg = expected(d)
    if res is None:
        if exp:
            msgs.append(f"returned None but {len(exp)} nodes were expected")
        return msgs
    if not exp:
        msgs.append("identical trees (for the listed attributes) but a diff tree was returned")
        return msgs
    nodes = preorder(res)
    got = [comps(n) for n in nodes]
    if len(set(got)) != len(got):
        msgs.append("a node is duplicated in the result")
    gs, es = set(got), set(exp)
    if gs != es:
        msgs.append(f"result paths differ from the specification: extra {sorted(gs - es)[:4]} missing {sorted(es - gs)[:4]}")
        return msgs
    for n in nodes:
        want = exp[comps(n)]
        have = {k: (cval(v[0]), cval(v[1])) if isinstance(v, tuple) and len(v) == 2 else cval(v)
                for k, v in n.describe(exclude_attributes=["name"], exclude_prefix="_")}
        if have != want:
            msgs.append(f"node {comps(n)}: carried values {have} != {want}")
    # the inputs are untouched (names, structure, listed attrs)
    for tree, spec in ((a, d["t1"]), (b, d["t2"])):
        if {comps(n): attrs_of(n) for n in preorder(tree)} != {p: dict(v) for p, v in spec_paths(spec).items()}:
            msgs.append("an input tree was altered")
    return msgs


def nontrivial(case):
    d = case.data
    _exp, rem, add, chg = expected(d)
    return bool(rem or add or chg)


# ---------------------------------------------------------------- shrinking
def _without(spec, idx):
    ctr = itertools.count()
    def go(s):
        i = next(ctr)
        kids = [r for r in (go(k) for k in s[2]) if r is not None]
        return None if i == idx else (s[0], s[1], kids)
    return go(spec)


def _size(spec):
    return 1 + sum(_size(k) for k in spec[2])


def shrink(case):
    d = case.data
    if d.get("prev"):
        yield mk(d["t1"], d["t2"], d["sep"], d["only_diff"], d["attr_list"], case.tags)
        return   # (the earlier state is only meaningful for the shape it was generated for)
    if d["attr_list"]:
        yield mk(d["t1"], d["t2"], d["sep"], d["only_diff"], d["attr_list"][:-1], case.tags)
    if d["sep"] != "/" and all("/" not in p[-1] for p in list(spec_paths(d["t1"])) + list(spec_paths(d["t2"]))):
        yield mk(d["t1"], d["t2"], "/", d["only_diff"], d["attr_list"], case.tags)
    for which in ("t1", "t2"):
        for idx in range(_size(d[which]) - 1, 0, -1):
            nd = dict(d)
            nd[which] = _without(d[which], idx)
            yield mk(nd["t1"], nd["t2"], d["sep"], d["only_diff"], d["attr_list"], case.tags)
    # strip attributes
    def strip(s):
        return (s[0], {}, [strip(k) for k in s[2]])
    if any(v for v in spec_paths(d["t1"]).values()) or any(v for v in spec_paths(d["t2"]).values()):
        yield mk(strip(d["t1"]), strip(d["t2"]), d["sep"], d["only_diff"], d["attr_list"], case.tags)


def replay_known(entry) -> bool:
    """K9 (separator made of mark characters), K10 (ints >= 2**53 up-cast to float)"""
    from bigtree import Node, get_tree_diff
    cl = entry.get("witness", {}).get("clause")
    if cl == "separator_of_mark_chars":
        sep = entry["witness"].get("sep", "-")
        t1 = Node("r", sep=sep); Node("b", parent=t1)
        t2 = Node("r", sep=sep); Node("c", parent=t2)
        try:
            res = get_tree_diff(t1, t2)
        except Exception:
            return True
        names = sorted(str(x.node_name) for x in preorder(res)) if res is not None else []
        return names != ["b (-)", "c (+)", "r"]
    if cl == "int_ge_2_53":
        t1 = Node("r"); Node("x", parent=t1, age=2 ** 53); Node("y", parent=t1)
        t2 = Node("r"); Node("x", parent=t2, age=2 ** 53 + 1); Node("y", parent=t2)
        return get_tree_diff(t1, t2, attr_list=["age"]) is None
    return False


NOT_READY = False
LEVEL_TEXT = ("machine-checked (Lean 4), for all pairs of trees with the same root name over every name alphabet (names non-empty, "
              "free of the one-character separator, not themselves ending in a mark, siblings distinct), every attribute list and "
              "only_diff on/off: get_tree_diff as written (string-level rows, outer merge, per-component _add_suffix, rebuild by path "
              "insertion, value pairs and (~) renames applied in reverse-sorted path order) returns exactly the specified tree - its "
              "(path, attributes) rows are a permutation of the kept paths marked component-wise (diff_spec); a node ends in (-) iff "
              "its path is only in the first tree, (+) iff only in the second, (~) iff common with a differing listed attribute, "
              "carrying both values (diff_marks); with only_diff the marked nodes and their ancestors, otherwise every node of either "
              "tree (diff_nodes_only_diff, diff_nodes_all); identical trees give None (diff_identical_none); stripping the marks "
              "gives back exactly the kept paths, each once (diff_no_other_change)")
LEVEL_NOTE = ("the model is tied to the code by differential testing through real pandas on generated tree pairs over the hostile "
              "alphabet (b, bc, b.c, b(, x+, 'a b', c), *, [z], b$, ^a, a|b, \\d) and the separators / . \\ | ::; multi-character "
              "separators are covered by the tie only; the row order of pandas' outer merge is not modelled (results are compared and "
              "specified up to sibling order)"
    ' Known findings K9 (separators made of the mark characters space ( ) - +) and K10 (integers >= 2**53 up-cast to float by pandas) are outside the generated domain and replayed separately on every run.')
TECHNIQUE = "Lean 4 proof (string-level implementation model = component-level specification) + correspondence check against the real library"
RULE = RULE + " Fourth session: the caller's attr_list must be unchanged (also across two calls), the second tree may come with a separator of its own, listed attributes may be properties of a user subclass, two trees with more than 1000 merged paths and the differences at the end."
RULE = RULE + ' Fifth session: in the two-call histories the compared request is the last call before the in-place edit; >1000-row trees with a directory next to siblings named like it plus a character sorting before the separator.'
