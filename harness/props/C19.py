"""C19 — Reingold-Tilford coordinates form a tidy, non-overlapping drawing.

Tie: (x, y) of every node from the real `reingold_tilford` (binary64) against the Lean model
`Plot.layout` (exact rationals), within 1e-9.  Oracle: the clauses of the property read off the
real coordinates.  Known finding K1: the cousin-separation clause is false of the pinned
algorithm (Lean: `C19.rt_full_false`); a cousin failure is K1 exactly when the real coordinates
of that case still equal the pinned model's coordinates.
"""
from __future__ import annotations
import os, random, subprocess
from fractions import Fraction
import core
from runner import Case

THEOREMS = [
    "C19.rt_levels", "C19.rt_midpoint", "C19.rt_siblings", "C19.rt_nonneg", "C19.rt_full_false",
    "C19.rt_shape", "Plot.gss_fuel_sufficient", "Plot.firstPass_good",
]
PROOF_IMPORTS = ["BigtreeProofs.Properties.C19"]
EPS = Fraction(1, 10**9)
SEPS = ["1/2", "1", "3/2", "2", "3"]
OFFS = ["0", "0", "1/2", "1", "5/2", "7"]

RULE = ("every ordered tree shape up to N nodes (quick N=7: 197 shapes, thorough N=8: 626) x every "
        "(sibling, subtree) separation pair from {1/2,1,3/2,2,3}^2 with level separation and the two "
        "offsets drawn from {1/2,1,3/2,2,3} / {0,1/2,1,5/2,7}; plus seeded random trees with 8..30 nodes "
        "(shapes: bushy, path, caterpillar, one deep branch, uniform, 'recent parent') and a corpus (K1 "
        "witness, docstring tree, wide fans over deep middles). reingold_tilford rejects nothing, so there "
        "is no malformed stream. A case is non-trivial when some node has two children that both have "
        "children (the contour comparison of _get_subtree_shift actually recurses); distinct = distinct "
        "protocol lines")
EXHAUSTIVE = {
    "quick": "all 197 ordered rooted trees with <= 7 nodes x all 25 (sibling_separation, subtree_separation) "
             "pairs from {1/2,1,3/2,2,3}^2 (level separation and offsets sampled per case)",
    "thorough": "all 626 ordered rooted trees with <= 8 nodes x all 25 (sibling_separation, subtree_separation) "
                "pairs from {1/2,1,3/2,2,3}^2; all 65 trees with <= 6 nodes x all 125 separation triples",
}
MODELLED = [
    "C19: the model computes reingold_tilford over exact rationals (core Lean Rat); Python computes over "
    "binary64. The theorems are about the rational algorithm; the tie compares every coordinate within 1e-9. "
    "Rounding error itself is not verified",
    "node attributes x/mod/shift/y are modelled as fields of an annotated rose tree; the in-place shift "
    "updates on not-yet-visited right siblings are modelled by the pending-shift vector of the sibling loop",
    "the Python recursion of _get_subtree_shift is modelled with fuel = height of the left subtree + 1; "
    "Plot.gss_fuel_sufficient proves that any larger fuel gives the same result (the out-of-fuel branch is dead)",
]
ASSUMPTIONS = [
    "reingold_tilford is called on the root of a Node/BaseNode tree that carries no x/mod/shift attribute on "
    "entry (a second run re-uses the stale shift; DESIGN section 5)",
    "BinaryNode trees are outside the domain: reingold_tilford raises AttributeError on every BinaryNode tree "
    "(a binary leaf's children are (None, None) and _first_pass recurses into None); not generated",
    "separations are positive; offsets are non-negative (the theorems need no sign condition except "
    "0 < sibling_separation for the strict left-to-right order)",
]
LEVEL_TEXT = ("partial: proved for the rational model for all trees and parameters - y is a function of depth "
              "with step level_separation (rt_levels), every parent is the mid-point of its first and last "
              "child (rt_midpoint), consecutive siblings are in order and >= sibling_separation apart "
              "(rt_siblings), no x is negative (rt_nonneg). The cousin clause of the statement is FALSE of the "
              "code (known finding K1): rt_full_false proves the negation on the 10-node witness")
LEVEL_NOTE = ("the tie (real floats vs. rational model within 1e-9) carries the step from the model to the code; "
              "binary64 rounding is not verified")
TECHNIQUE = ("Lean 4 proof over an executable rational model of the three passes (structural/fuel recursion "
             "mirroring plot.py) + differential correspondence check of all coordinates + model-free oracle "
             "of the five clauses on the real coordinates")
NOT_READY = False

# ---------------------------------------------------------------- case construction

def spec_from_shape(shape):
    return core.label(shape, lambda i, d, k, p: "n%d" % i)


def _line(d):
    return ("sib=%s sub=%s lvl=%s xoff=%s yoff=%s T " % (d["sib"], d["sub"], d["lvl"], d["xoff"], d["yoff"])
            + core.enc_tree(spec_from_shape(d["shape"])))


def mk_case(shape, sib, sub, lvl, xoff, yoff, tags=()):
    d = {"shape": shape, "sib": sib, "sub": sub, "lvl": lvl, "xoff": xoff, "yoff": yoff}
    n = core.shape_size(shape)
    extra = ("n=%d" % n if n <= 8 else "n=9..30",
             "depth=%d" % core.shape_depth(shape), "fanout=%d" % core.shape_fanout(shape),
             "contour" if _contour(shape) else "no-contour")
    return Case(_line(d), d, tuple(tags) + extra)


def rehydrate(case):
    return Case(case.line, case.data)


def _contour(shape) -> bool:
    """some node has >= 2 children with children: _get_subtree_shift recurses at least once"""
    if sum(1 for c in shape if c) >= 2:
        return True
    return any(_contour(c) for c in shape)


def nontrivial(case) -> bool:
    return _contour(case.data["shape"])


def recent_parent_shape(rng: random.Random, size: int):
    """the design-time probe's generator: parent among the last 4 nodes or any node"""
    kids = [[] for _ in range(size)]
    for v in range(1, size):
        p = rng.choice(range(max(0, v - 4), v)) if rng.random() < 0.5 else rng.randrange(v)
        kids[p].append(v)
    def build(u):
        return [build(c) for c in kids[u]]
    return build(0)


K1_SHAPE = [[], [[], [[]]], [[[], []]]]            # r(a, b(c, d(e)), f(g(h, i)))
DOC_SHAPE = [[[], [[], []]], [[]]]                 # docstring: a(b(d, e(g, h)), c(f))
CORPUS = [
    K1_SHAPE, DOC_SHAPE, [],
    [[[[[]]]], [], [], [[[[]]]]],                   # two deep outer subtrees, leaves between
    [[], [], [[[], [], []]], [], [[[[]]]], []],     # wide fan over deep middles
    [[[], []], [[], []], [[], []], [[], []]],       # four equal subtrees (idx scaling 1/3, 2/3)
    [[[[], []], [[], []]], [[[], []], [[], []]]],   # complete binary depth 4
    [[[], [[[], []]]], [], [[[[]], []]]],           # leaf between two subtrees whose contours cross deeper
    [[[]], [[], [], [], [], []], [[]]],
    [[[[[], [], []]]], [[[[], [], []]]], [[[[], [], []]]]],
    [[], [[], [[]]], [[[], []]], [[[], [], [[], []]]]],
]


def gen(rng: random.Random, tier: str):
    cases = []
    pick = rng.choice
    for shape in CORPUS:
        for sib, sub in (("1", "1"), ("1/2", "2"), ("3", "1/2"), ("3/2", "3/2")):
            cases.append(mk_case(shape, sib, sub, "1", "0", "0", tags=("corpus",)))
        cases.append(mk_case(shape, pick(SEPS), pick(SEPS), pick(SEPS), pick(OFFS), pick(OFFS), tags=("corpus",)))
    nmax = 7 if tier == "quick" else 8
    for shape in core.all_shapes_upto(nmax):
        for sib in SEPS:
            for sub in SEPS:
                cases.append(mk_case(shape, sib, sub, pick(SEPS), pick(OFFS), pick(OFFS), tags=("enum",)))
    if tier == "thorough":
        for shape in core.all_shapes_upto(6):
            for sib in SEPS:
                for sub in SEPS:
                    for lvl in SEPS:
                        cases.append(mk_case(shape, sib, sub, lvl, pick(OFFS), pick(OFFS), tags=("enum3",)))
    nr = 4000 if tier == "quick" else 40000
    for k in range(nr):
        size = rng.randint(8, 30)
        if k % 3 == 0:
            shape = recent_parent_shape(rng, size)
            tag = "random-recent"
        else:
            shape = core.random_shape(rng, size)
            tag = "random"
        if rng.random() < 0.3:
            sib = sub = lvl = "1"
        else:
            sib, sub, lvl = pick(SEPS), pick(SEPS), pick(SEPS)
        cases.append(mk_case(shape, sib, sub, lvl, pick(OFFS), pick(OFFS), tags=(tag,)))
    return cases


# ---------------------------------------------------------------- implementation side

def _run_real(d):
    """build a fresh Node tree (no x/mod/shift attributes), run the real reingold_tilford;
    returns nodes in pre-order"""
    from bigtree import reingold_tilford
    root, nodes = core.build_node_tree(spec_from_shape(d["shape"]))
    reingold_tilford(
        root,
        sibling_separation=float(Fraction(d["sib"])),
        subtree_separation=float(Fraction(d["sub"])),
        level_separation=float(Fraction(d["lvl"])),
        x_offset=float(Fraction(d["xoff"])),
        y_offset=float(Fraction(d["yoff"])),
    )
    return root, nodes


def impl(case):
    try:
        _root, nodes = _run_real(case.data)
    except Exception:
        return "rej"
    return "ok " + " ".join("%r,%r" % (float(n.x), float(n.y)) for n in nodes)


def _parse(out):
    """'ok x,y x,y …' -> list of (Fraction, Fraction) (floats are converted exactly) or None"""
    toks = out.split(" ")
    if not toks or toks[0] != "ok":
        return None
    pts = []
    for t in toks[1:]:
        a, b = t.split(",")
        pts.append((_num(a), _num(b)))
    return pts


def _num(s):
    if "/" in s:
        return Fraction(s)
    f = float(s)
    if f != f or f in (float("inf"), float("-inf")):
        raise ValueError(s)
    return Fraction(f)


def _close(a, b):
    return a is not None and b is not None and len(a) == len(b) and all(
        abs(p[0] - q[0]) <= EPS and abs(p[1] - q[1]) <= EPS for p, q in zip(a, b))


_MODEL_CACHE: dict[str, str] = {}


def compare(impl_out, model_out, case):
    """tolerant numeric comparison: every coordinate within 1e-9 of the exact rational"""
    if len(_MODEL_CACHE) < 200000:
        _MODEL_CACHE[case.line] = model_out
    try:
        return _close(_parse(impl_out), _parse(model_out))
    except Exception:
        return False


# ---------------------------------------------------------------- oracle (model-free)

def oracle(case):
    """the clauses of the statement, read off the real nodes' parent/children links and x, y"""
    d = case.data
    try:
        root, nodes = _run_real(d)
    except Exception as e:
        return ["crash: reingold_tilford raised %s" % type(e).__name__]
    sib, sub, lvl = Fraction(d["sib"]), Fraction(d["sub"]), Fraction(d["lvl"])
    ids = core.IdMap(nodes)
    msgs = []
    X = {id(n): Fraction(float(n.x)) for n in nodes}
    Y = {id(n): Fraction(float(n.y)) for n in nodes}
    # levels, in left-to-right tree order, from the links only
    levels = []
    cur = [root]
    while cur:
        levels.append(cur)
        cur = [c for p in cur for c in p.children]
    for di, lv in enumerate(levels):
        for a in lv:
            if abs(Y[id(a)] - Y[id(lv[0])]) > EPS:
                msgs.append(f"levels: nodes {ids(lv[0])} and {ids(a)} of depth {di+1} have y {float(Y[id(lv[0])])} / {float(Y[id(a)])}")
        if di + 1 < len(levels):
            dy = Y[id(lv[0])] - Y[id(levels[di + 1][0])]
            if abs(dy - lvl) > EPS:
                msgs.append(f"levels: depth {di+1} and {di+2} differ by {float(dy)} instead of {float(lvl)}")
    for n in nodes:
        ch = n.children
        if ch:
            mid = (X[id(ch[0])] + X[id(ch[-1])]) / 2
            if abs(X[id(n)] - mid) > EPS:
                msgs.append(f"midpoint: node {ids(n)} x={float(X[id(n)])} but first/last child mid-point is {float(mid)}")
        for a, b in zip(ch, ch[1:]):
            if X[id(b)] - X[id(a)] < sib - EPS:
                msgs.append(f"sibling_separation: children {ids(a)},{ids(b)} of {ids(n)} are {float(X[id(b)] - X[id(a)])} apart (< {float(sib)})")
        if X[id(n)] < -EPS:
            msgs.append(f"nonneg: node {ids(n)} has x={float(X[id(n)])}")
    m = min(sib, sub)
    for di, lv in enumerate(levels):
        for a, b in zip(lv, lv[1:]):
            if a.parent is b.parent:
                continue  # sibling clause above (sib >= min)
            if X[id(b)] - X[id(a)] < m - EPS:
                msgs.append(f"cousin_separation: nodes {ids(a)},{ids(b)} of depth {di+1} are {float(X[id(b)] - X[id(a)])} apart (< {float(m)})")
    return msgs


# ---------------------------------------------------------------- known finding K1

def _model_line(case):
    """output of the pinned rational model (compiled Lean driver) for this single case"""
    if case.line in _MODEL_CACHE:
        return _MODEL_CACHE[case.line]
    import runner
    out = runner.run_model("C19", "C19", [case])[0]
    _MODEL_CACHE[case.line] = out
    return out


def replay_known(entry) -> bool:
    w = entry["witness"]
    if w.get("clause") != "cousin_separation":
        return False
    def shape(t):
        return [shape(c) for c in t[1]]
    def names(t):
        return [t[0]] + [x for c in t[1] for x in names(c)]
    sh = shape(w["tree"])
    nm = names(w["tree"])
    q = lambda v: str(Fraction(v))
    c = mk_case(sh, q(w["sibling_separation"]), q(w["subtree_separation"]), q(w["level_separation"]), "0", "0")
    _root, nodes = _run_real(c.data)
    by = dict(zip(nm, nodes))
    still = abs(by["e"].x - 2.0) <= 1e-9 and abs(by["h"].x - 2.5) <= 1e-9
    return still and any(m.startswith("cousin_separation") for m in oracle(c))


def is_known(case, msg, entries) -> bool:
    """a cousin_separation failure is K1 iff the real coordinates equal the pinned model's"""
    if not msg.startswith("cousin_separation:"):
        return False
    if not any(e.get("witness", {}).get("clause") == "cousin_separation" for e in entries):
        return False
    try:
        return _close(_parse(impl(case)), _parse(_model_line(case)))
    except Exception:
        return False


# ---------------------------------------------------------------- shrinking

def _remove_leaf_variants(shape):
    """all shapes obtained by deleting one leaf"""
    for k, c in enumerate(shape):
        if not c:
            yield shape[:k] + shape[k + 1:]
        else:
            for v in _remove_leaf_variants(c):
                yield shape[:k] + [v] + shape[k + 1:]


def shrink(case):
    d = case.data
    for v in _remove_leaf_variants(d["shape"]):
        nd = dict(d, shape=v)
        yield Case(_line(nd), nd, case.tags)
    for key, val in (("xoff", "0"), ("yoff", "0"), ("lvl", "1"), ("sib", "1"), ("sub", "1")):
        if d[key] != val:
            nd = dict(d); nd[key] = val
            yield Case(_line(nd), nd, case.tags)
