"""C19 — Reingold-Tilford coordinates form a tidy, non-overlapping drawing.

Tie: (x, y) of every node from the real `reingold_tilford` (binary64) against the Lean model
`Plot.layoutS` (exact rationals), within 1e-9, after EVERY layout of a history
[layout, structural edit, layout, ...] on the same node objects (the `shift` attribute survives
between runs; the model carries it).  Oracle: the clauses of the property read off the real
coordinates after every layout.  Known finding K1: the cousin-separation clause is false of the
pinned algorithm (Lean: `C19.rt_full_false`); a cousin failure is K1 exactly when the real
coordinates of that case still equal the pinned model's coordinates.
"""
from __future__ import annotations
import itertools, os, random, subprocess
from fractions import Fraction
import core
from runner import Case

THEOREMS = [
    "C19.rt_levels", "C19.rt_midpoint", "C19.rt_siblings", "C19.rt_nonneg", "C19.rt_full_false",
    "C19.rt_shape", "C19.rt_entry_independent", "C19.rt_clear_needed",
    "Plot.gss_fuel_sufficient", "Plot.firstPass_good", "Plot.firstPass_q",
    "C19.rt_cousins_partial", "C19.rt_cousins_partial_fresh", "C19.rt_order_partial", "C19.rt_cousins_depth3",
    "C19.rt_cousins_complete_binary", "C19.k1_outside", "C19.chain_outside", "C19.chain_fails",
    "Plot.passes_level_sorted", "Plot.gss_cover", "Plot.gss_top",
]
PROOF_IMPORTS = ["BigtreeProofs.Properties.C19"]
EPS = Fraction(1, 10**9)
SEPS = ["1/2", "1", "3/2", "2", "3"]
OFFS = ["0", "0", "1/2", "1", "5/2", "7"]

RULE = ("(a) every ordered tree shape up to N nodes (quick N=7: 197 shapes, thorough N=8: 626) x every "
        "(sibling, subtree) separation pair from {1/2,1,3/2,2,3}^2 with level separation and the two "
        "offsets drawn from {1/2,1,3/2,2,3} / {0,1/2,1,5/2,7}; (b) seeded random trees with 8..30 nodes "
        "(bushy, path, caterpillar, one deep branch, uniform, 'recent parent'); (c) height-profile family: a "
        "node with k=3..6 child-bearing children taken from a catalogue of chains / chains ending in a fan / "
        "fans over a fan (heights 1..4, widths 2..5), all k=3 combinations enumerated, k>=4 and nested / "
        "leaf-interleaved variants sampled, plus the enumerated tall-short-tall family (10 deep wide lefts x 5 "
        "short middles x 13 rights whose left contour reaches left below) and its variants with extra siblings; the tag far>0 counts cases where, for some node, the maximal "
        "_get_subtree_shift over its left siblings is NOT attained at the nearest colliding left sibling "
        "(measured by the instrumented model driver); (d) histories on the same node objects: layout, then "
        "1..3 rounds of structural edits (detach a node, insert a fresh subtree as first child, append a fresh "
        "subtree, reverse a child list, re-attach a previously laid-out subtree elsewhere) each followed by a "
        "re-layout; every layout is compared with the model and checked by the oracle; (e) a corpus (K1 witness, docstring tree, the D9 witness history, the seeded-mutant demos). "
        "reingold_tilford rejects nothing, so there is no malformed stream. A case is non-trivial when some "
        "node has two children that both have children (the contour comparison recurses); distinct = "
        "distinct protocol lines")
EXHAUSTIVE = {
    "quick": "all 197 ordered rooted trees with <= 7 nodes x all 25 (sibling_separation, subtree_separation) "
             "pairs from {1/2,1,3/2,2,3}^2 (level separation and offsets sampled per case); all 9^3 = 729 "
             "three-child height profiles over the 9-shape catalogue (separations 1/1 and one sampled pair); all 650 "
             "tall-short-tall triples x 2 separation pairs",
    "thorough": "all 626 ordered rooted trees with <= 8 nodes x all 25 (sibling_separation, subtree_separation) "
                "pairs from {1/2,1,3/2,2,3}^2; all 65 trees with <= 6 nodes x all 125 separation triples; all "
                "17^3 = 4913 three-child height profiles over the 17-shape catalogue x 4 separation pairs; all "
                "9^4 = 6561 four-child profiles over the 9-shape catalogue; all 650 tall-short-tall triples x 5 separation "
                "pairs; all single-detach histories "
                "(layout, detach node v, layout) for every non-root node v of every tree with <= 7 nodes",
}
MODELLED = [
    "C19: the model computes reingold_tilford over exact rationals (core Lean Rat); Python computes over "
    "binary64. The theorems are about the rational algorithm; the tie compares every coordinate within 1e-9. "
    "Rounding error itself is not verified",
    "node attributes x/mod/shift/y are modelled as fields of an annotated rose tree; the in-place shift "
    "updates on not-yet-visited right siblings are modelled by the pending-shift vector of the sibling loop",
    "entry state: x/mod/y are overwritten before they are read; shift is read with a default, so the model "
    "input is the shape plus the shift each node carries (0 = none); reingold_tilford (after repair D9) first "
    "pops every shift (ST.clear), then runs the three passes (Plot.passes); the model returns the stored "
    "shifts (Plot.stored) so that histories can be chained; structural edits between runs are modelled "
    "positionally (ST.modifyAt, ST.move); detached subtrees that are not re-attached are dropped",
    "the Python recursion of _get_subtree_shift is modelled with fuel = height of the left subtree + 1; "
    "Plot.gss_fuel_sufficient proves that any larger fuel gives the same result (the out-of-fuel branch is dead)",
    "BinaryNode trees are outside the domain: reingold_tilford raises AttributeError on every BinaryNode tree "
    "(a binary leaf's children are (None, None) and _first_pass recurses into None)",
]
ASSUMPTIONS = [
    "reingold_tilford is called on the root of a Node/BaseNode tree (not a BinaryNode tree: AttributeError on "
    "every one of them); nodes may carry x/mod/shift/y attributes of earlier runs (histories are generated)",
    "separations are positive; offsets are non-negative (the theorems need no sign condition except "
    "0 < sibling_separation for the strict left-to-right order)",
]
LEVEL_TEXT = ("partial: proved for the rational model for all trees, all parameters and all entry states - y is a "
              "function of depth with step level_separation (rt_levels), every parent is the mid-point of its "
              "first and last child (rt_midpoint), consecutive siblings are in order and >= sibling_separation "
              "apart (rt_siblings), no x is negative (rt_nonneg), the drawing has the shape of the tree "
              "(rt_shape) and does not depend on attributes left by earlier runs (rt_entry_independent; without "
              "the clearing step of repair D9 the sibling clause fails: rt_clear_needed). The cousin clause of "
              "the statement is FALSE of the code (known finding K1): rt_full_false proves the negation on the "
              "10-node witness. The cousin clause (and the strict left-to-right order of every level) IS proved, for "
              "all positive separations and all entry states, on the class ChainExact of trees on which every "
              "sibling-pair comparison of _get_subtree_shift is exact (rt_cousins_partial, rt_order_partial): in "
              "every sibling group the first child against each later child has facing contour walks that reach "
              "the smaller of the two heights, and any two later children share only one level below them; the "
              "class contains every tree with at most three levels (rt_cousins_depth3) and every complete binary "
              "tree (rt_cousins_complete_binary); K1 is outside it by the scaling condition only (k1_outside), a "
              "14-node tree by the walk condition only (chain_outside, chain_fails)")
LEVEL_NOTE = ("the tie (real floats vs. rational model within 1e-9, after every layout of a history) carries the "
              "step from the model to the code; binary64 rounding is not verified. The oracle re-implements the "
              "class predicate from first principles and reports a cousin failure on a tree inside the class under "
              "its own clause name (cousin_in_class), which is never attributed to K1"
    ' Known finding K6: BinaryNode trees raise AttributeError (outside the generated domain, replayed separately on every run).')
TECHNIQUE = ("Lean 4 proof over an executable rational model of the three passes (structural/fuel recursion "
             "mirroring plot.py, entry shifts as input, stored shifts as output) + differential correspondence "
             "check of all coordinates over layout/edit histories + model-free oracle of the five clauses on the "
             "real coordinates after every layout")
NOT_READY = False

# ---------------------------------------------------------------- case construction

def spec_from_shape(shape):
    return core.label(shape, lambda i, d, k, p: "n%d" % i)


def _line(d):
    return ("sib=%s sub=%s lvl=%s xoff=%s yoff=%s ops=%s T " % (
                d["sib"], d["sub"], d["lvl"], d["xoff"], d["yoff"], ";".join(d.get("ops") or ["L"]))
            + core.enc_tree(spec_from_shape(d["shape"])))


def mk_case(shape, sib, sub, lvl, xoff, yoff, tags=(), ops=None):
    """ops: history on the same nodes (protocol tokens, see Drv/C19.lean); default one layout"""
    d = {"shape": shape, "sib": sib, "sub": sub, "lvl": lvl, "xoff": xoff, "yoff": yoff, "ops": list(ops or ["L"])}
    n = core.shape_size(shape)
    extra = ("n=%d" % n if n <= 8 else ("n=9..30" if n <= 30 else "n>30"),
             "depth=%d" % core.shape_depth(shape), "fanout=%d" % core.shape_fanout(shape),
             "contour" if _contour(shape) else "no-contour",
             "chain-exact" if chain_exact(shape) else "not-chain-exact")
    if len(d["ops"]) > 1:
        extra += ("history", "layouts=%d" % d["ops"].count("L"))
    return Case(_line(d), d, tuple(tags) + extra)


def rehydrate(case):
    d = dict(case.data)
    d.setdefault("ops", ["L"])
    return Case(case.line, d)


def _contour(shape) -> bool:
    """some node has >= 2 children with children: _get_subtree_shift recurses at least once"""
    if sum(1 for c in shape if c) >= 2:
        return True
    return any(_contour(c) for c in shape)


def nontrivial(case) -> bool:
    return _contour(case.data["shape"])


def recent_parent_shape(rng: random.Random, size: int):
    """the design-time probe's generator: parent among the last 4 nodes or any node"""
    kids = [[] for _ in range(size)]
    for v in range(1, size):
        p = rng.choice(range(max(0, v - 4), v)) if rng.random() < 0.5 else rng.randrange(v)
        kids[p].append(v)
    def build(u):
        return [build(c) for c in kids[u]]
    return build(0)


# ---- height-profile family (shapes are nested lists of children; [] = leaf)

def cf(h: int, w: int):
    """chain of h nodes whose last node carries a fan of w leaves (w = 0: plain chain)"""
    node = [[] for _ in range(w)]
    for _ in range(h - 1):
        node = [node]
    return node


def tf_first(w: int, w2: int):
    """fan of w children, the FIRST of which carries a fan of w2 leaves"""
    return [cf(1, w2)] + [[] for _ in range(w - 1)]


def tf_last(w: int, w2: int):
    return [[] for _ in range(w - 1)] + [cf(1, w2)]


CAT9 = [cf(1, 0), cf(2, 0), cf(3, 0), cf(1, 3), cf(2, 3), cf(2, 5), cf(3, 2), tf_first(3, 5), tf_last(3, 5)]
CAT17 = CAT9 + [cf(4, 0), cf(1, 2), cf(1, 5), cf(2, 2), cf(3, 3), cf(3, 5), tf_first(2, 3), tf_last(2, 3)]


def _copy(s):
    return [_copy(c) for c in s]


# tall - short - tall: a deep, wide left subtree; a short middle one that is slightly in the way of the
# right one; a right subtree whose left contour reaches far to the left one or two levels down
TST_LEFTS = ([cf(2, w) for w in (2, 3, 5)] + [cf(3, w) for w in (2, 3, 5)]
             + [tf_last(2, 3), tf_last(3, 5), [tf_last(2, 3)], [[], cf(2, 3)]])
TST_MIDS = [cf(2, 0), cf(2, 2), cf(1, 2), cf(3, 0), [[[]], []]]
TST_RIGHTS = ([tf_first(w, w2) for w in (2, 3, 4) for w2 in (2, 3, 5)]
              + [[tf_first(2, 3)], [tf_first(3, 5)], [cf(2, 5), [], []], [cf(2, 3), []]])


def profile_variant(rng: random.Random, kids):
    """nest / interleave a profile group: returns a root shape"""
    kids = [_copy(k) for k in kids]
    v = rng.randrange(5)
    if v == 0:      # leaves interleaved between the subtrees
        out = []
        for k in kids:
            out.append(k)
            if rng.random() < 0.5:
                out.append([])
        return out
    if v == 1:      # the group one level down, under the middle child of a small root
        return [[], kids, [[]]] if rng.random() < 0.5 else [[[], []], kids]
    if v == 2:      # two levels down
        return [[kids, []], [[], [[]]]]
    if v == 3:      # the group next to another profile group
        other = [_copy(rng.choice(CAT9)) for _ in range(3)]
        return [kids, other] if rng.random() < 0.5 else [other, [], kids]
    return kids


K1_SHAPE = [[], [[], [[]]], [[[], []]]]            # r(a, b(c, d(e)), f(g(h, i)))
DOC_SHAPE = [[[], [[], []]], [[]]]                 # docstring: a(b(d, e(g, h)), c(f))
M3_SHAPE = [cf(2, 5), cf(2, 0), tf_first(3, 5)]    # seeded C19-m3 demo: tall - short - tall
M2_SHAPE = [cf(1, 3), cf(1, 3), cf(1, 2)]          # seeded C19-m2 demo: root(A(3), B(3), C(2))
CHAIN_SHAPE = [[[[[]]], [[]]], [[[[], [], [], []]]]]  # outside ChainExact by the walk condition only (C19.chain_fails)
SCALE_SHAPE = [[], [[], [], [], [[], []]], [[[], []], [], [], []]]  # scaling only: two depth-4 cousins at the same x
DEEP_SHAPE = [[[], [], [[], [[], [], []]]], [[[[], []], [], []]], []]  # inside ChainExact: 5 levels, fan-out 3
CORPUS = [
    K1_SHAPE, DOC_SHAPE, [], M3_SHAPE, M2_SHAPE, CHAIN_SHAPE, SCALE_SHAPE, DEEP_SHAPE,
    [[[[[]]]], [], [], [[[[]]]]],                   # two deep outer subtrees, leaves between
    [[], [], [[[], [], []]], [], [[[[]]]], []],     # wide fan over deep middles
    [[[], []], [[], []], [[], []], [[], []]],       # four equal subtrees (idx scaling 1/3, 2/3)
    [[[[], []], [[], []]], [[[], []], [[], []]]],   # complete binary depth 4
    [[[], [[[], []]]], [], [[[[]], []]]],           # leaf between two subtrees whose contours cross deeper
    [[[]], [[], [], [], [], []], [[]]],
    [[[[[], [], []]]], [[[[], [], []]]], [[[[], [], []]]]],
    [[], [[], [[]]], [[[], []]], [[[], [], [[], []]]]],
]
CORPUS_HISTORIES = [
    (M2_SHAPE, ["L", "Er:()", "L"]),                # D9 witness: append D after a layout => D right of C
    (M2_SHAPE, ["L", "Er:()", "L", "L", "Rr", "L"]),
    (M2_SHAPE, ["L", "D0", "L"]),                   # seeded C19-m2 demo: prune the leading subtree, re-layout
    (M2_SHAPE, ["L", "L", "D0", "L", "D0", "L"]),
    (M2_SHAPE, ["L", "M1>0", "L", "M0.3>r", "L"]),  # re-attach a laid-out subtree elsewhere and back
    (M3_SHAPE, ["L", "D1", "L", "Fr:(())", "L"]),
    (K1_SHAPE, ["L", "D0", "L", "D0.0", "L"]),
]


# ---- histories: shapes are edited positionally, exactly like Drv/C19.lean does

def _addr_str(addr):
    return ".".join(str(i) for i in addr) if addr else "r"


def _sh_str(shape):
    return "(" + "".join(_sh_str(c) for c in shape) + ")"


def _parse_sh(s):
    pos = 0
    def go():
        nonlocal pos
        if s[pos] != "(":
            raise ValueError(s)
        pos += 1
        kids = []
        while s[pos] != ")":
            kids.append(go())
        pos += 1
        return kids
    t = go()
    if pos != len(s):
        raise ValueError(s)
    return t


def _addrs(shape, addr=()):
    out = [addr]
    for k, c in enumerate(shape):
        out.extend(_addrs(c, addr + (k,)))
    return out


def _at(shape, addr):
    for i in addr:
        shape = shape[i]
    return shape


def apply_op_shape(shape, op):
    """shape after an edit op (in place on a copy); raises ValueError/IndexError on a bad address"""
    shape = _copy(shape)
    kind = op[0]
    if kind == "L":
        return shape
    body = op[1:]
    if kind == "W":
        return [shape]
    if kind == "I":
        kids = _at(shape, _parse_addr(body))
        kids[:] = [list(kids)]
        return shape
    if kind == "D":
        addr = [int(x) for x in body.split(".")]
        del _at(shape, addr[:-1])[addr[-1]]
    elif kind == "R":
        _at(shape, _parse_addr(body)).reverse()
    elif kind == "M":
        a, b = body.split(">")
        addr = [int(x) for x in a.split(".")]
        sub = _at(shape, addr)
        del _at(shape, addr[:-1])[addr[-1]]
        _at(shape, _parse_addr(b)).append(sub)
    elif kind in "FE":
        a, sh = body.split(":")
        kids = _at(shape, _parse_addr(a))
        if kind == "F":
            kids.insert(0, _parse_sh(sh))
        else:
            kids.append(_parse_sh(sh))
    else:
        raise ValueError(op)
    return shape


def _parse_addr(a):
    return [] if a == "r" else [int(x) for x in a.split(".")]


FRESH = [[], [], [[]], [[], []], [[], [[], []]], [[[]], []]]


def random_history(rng: random.Random, shape, rounds: int):
    ops = ["L"]
    cur = _copy(shape)
    if rng.random() < 0.15:
        ops.append("L")                               # plain re-layout of the unchanged tree
    for _ in range(rounds):
        for _e in range(rng.choice([1, 1, 1, 2, 3])):
            addrs = _addrs(cur)
            kind = rng.choice(["D", "D", "D", "F", "E", "E", "R", "M", "M", "W", "I"])
            if kind == "W":
                op = "W"
            elif kind == "I":
                cands = [a for a in addrs if len(_at(cur, a)) >= 1]
                if not cands:
                    continue
                op = "I" + _addr_str(rng.choice(cands))
            elif kind == "D":
                cands = [a for a in addrs if a]
                if rng.random() < 0.6:                # prefer leading siblings (a shifted node becomes children[0])
                    lead = [a for a in cands if a[-1] == 0 and len(_at(cur, a[:-1])) >= 2]
                    cands = lead or cands
                if not cands:
                    continue
                op = "D" + _addr_str(rng.choice(cands))
            elif kind == "R":
                cands = [a for a in addrs if len(_at(cur, a)) >= 2]
                if not cands:
                    continue
                op = "R" + _addr_str(rng.choice(cands))
            elif kind == "M":
                cands = [a for a in addrs if a]
                if not cands:
                    continue
                frm = rng.choice(cands)
                after = apply_op_shape(cur, "D" + _addr_str(frm))
                op = "M" + _addr_str(frm) + ">" + _addr_str(rng.choice(_addrs(after)))
            else:
                op = kind + _addr_str(rng.choice(addrs)) + ":" + _sh_str(rng.choice(FRESH))
            cur = apply_op_shape(cur, op)
            ops.append(op)
        ops.append("L")
    return ops


def _driver_stats(cases):
    """far-counts from the instrumented model driver (statistics for the tags only)"""
    exe = os.path.join(os.path.dirname(os.path.dirname(os.path.abspath(__file__))), "..", "lean", ".lake",
                       "build", "bin", "btmodel_C19")
    if not os.path.exists(exe):
        return [None] * len(cases)
    inp = "".join("C19 stat=1 " + c.line + "\n" for c in cases)
    try:
        p = subprocess.run([exe], input=inp, capture_output=True, text=True, timeout=600)
        outs = p.stdout.split("\n")[:len(cases)]
        res = [int(o[4:]) if o.startswith("far=") else None for o in outs]
        return res + [None] * (len(cases) - len(res))
    except Exception:
        return [None] * len(cases)


def gen(rng: random.Random, tier: str):
    cases = []
    pick = rng.choice
    quick = tier == "quick"
    for shape in CORPUS:
        for sib, sub in (("1", "1"), ("1/2", "2"), ("3", "1/2"), ("3/2", "3/2"), ("2", "3"), ("1", "1/2")):
            cases.append(mk_case(shape, sib, sub, "1", "0", "0", tags=("corpus",)))
        cases.append(mk_case(shape, pick(SEPS), pick(SEPS), pick(SEPS), pick(OFFS), pick(OFFS), tags=("corpus",)))
    for shape, ops in CORPUS_HISTORIES:
        for sib, sub in (("1", "1"), ("1/2", "2"), ("3", "1/2")):
            cases.append(mk_case(shape, sib, sub, "1", "0", "0", tags=("corpus",), ops=ops))
    # a WIDE parent (70 children, some with subtrees) and a DEEP chain (100 levels with side leaves)
    wide_shape = [[] for _ in range(30)] + [[[[]]], [[]], [[[[]], []]]] + [[] for _ in range(37)]
    def _chain(k):
        return [] if k == 0 else ([_chain(k - 1), []] if k % 30 == 7 else [_chain(k - 1)])
    for shape in (wide_shape, _chain(99), [wide_shape, [[]], wide_shape]):
        for sib, sub in (("1", "1"), ("1/2", "2"), ("3", "1/2")):
            cases.append(mk_case(shape, sib, sub, "1", "0", "1/2", tags=("corpus", "wide-or-deep")))
    # (a) exhaustive small shapes
    nmax = 7 if quick else 8
    for shape in core.all_shapes_upto(nmax):
        for sib in SEPS:
            for sub in SEPS:
                cases.append(mk_case(shape, sib, sub, pick(SEPS), pick(OFFS), pick(OFFS), tags=("enum",)))
    if not quick:
        for shape in core.all_shapes_upto(6):
            for sib in SEPS:
                for sub in SEPS:
                    for lvl in SEPS:
                        cases.append(mk_case(shape, sib, sub, lvl, pick(OFFS), pick(OFFS), tags=("enum3",)))
    # (b) random larger trees
    nr = 4000 if quick else 40000
    for k in range(nr):
        size = rng.randint(8, 30)
        if k % 3 == 0:
            shape = recent_parent_shape(rng, size)
            tag = "random-recent"
        else:
            shape = core.random_shape(rng, size)
            tag = "random"
        if rng.random() < 0.3:
            sib = sub = lvl = "1"
        else:
            sib, sub, lvl = pick(SEPS), pick(SEPS), pick(SEPS)
        cases.append(mk_case(shape, sib, sub, lvl, pick(OFFS), pick(OFFS), tags=(tag,)))
    # (c) height-profile family
    prof = []
    cat3 = CAT9 if quick else CAT17
    pairs3 = [("1", "1")] if quick else [("1", "1"), ("1/2", "2"), ("2", "1/2")]
    for kids in itertools.product(cat3, repeat=3):
        shape = [_copy(k) for k in kids]
        for sib, sub in pairs3:
            prof.append(mk_case(shape, sib, sub, "1", "0", "0", tags=("profile", "profile-k3")))
        prof.append(mk_case(shape, pick(SEPS), pick(SEPS), pick(SEPS), pick(OFFS), pick(OFFS),
                            tags=("profile", "profile-k3")))
    if quick:
        for _ in range(600):
            shape = [_copy(pick(CAT9)) for _ in range(4)]
            prof.append(mk_case(shape, pick(SEPS), pick(SEPS), "1", "0", "0", tags=("profile", "profile-k4")))
    else:
        for kids in itertools.product(CAT9, repeat=4):
            prof.append(mk_case([_copy(k) for k in kids], pick(SEPS), pick(SEPS), "1", "0", "0",
                                tags=("profile", "profile-k4")))
    tst_pairs = [("1", "1"), ("2", "1/2")] if quick else [("1", "1"), ("2", "1/2"), ("1/2", "2"), ("3", "1"), ("3/2", "3/2")]
    for l, m, r in itertools.product(TST_LEFTS, TST_MIDS, TST_RIGHTS):
        for sib, sub in tst_pairs:
            prof.append(mk_case([_copy(l), _copy(m), _copy(r)], sib, sub, "1", "0", "0", tags=("profile", "profile-tst")))
    for _ in range(500 if quick else 5000):
        kids = [_copy(pick(TST_LEFTS)), _copy(pick(TST_MIDS)), _copy(pick(TST_RIGHTS))]
        for _x in range(pick([1, 1, 2])):           # extra siblings (leaf or catalogue shape) anywhere
            kids.insert(rng.randrange(len(kids) + 1), _copy(pick([[], [], cf(2, 0)] + CAT9)))
        shape = kids if rng.random() < 0.6 else profile_variant(rng, kids)
        prof.append(mk_case(shape, pick(SEPS), pick(SEPS), pick(SEPS), pick(OFFS), pick(OFFS),
                            tags=("profile", "profile-tst+")))
    for _ in range(300 if quick else 3000):
        k = pick([5, 6])
        shape = [_copy(pick(CAT17 if rng.random() < 0.5 else CAT9[1:])) for _ in range(k)]
        prof.append(mk_case(shape, pick(SEPS), pick(SEPS), "1", pick(OFFS), "0", tags=("profile", "profile-k%d" % k)))
    for _ in range(500 if quick else 5000):
        k = pick([3, 3, 4, 5])
        kids = [pick(CAT17) for _ in range(k)]
        shape = profile_variant(rng, kids)
        prof.append(mk_case(shape, pick(SEPS), pick(SEPS), pick(SEPS), pick(OFFS), pick(OFFS),
                            tags=("profile", "profile-nested")))
    for c, far in zip(prof, _driver_stats(prof)):
        c.tags = c.tags + (("far=?",) if far is None else (("far>0",) if far > 0 else ("far=0",)))
    cases.extend(prof)
    # (d) histories
    if not quick:
        for shape in core.all_shapes_upto(7):
            for a in _addrs(shape):
                if a:
                    cases.append(mk_case(shape, pick(SEPS), pick(SEPS), "1", "0", "0", tags=("hist-enum",),
                                         ops=["L", "D" + _addr_str(a), "L"]))
    nh = 2500 if quick else 25000
    for k in range(nh):
        r = rng.random()
        if r < 0.4:
            shape = core.random_shape(rng, rng.randint(6, 24))
        elif r < 0.6:
            shape = recent_parent_shape(rng, rng.randint(6, 24))
        elif r < 0.85:
            shape = profile_variant(rng, [pick(CAT17) for _ in range(pick([2, 3, 3, 4]))])
        else:
            shape = [_copy(pick(TST_LEFTS)), _copy(pick(TST_MIDS)), _copy(pick(TST_RIGHTS))]
        ops = random_history(rng, shape, pick([1, 1, 2, 2, 3]))
        if rng.random() < 0.4:
            sib = sub = "1"
        else:
            sib, sub = pick(SEPS), pick(SEPS)
        cases.append(mk_case(shape, sib, sub, pick(SEPS), pick(OFFS), pick(OFFS),
                             tags=tuple(sorted({"edit-" + o[0] for o in ops if o != "L"})), ops=ops))
    return cases


# ---------------------------------------------------------------- implementation side

class BadHistory(Exception):
    """the history itself is malformed (address outside the tree): not an outcome of bigtree"""


def _build_fresh(shape, ctr):
    from bigtree import Node
    def go(s):
        n = Node("f%d" % next(ctr))
        n.children = [go(c) for c in s]
        return n
    return go(shape)


def _node_at(root, addr):
    n = root
    for i in addr:
        ch = n.children
        if i >= len(ch):
            raise BadHistory(addr)
        n = ch[i]
    return n


def _preorder(root):
    out = [root]
    for c in root.children:
        out.extend(_preorder(c))
    return out


def run_history(d, on_layout):
    """run the history on real bigtree objects; after every layout call on_layout(k, root)"""
    from bigtree import reingold_tilford
    root, _nodes = core.build_node_tree(spec_from_shape(d["shape"]))
    ctr = itertools.count()
    k = 0
    for op in d.get("ops") or ["L"]:
        kind, body = op[0], op[1:]
        if kind == "L":
            reingold_tilford(
                root,
                sibling_separation=float(Fraction(d["sib"])),
                subtree_separation=float(Fraction(d["sub"])),
                level_separation=float(Fraction(d["lvl"])),
                x_offset=float(Fraction(d["xoff"])),
                y_offset=float(Fraction(d["yoff"])),
            )
            on_layout(k, root)
            k += 1
        elif kind == "W":
            from bigtree import Node
            new = Node("w%d" % next(ctr))
            root.parent = new
            root = new
        elif kind == "I":
            from bigtree import Node
            p = _node_at(root, _parse_addr(body))
            new = Node("i%d" % next(ctr))
            new.children = list(p.children)
            new.parent = p
        elif kind == "D":
            addr = [int(x) for x in body.split(".")]
            _node_at(root, addr).parent = None
        elif kind == "R":
            p = _node_at(root, _parse_addr(body))
            p.children = list(p.children)[::-1]
        elif kind == "M":
            a, b = body.split(">")
            n = _node_at(root, [int(x) for x in a.split(".")])
            n.parent = None
            n.parent = _node_at(root, _parse_addr(b))
        elif kind in "FE":
            a, sh = body.split(":")
            p = _node_at(root, _parse_addr(a))
            fresh = _build_fresh(_parse_sh(sh), ctr)
            if kind == "F":
                p.children = [fresh] + list(p.children)
            else:
                fresh.parent = p
        else:
            raise BadHistory(op)
    return root


def impl(case):
    outs = []
    def rec(_k, root):
        outs.append(" ".join("%r,%r" % (float(n.x), float(n.y)) for n in _preorder(root)))
    try:
        run_history(case.data, rec)
    except BadHistory:
        raise
    except Exception:
        return "rej"
    return "ok " + " | ".join(outs)


def _parse(out):
    """'ok x,y x,y | x,y …' -> list (per layout) of lists of (Fraction, Fraction), or None"""
    if not out.startswith("ok"):
        return None
    res = []
    for part in out[2:].split("|"):
        pts = []
        for t in part.split():
            a, b = t.split(",")
            pts.append((_num(a), _num(b)))
        res.append(pts)
    return res


def _num(s):
    if "/" in s:
        return Fraction(s)
    f = float(s)
    if f != f or f in (float("inf"), float("-inf")):
        raise ValueError(s)
    return Fraction(f)


def _close(a, b):
    return a is not None and b is not None and len(a) == len(b) and all(
        len(la) == len(lb) and all(abs(p[0] - q[0]) <= EPS and abs(p[1] - q[1]) <= EPS for p, q in zip(la, lb))
        for la, lb in zip(a, b))


_MODEL_CACHE: dict[str, str] = {}


def compare(impl_out, model_out, case):
    """tolerant numeric comparison: every coordinate of every layout within 1e-9 of the exact rational"""
    if len(_MODEL_CACHE) < 300000:
        _MODEL_CACHE[case.line] = model_out
    try:
        return _close(_parse(impl_out), _parse(model_out))
    except Exception:
        return False


# ---------------------------------------------------------------- the class ChainExact (first principles)
# Re-implementation of Plot.Sk.exact (lean/BigtreeModel/Plot.lean) on nested child lists, written from the
# description of _get_subtree_shift, not from the Lean text: a sibling pair (i, j) is compared exactly when
# (i == 0 and both facing walks reach min(height_i, height_j) levels) or only one level is shared.

def _sh_height(s) -> int:
    return 1 + max([_sh_height(c) for c in s], default=0)


def _walk_levels(s, right_side: bool) -> int:
    """levels visited by the walk down one side of the subtree s: from a node to its last (first) child; when that
    child is a leaf, on to its nearest left (right) sibling that has children; ends when no such sibling exists"""
    levels = 1
    group = s
    while group:
        levels += 1
        order = reversed(group) if right_side else group
        group = next((c for c in order if c), None)
    return levels


def chain_exact(shape) -> bool:
    for j in range(1, len(shape)):
        hj = _sh_height(shape[j])
        for i in range(j):
            common = min(_sh_height(shape[i]), hj)
            if common <= 2:
                continue
            if i > 0:
                return False
            if min(_walk_levels(shape[i], True), _walk_levels(shape[j], False)) < common:
                return False
    return all(chain_exact(c) for c in shape)


def _shape_of(node):
    return [_shape_of(c) for c in node.children]


# ---------------------------------------------------------------- oracle (model-free)

def _clauses(k, root, sib, sub, lvl, msgs):
    """the clauses of the statement, read off the real nodes' parent/children links and x, y"""
    nodes = _preorder(root)
    num = {id(n): i for i, n in enumerate(nodes)}
    ids = lambda n: num[id(n)]
    tag = "" if k == 0 else "[layout %d] " % (k + 1)
    X = {id(n): Fraction(float(n.x)) for n in nodes}
    Y = {id(n): Fraction(float(n.y)) for n in nodes}
    levels = []
    cur = [root]
    while cur:
        levels.append(cur)
        cur = [c for p in cur for c in p.children]
    for di, lv in enumerate(levels):
        for a in lv:
            if abs(Y[id(a)] - Y[id(lv[0])]) > EPS:
                msgs.append(f"levels: {tag}nodes {ids(lv[0])} and {ids(a)} of depth {di+1} have y {float(Y[id(lv[0])])} / {float(Y[id(a)])}")
        if di + 1 < len(levels):
            dy = Y[id(lv[0])] - Y[id(levels[di + 1][0])]
            if abs(dy - lvl) > EPS:
                msgs.append(f"levels: {tag}depth {di+1} and {di+2} differ by {float(dy)} instead of {float(lvl)}")
    for n in nodes:
        ch = n.children
        if ch:
            mid = (X[id(ch[0])] + X[id(ch[-1])]) / 2
            if abs(X[id(n)] - mid) > EPS:
                msgs.append(f"midpoint: {tag}node {ids(n)} x={float(X[id(n)])} but first/last child mid-point is {float(mid)}")
        for a, b in zip(ch, ch[1:]):
            if X[id(b)] - X[id(a)] < sib - EPS:
                msgs.append(f"sibling_separation: {tag}children {ids(a)},{ids(b)} of {ids(n)} are {float(X[id(b)] - X[id(a)])} apart (< {float(sib)})")
        if X[id(n)] < -EPS:
            msgs.append(f"nonneg: {tag}node {ids(n)} has x={float(X[id(n)])}")
    m = min(sib, sub)
    # a cousin failure on a tree INSIDE the class ChainExact contradicts C19.rt_cousins_partial: it gets its own
    # clause name, which is_known never attributes to K1
    clause = "cousin_in_class" if chain_exact(_shape_of(root)) else "cousin_separation"
    for di, lv in enumerate(levels):
        for a, b in zip(lv, lv[1:]):
            if a.parent is b.parent:
                continue  # sibling clause above (sib >= min)
            if X[id(b)] - X[id(a)] < m - EPS:
                msgs.append(f"{clause}: {tag}nodes {ids(a)},{ids(b)} of depth {di+1} are {float(X[id(b)] - X[id(a)])} apart (< {float(m)})")


def oracle(case):
    """every clause after every layout of the history"""
    d = case.data
    sib, sub, lvl = Fraction(d["sib"]), Fraction(d["sub"]), Fraction(d["lvl"])
    msgs = []
    try:
        run_history(d, lambda k, root: _clauses(k, root, sib, sub, lvl, msgs))
    except BadHistory:
        raise
    except Exception as e:
        return msgs + ["crash: reingold_tilford history raised %s" % type(e).__name__]
    return msgs


# ---------------------------------------------------------------- known finding K1

def _model_line(case):
    """output of the pinned rational model (compiled Lean driver) for this single case"""
    if case.line in _MODEL_CACHE:
        return _MODEL_CACHE[case.line]
    import runner
    out = runner.run_model("C19", "C19", [case])[0]
    _MODEL_CACHE[case.line] = out
    return out


def replay_known(entry) -> bool:
    w = entry["witness"]
    if w.get("clause") == "binarynode_crash":
        from bigtree import BinaryNode, reingold_tilford
        try:
            reingold_tilford(BinaryNode(1))
        except AttributeError:
            return True
        except Exception:
            return False
        return False
    if w.get("clause") != "cousin_separation":
        return False
    def shape(t):
        return [shape(c) for c in t[1]]
    def names(t):
        return [t[0]] + [x for c in t[1] for x in names(c)]
    sh = shape(w["tree"])
    nm = names(w["tree"])
    q = lambda v: str(Fraction(v))
    c = mk_case(sh, q(w["sibling_separation"]), q(w["subtree_separation"]), q(w["level_separation"]), "0", "0")
    got = {}
    run_history(c.data, lambda k, root: got.update(zip(nm, [float(n.x) for n in _preorder(root)])))
    still = abs(got["e"] - 2.0) <= 1e-9 and abs(got["h"] - 2.5) <= 1e-9
    return still and any(m.startswith("cousin_separation") for m in oracle(c))


def is_known(case, msg, entries) -> bool:
    """a cousin_separation failure is K1 iff the real coordinates equal the pinned model's; a failure on a tree
    inside the class ChainExact (clause cousin_in_class, see _clauses) is never K1: the clause is proved there"""
    if msg.startswith("cousin_in_class") or not msg.startswith("cousin_separation:"):
        return False
    if not any(e.get("witness", {}).get("clause") == "cousin_separation" for e in entries):
        return False
    try:
        return _close(_parse(impl(case)), _parse(_model_line(case)))
    except Exception:
        return False


# ---------------------------------------------------------------- shrinking

def _remove_leaf_variants(shape):
    """all shapes obtained by deleting one leaf"""
    for k, c in enumerate(shape):
        if not c:
            yield shape[:k] + shape[k + 1:]
        else:
            for v in _remove_leaf_variants(c):
                yield shape[:k] + [v] + shape[k + 1:]


def _valid(d) -> bool:
    try:
        cur = d["shape"]
        for op in d["ops"]:
            cur = apply_op_shape(cur, op)
        return True
    except Exception:
        return False


def shrink(case):
    d = dict(case.data)
    d.setdefault("ops", ["L"])
    ops = d["ops"]
    if len(ops) > 1:
        # shorter histories first: cut after an earlier layout, drop single edits / layouts
        cands = []
        for i, op in enumerate(ops[:-1]):
            if op == "L":
                cands.append(ops[:i + 1])
        for i in range(len(ops) - 1):
            cands.append(ops[:i] + ops[i + 1:])
        for c in cands:
            nd = dict(d, ops=c)
            if c and c[-1] == "L" and _valid(nd):
                yield Case(_line(nd), nd, case.tags)
    for v in _remove_leaf_variants(d["shape"]):
        nd = dict(d, shape=v)
        if _valid(nd):
            yield Case(_line(nd), nd, case.tags)
    for key, val in (("xoff", "0"), ("yoff", "0"), ("lvl", "1"), ("sib", "1"), ("sub", "1")):
        if d[key] != val:
            nd = dict(d); nd[key] = val
            yield Case(_line(nd), nd, case.tags)
