"""C01 — tree links stay a well-formed forest under every mutation history (BaseNode / Node)."""
from __future__ import annotations
import random, zlib
import core
from runner import Case
from props import _store_util as U
from props import _bridge_util as B

THEOREMS = [
    "C01.wf_init", "C01.wf_step", "C01.wf_run", "C01.reject_loops",
    "C01.setParent_ok", "C01.setChildren_ok", "C01.delChildren_ok", "C01.delItem_ok", "C01.sort_perm",
    "C01.anc_complete",
    # bridge pointer store (model A) -> rose trees (model B): lean/BigtreeProofs/Properties/Bridge.lean
    "Bridge.treeOf_fuel", "Bridge.treeOf_unfold", "Bridge.treeOf_ids", "Bridge.forest_partition",
    "Bridge.treeOf_sub", "Bridge.treeOf_children", "Bridge.treeOf_parent", "Bridge.treeOf_addr",
    "Bridge.setParent_some_refines", "Bridge.setParent_none_refines", "Bridge.setChildren_refines",
    "Bridge.delChildren_refines", "Bridge.sort_refines", "Bridge.step_refines", "Bridge.step_rej_forest",
    "Bridge.run_refines", "Bridge.run_refines_allok", "Bridge.run_refines_unchecked", "Bridge.extend_refines_prefix",
    "Bridge.preorder_transfer", "Bridge.depth_transfer", "Bridge.depth_transfer_run",
]
PROOF_IMPORTS = ["BigtreeProofs.Properties.C01", "BigtreeProofs.Properties.Bridge"]
RULE = ("whole operation histories on n fresh BaseNode/Node objects (user subclasses whose four documented hooks "
        "raise on demand); after every call the outcome (ok/rej) and the whole store (parent and ordered child list "
        "of every node) are compared.  Exhaustive part: every forest reachable on N nodes (breadth-first on the real "
        "objects) x every op x every argument tuple incl. non-node objects, repeats, self, ancestors, x every hook "
        "fault.  Random part: 5-9 nodes, 1-40 ops, biased to donor parents with >= 4 children, ~25 % faults.  "
        "A case is non-trivial when its history contains an accepted call that moves a node.")
EXHAUSTIVE = {
    "quick": "all 19 forests reachable on 3 BaseNode objects (and all 3 on 2) x all 603 (232) op/argument/fault tuples; "
             "same on 3 Node objects for two name assignments",
    "thorough": "all 193 forests reachable on 4 BaseNode objects x all 1616 op/argument/fault tuples (311 888 transitions), "
                "all forests on <= 3 BaseNode/Node objects x all tuples, 4 Node objects with a name clash",
}
MODELLED = [
    "Python objects are ids 0..n-1, identity is equality of ids; an id >= n stands for an object that is not a node",
    "user hooks may raise at the four documented points and do not themselves mutate links",
    "sort(key=..., reverse=...) with a total key given as a rank per node; exceptions are modelled by kind only (ok/rej)",
]
ASSUMPTIONS = ["hooks of user subclasses raise or return; they do not touch parent/children themselves",
               "the CorruptedTreeError branch of the parent setter is unreachable from well-formed stores (not modelled)"]


def mk_case(d, tags=()):
    return Case(B.mk_line(d), d, tags)   # rb=1: the driver also prints the read-back forest


def corpus():
    out = []
    # D1 witness: p.children=[x,y,z]; failing q.children=[y,x] must leave p.children=[x,y,z]
    for cls, names in (("base", []), ("node", ["p", "x", "y", "z", "q"])):
        for f in ("post", "pre", "none"):
            out.append(mk_case(U.mk_data(cls, 5, names, "/", [["C", 0, [1, 2, 3], "none"], ["C", 4, [2, 1], f]]), ("corpus", "D1")))
            out.append(mk_case(U.mk_data(cls, 5, names, "/", [["C", 0, [1, 2, 3], "none"], ["C", 4, [3, 1], f], ["C", 4, [2, 3, 1], "post"]]), ("corpus", "D1")))
    # donor parent with >= 4 children: steal some / all of them in every rotation, with and without a failing hook
    names7 = ["r", "a", "b", "ab", "ba", "aa", "q"]
    for cls, names in (("base", []), ("node", names7)):
        for take in ([2, 4], [4, 2], [5, 1, 3], [1, 2, 3, 4, 5], [5, 4, 3, 2, 1], [3, 5, 2, 4], [4, 5]):
            for f in ("none", "post"):
                out.append(mk_case(U.mk_data(cls, 7, names, "/", [["C", 0, [1, 2, 3, 4, 5], "none"], ["C", 6, take, f], ["P", take[0], 0, "none"]]),
                                   ("corpus", "donor>=4")))
    # one-off probe (the history itself is trivial): loops closed through chains of 1200 / 2500 levels
    out.append(mk_case(dict(U.mk_data("base", 2, [], "/", [["P", 1, 0, "none"]]), probe="deep"), ("corpus", "probe-deep")))
    # children already under the target, donor that is itself being stolen
    out.append(mk_case(U.mk_data("base", 5, [], "/", [["C", 0, [1, 2, 3], "none"], ["C", 1, [4], "none"], ["C", 0, [3, 4, 1], "post"], ["C", 0, [3, 4, 1], "none"]]), ("corpus",)))
    out.append(mk_case(U.mk_data("base", 5, [], "/", [["C", 0, [1, 2], "none"], ["C", 1, [3, 4], "none"], ["C", 2, [1, 4], "post"], ["C", 2, [4, 1], "none"]]), ("corpus",)))
    return out


def gen(rng: random.Random, tier: str):
    cases = corpus()
    # exhaustive successor enumeration
    plan = [("base", 2, []), ("base", 3, []), ("node", 3, ["a", "b", "a"]), ("node", 3, ["a", "ab", "b"])]
    if tier == "thorough":
        plan += [("base", 4, []), ("node", 4, ["a", "b", "a", "ab"])]
    for cls, n, names in plan:
        uni = U.arg_universe(n, cls, names)
        paths = U.explore(cls, n, names, "/", uni)
        for st, path in paths.items():
            for op in uni:
                cases.append(mk_case(U.mk_data(cls, n, names, "/", path + [op]), ("enum", f"enum-{cls}-n={n}") + tuple(U.op_tags(op))))
    # random histories
    nr = 400 if tier == "quick" else 6000
    for i in range(nr):
        cls = "base" if i % 2 == 0 else "node"
        n = rng.randint(5, 9)
        names = [rng.choice(U.NAMES) for _ in range(n)] if cls == "node" else []
        if cls == "node" and rng.random() < 0.5:   # mostly distinct sibling candidates
            names = [U.NAMES[k % len(U.NAMES)] + ("" if k < len(U.NAMES) else "x") for k in range(n)]
            rng.shuffle(names)
        sep = "/"
        ops = U.random_history(rng, cls, n, names, sep, rng.randint(1, 40), fault_rate=0.2, bad_rate=0.15, seps=["/", "|", "\\"])
        tags = ["random", f"random-{cls}", "n=%d" % n, "ops=%d" % (10 * (len(ops) // 10))]
        for op in ops:
            tags += U.op_tags(op)
        cases.append(mk_case(U.mk_data(cls, n, names, sep, ops), tags))
    for d in U.drain_unhealthy():   # exploration met a store that is not a forest: let the tie and the oracle see it
        cases.append(mk_case(d, ("explore-unhealthy",)))
    return cases


def rehydrate(case):
    return Case(case.line, case.data)


def impl(case):
    return B.impl_line(case.data, B.wants_readback(case.line))


def _deep_probe():
    """chains far deeper than anything the small-scope part reaches (1200 and 2500 levels, beyond the interpreter's
    default recursion limit): closing the chain into a loop - through the parent setter, the children setter, >> and
    append - must be refused, a legal re-parenting of the bottom node must be accepted, and walking parents from the
    bottom must still reach the top"""
    import bigtree
    msgs = []
    for cls in (bigtree.BaseNode, bigtree.Node):
        for depth in (1200, 2500):
            nodes = [cls(name="n%d" % i) if cls is bigtree.Node else cls() for i in range(depth)]
            for i in range(1, depth):
                nodes[i].parent = nodes[i - 1]
            top, bottom = nodes[0], nodes[-1]
            attempts = {"top.parent = bottom": lambda: setattr(top, "parent", bottom),
                        "bottom.children = [top]": lambda: setattr(bottom, "children", [top]),
                        "bottom >> top": lambda: bottom >> top,
                        "bottom.append(top)": lambda: bottom.append(top),
                        "mid.parent = bottom": lambda: setattr(nodes[depth // 2], "parent", bottom)}
            for what, f in attempts.items():
                try:
                    f()
                    msgs.append(f"{cls.__name__} chain of {depth}: `{what}` (an ancestor loop) was accepted")
                except Exception:  # noqa: BLE001
                    pass
                x, steps = bottom, 0
                while x.parent is not None and steps <= depth:
                    x, steps = x.parent, steps + 1
                if x is not top or steps != depth - 1:
                    msgs.append(f"{cls.__name__} chain of {depth}: after `{what}` walking parents from the bottom does not end at the top")
                    break
            if msgs:
                return msgs
            try:
                bottom.parent = nodes[depth - 3]
            except Exception as e:  # noqa: BLE001
                msgs.append(f"{cls.__name__} chain of {depth}: a legal re-parenting of the bottom node raised {type(e).__name__}")
    return msgs


def oracle(case):
    d = case.data
    if d.get("probe") == "deep":
        return _deep_probe()
    nodes = U.make_nodes(d)
    msgs = []
    before = U.snap(nodes)
    for i, op in enumerate(d["ops"]):
        o = U.apply_op(nodes, op)
        if o == "hang":
            return msgs + [f"op {i} {U.fmt_op(op)} did not return within {U.HANG_SECONDS} s"]
        after = U.snap(nodes)
        for m in U.forest_errors(nodes):
            msgs.append(f"after op {i} {U.fmt_op(op)}: {m}")
        msgs += [f"op {i}: {m}" for m in U.effect_errors(d, before, op, o, after, d["names"])]
        before = after
        if msgs or not U.healthy(nodes):
            break
    if not msgs and ("corpus" in case.tags or zlib.crc32(case.line.encode()) % 61 == 0):
        # the same history in a second interpreter started with `python -O` (BIGTREE_CONF_ASSERTIONS unset): the
        # default configuration must not depend on interpreter flags - every refusal must still be a refusal
        from props import _twoproc
        here = U.show_trace(U.run_trace(d)[1])
        there = _twoproc.call("onO", "props._store_util:worker_eval", d)["trace"]
        if here != there:
            k = next((i for i, (a, b) in enumerate(zip(here.split(" ; "), there.split(" ; "))) if a != b), "?")
            msgs.append(f"under `python -O` (default configuration) the history behaves differently from call #{k} on: "
                        f"here={here[-200:]} -O={there[-200:]}")
    return msgs


def nontrivial(case):
    d = case.data
    return any(op[0] in ("P", "C", "A", "R", "L", "E") for op in d["ops"]) and len(d["ops"]) >= 2


def shrink(case):
    for d in U.shrink_history(case.data):
        yield Case(B.mk_line(d), d, case.tags)


def replay_known(entry) -> bool:
    """K8: a BinaryNode accepted as child of a Node (the link is not mirrored)"""
    w = entry.get("witness", {})
    if w.get("clause") != "binarynode_in_node_tree":
        return False
    from bigtree import Node, BinaryNode
    n, b = Node("n"), BinaryNode(1)
    try:
        n.children = [b]
    except Exception:
        return False
    return any(c is b for c in n.children) and b.parent is not n


NOT_READY = False
LEVEL_TEXT = "Proof. A statement-level Lean 4 model of BaseNode/Node's private state (parent link, ordered child list per node) and of every structural entry point (parent setter incl. None, children setter and deleter, append, extend, >>, <<, del node[name], sort, sep setter) executes the guards, the snapshot, the pre-/post-assign hooks, the body of the try and the explicit roll-back code in Python's order. Theorems C01.*: wf_init, wf_step, wf_run - for every history from freshly built nodes, every op, every argument (non-node objects, repeated members, self, ancestors, out-of-range ids) and every hook fault, the store is a forest: a node with parent p is listed by p, a listed child names that node as parent, lists are duplicate-free, walking parents terminates (Acc), links stay between existing nodes; reject_loops - self, ancestor, non-node parent and self/ancestor/repeated/non-node member are rejected; setParent_ok / setChildren_ok / delChildren_ok / delItem_ok / sort_perm - an accepted call has exactly the documented effect on every list and every parent link (new child last, given order, previous children become roots, donors keep the order of what is left, nothing else changes); anc_complete - the executable ancestor walk with fuel n is the semantic one (pigeon-hole). The model is tied to /repo on every run by differential testing of whole histories on user subclasses with raising hooks against the compiled model: outcome and whole store after every call. Bridge theorems Bridge.* connect this pointer model with the rose trees on which all read-only functions are specified: the read-back treeOf (follow .children recursively) of a well-formed store is fuel-independent, lists exactly a node and its descendants once each, the forest partitions the node set, and store links coincide with the parent/children relation of the tree in order (treeOf_fuel, treeOf_ids, forest_partition, treeOf_sub/children/parent/addr). Every accepted call, read back, is the documented edit of the forest - parent setter = take the subtree out and append it as last child (exact list equality), None = the subtree becomes a tree of its own, children setter = old children become roots then each member is moved under the node in order, deleter, append/extend/>>/<</del item, sort - and a rejected call leaves the forest unchanged, also for whole histories (setParent_some_refines ... step_refines, step_rej_forest, run_refines; up to the order of the trees), so the tree-level theorems transfer to every reachable state (preorder_transfer with C04, depth_transfer with C12/C03)."
LEVEL_NOTE = 'Unbounded part (all forests, all histories, all arguments, all fault points) by induction in Lean; the tie is exhaustive over all forests reachable on <=3 (quick) / <=4 (thorough, 193 forests x 1616 op/argument/fault tuples) nodes plus random histories on 5-9 nodes biased to donor parents with >= 4 children. Python objects are ids; hooks may raise but not mutate; the CorruptedTreeError branch is unreachable from well-formed stores and not modelled; sort keys are total rank functions.' + ' Known finding K8 (a BinaryNode accepted as child of a Node without the link being mirrored): every history uses one node class, the finding is replayed separately on every run. Node objects are truthy (no user __bool__/__len__): the library tests nodes by truthiness throughout.'
TECHNIQUE = 'Lean 4 invariant proof (WF preserved by every modelled statement sequence, closed forms of the setter bodies) + correspondence check (real bigtree vs native model driver) + model-free forest/effect oracle'
RULE = RULE + ' Fourth session: failing library calls on other objects between the calls of a history (op F: list_to_tree with a second root, a DAG constructor with a cycle, list_to_binarytree with a None, ...; for the model a refused no-op); the corpus and one in 61 of the other histories are replayed in a second interpreter started with `python -O` (BIGTREE_CONF_ASSERTIONS unset) and must behave identically.'
