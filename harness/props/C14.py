"""C14 — prune_tree and get_subtree return exactly the specified part of the tree."""
from __future__ import annotations
import itertools, random, zlib
import core
from core import hx
from runner import Case

THEOREMS = ["C14.prune_order_attrs", "C14.prune_nodes", "C14.prune_order", "C14.pruneKeep_prefix_closed", "C14.addrs_valid", "C14.subtree_eq",
            "C14.subtree_self", "C14.locate_designates", "C14.find_path_spec", "C14.missing_path_rej", "C14.missing_subtree_rej", "C14.prune_no_args_rej"]
RULE = ("trees: all ordered shapes up to N nodes and random shapes (<=30 nodes, depth<=10, fan-out<=8) labelled from "
        "suffix-related alphabets (a, b, ab, ba, bc, ...), sibling names distinct; 1-3 non-nested target nodes, each "
        "written as full path (with/without leading separator, optional trailing separator), partial path or bare "
        "name, chosen unambiguous under the string-suffix semantics of find_path; exact on/off; max_depth 0..depth+1; "
        "tree separators / . \\ | ::, the call's `sep` equal or different; Node and BinaryNode (with empty slots); "
        "get_subtree from root and inner start nodes; a malformed stream (missing path, no path and no depth). "
        "A case is non-trivial when the tree has >=4 nodes and at least one node is removed; distinct = distinct lines")
EXHAUSTIVE = {"quick": "every ordered tree shape with <=5 nodes x every single target node x exact on/off (full paths, max_depth 0)",
              "thorough": "every ordered tree shape with <=6 nodes x every single target and every non-nested pair of targets x exact on/off (full paths, max_depth 0)"}
MODELLED = ["tree.copy() is the identity on Model-B values (freshness of the copy is C07's Model-A part and the uid/identity check of this harness)",
            "Python sets of node objects are lists of addresses in the copied tree",
            "a BinaryNode tree is a rose tree whose nodes carry their slot index as an attribute; `del children`/`parent = None` leave the other slots in place"]
ASSUMPTIONS = ["prune_tree is called on a root node (the statement speaks of routes from the root); on a non-root start the code returns a node that is still attached to a pruned copy of the whole tree - not claimed, not generated",
               "target sets are non-nested and every path is unambiguous (the docstring's 'prune path name should be unique')",
               "names contain neither the tree separator nor the call's `sep`"]

ALPHA = ["a", "b", "ab", "ba", "bc", "c", "cb", "abc", "a b", "b.c", "x+", "b(", "d", "e"]
SEPS = ["/", "/", "/", ".", "\\", "|", "::"]


# ---------------------------------------------------------------- specs
def number(spec):
    """pre-order list of (idx, parent_idx, names_from_root, spec)"""
    out = []
    def go(s, parent, names):
        i = len(out)
        nm = names + [s[0]]
        out.append((i, parent, nm, s))
        for k in s[2]:
            go(k, i, nm)
    go(spec, None, [])
    return out


def sub_indices(nodes, i):
    """indices of the subtree rooted at i (pre-order numbering => contiguous)"""
    out = [i]
    for j in range(i + 1, len(nodes)):
        p = nodes[j][1]
        if p in out:
            out.append(j)
        else:
            break
    return out


def ancestors(nodes, i):
    out = []
    p = nodes[i][1]
    while p is not None:
        out.append(p)
        p = nodes[p][1]
    return out


def path_str(sep, names):
    return sep + sep.join(names)


def label_tree(shape, rng, alphabet, attr_p=0.4, binary=False):
    """sibling-unique random labelling; attrs in sorted key order"""
    def attrs():
        a = {}
        if rng.random() < attr_p:
            a["age"] = rng.choice([1, 2, 35, -4])
        if rng.random() < attr_p / 2:
            a["tag"] = rng.choice(["t", "", "a b", "é"])
        return a
    def go(s, nm, slot):
        pool = list(alphabet)
        rng.shuffle(pool)
        kids = []
        slots = [0, 1]
        if binary and len(s) == 1:
            slots = [rng.choice([0, 1])]
        for k, c in enumerate(s):
            cn = pool[k] if k < len(pool) else pool[k % len(pool)] + str(k)
            kids.append(go(c, cn, slots[k] if binary else None))
        a = attrs()
        if binary and slot is not None:
            a["slot"] = slot
            a = dict(sorted(a.items()))
        return (nm, a, kids)
    return go(shape, rng.choice(list(alphabet)), None)


def binary_shape(rng, size):
    """random shape with fan-out <= 2"""
    kids = [[] for _ in range(size)]
    for v in range(1, size):
        cands = [u for u in range(v) if len(kids[u]) < 2]
        p = cands[-1] if rng.random() < 0.4 else rng.choice(cands)
        kids[p].append(v)
    def build(u):
        return [build(c) for c in kids[u]]
    return build(0)


# ---------------------------------------------------------------- path writing
def write_path(rng, nodes, i, tsep, sep, scope, form=None):
    """a textual path for node i, written with `sep`, unambiguous among `scope` (indices searched)
    under find_path's suffix semantics after replace(sep, tsep); returns None if the chosen form is ambiguous"""
    names = nodes[i][2]
    form = form or rng.choice(["full", "full", "fullnolead", "partial", "name", "trail"])
    if form == "full":
        q = sep + sep.join(names)
    elif form == "fullnolead":
        q = sep.join(names)
    elif form == "trail":
        q = sep + sep.join(names) + sep
    elif form == "partial":
        k = rng.randint(1, len(names))
        q = sep.join(names[-k:])
    else:
        q = names[-1]
    # ambiguity check (plain string reading of the documented semantics)
    qq = q.replace(sep, tsep).rstrip(tsep)
    hits = [j for j in scope if path_str(tsep, nodes[j][2]).endswith(qq)]
    if hits != [i]:
        return None
    return q


def choose_targets(rng, nodes, k):
    """k pairwise non-nested non-root nodes (fewer if impossible)"""
    cand = list(range(1, len(nodes)))
    rng.shuffle(cand)
    out = []
    for c in cand:
        if len(out) >= k:
            break
        if all(c not in ancestors(nodes, o) and o not in ancestors(nodes, c) for o in out):
            out.append(c)
    return out


def names_ok(spec, tsep, sep):
    bad = set(tsep) | set(sep)
    return all(not (set(s[0]) & bad) for _, _, _, s in number(spec))


# ---------------------------------------------------------------- cases
def _line(d):
    head = f"fn={d['fn']} tsep={hx(d['tsep'])} md={d['md']}"
    if d["fn"] == "prune":
        ps = ",".join(hx(p) for p in d["paths"]) if d["paths"] else "-"
        head += f" sep={hx(d['sep'])} exact={1 if d['exact'] else 0} paths={ps}"
    else:
        head += f" start={d['start']} q={hx(d['q'])}"
    return head + " T " + core.enc_tree(d["spec"])


def mk(d, tags=()):
    return Case(_line(d), d, tags)


def rehydrate(case):
    return Case(case.line, case.data)


def prune_case(spec, binary, tsep, sep, exact, md, paths, targets, expect, as_str=False, tags=()):
    return mk({"fn": "prune", "spec": spec, "binary": binary, "tsep": tsep, "sep": sep, "exact": exact, "md": md,
               "paths": paths, "targets": targets, "expect": expect, "as_str": as_str}, tags)


def subtree_case(spec, binary, tsep, start, q, target, md, expect, tags=()):
    return mk({"fn": "subtree", "spec": spec, "binary": binary, "tsep": tsep, "start": start, "q": q, "target": target,
               "md": md, "expect": expect}, tags)


def plain(shape):
    return core.label(shape, lambda i, d, k, p: "n%d" % i)


def gen(rng: random.Random, tier: str):
    cases = []
    # ---- corpus: the "ignores `exact` once two paths are given" mutant, and friends
    t = ("r", {}, [("a", {"age": 1}, [("x", {}, []), ("y", {}, [("z", {}, [])])]), ("b", {}, [("z", {"age": 2}, [])]), ("c", {}, [])])
    cases.append(prune_case(t, False, "/", "/", True, 0, ["/r/a", "/r/b"], [1, 5], "ok", tags=("corpus", "exact2")))
    cases.append(prune_case(t, False, "/", "/", False, 0, ["/r/a", "/r/b"], [1, 5], "ok", tags=("corpus",)))
    cases.append(prune_case(t, False, "/", "/", True, 0, ["r/a/y", "b", "c"], [3, 5, 7], "ok", tags=("corpus", "exact3")))
    cases.append(prune_case(t, False, "/", "/", True, 2, ["a/y"], [3], "ok", True, tags=("corpus",)))
    cases.append(prune_case(t, False, "/", "/", False, 0, ["/r/q"], None, "NotFoundError", tags=("corpus", "missing")))
    cases.append(prune_case(t, False, "/", "/", False, 0, [], [], "ValueError", tags=("corpus", "noargs")))
    cases.append(prune_case(t, False, "/", "/", False, 2, [], [], "ok", tags=("corpus", "depthonly")))
    # D2: depth cut on a binary tree must keep two slots
    bt = ("1", {}, [("2", {"slot": 0}, [("4", {"slot": 1}, [])]), ("3", {"slot": 1}, [("5", {"slot": 0}, []), ("6", {"slot": 1}, [])])])
    cases.append(prune_case(bt, True, "/", "/", False, 2, [], [], "ok", tags=("corpus", "binary", "D2")))
    cases.append(prune_case(bt, True, "/", "/", True, 0, ["/1/3"], [3], "ok", tags=("corpus", "binary", "D2")))
    cases.append(subtree_case(bt, True, "/", 0, "3", 3, 1, "ok", tags=("corpus", "binary")))

    # ---- a WIDE parent (70 children, a few with subtrees) and a DEEP chain (120 levels with side leaves)
    wide_shape = [[] for _ in range(30)] + [[[[]]], [[]], [[[[]], []]]] + [[] for _ in range(37)]
    def _chain(k):
        return [] if k == 0 else ([_chain(k - 1), []] if k % 30 == 7 else [_chain(k - 1)])
    for shape, wtag in ((wide_shape, "wide"), (_chain(119), "deep")):
        spec = plain(shape)
        nodes = number(spec)
        n = len(nodes)
        for tg in ([31], [33], [n - 1], [31, 40], [n // 2]):
            if any(i >= n for i in tg) or any(a in ancestors(nodes, b) for a in tg for b in tg if a != b):
                continue
            for exact in (False, True):
                for md in (0, 3, 60):
                    paths = [path_str("/", nodes[i][2]) for i in tg]
                    cases.append(prune_case(spec, False, "/", "/", exact, md, paths, tg, "ok", tags=("corpus", wtag)))
        for i in (0, 31, n // 2, n - 1):
            for md in (0, 2, 50):
                cases.append(subtree_case(spec, False, "/", 0, nodes[i][2][-1], i, md, "ok", tags=("corpus", wtag, "subtree")))
    # ---- exhaustive small scope
    nmax = 5 if tier == "quick" else 6
    for shape in core.all_shapes_upto(nmax):
        spec = plain(shape)
        nodes = number(spec)
        n = len(nodes)
        singles = [[i] for i in range(1, n)]
        pairs = []
        if tier == "thorough":
            pairs = [[i, j] for i in range(1, n) for j in range(i + 1, n)
                     if i not in ancestors(nodes, j) and j not in ancestors(nodes, i)]
        for tg in singles + pairs:
            for exact in (False, True):
                paths = [path_str("/", nodes[i][2]) for i in tg]
                cases.append(prune_case(spec, False, "/", "/", exact, 0, paths, tg, "ok", tags=("enum", "n=%d" % n, "k=%d" % len(tg))))
        for i in range(n):
            cases.append(subtree_case(spec, False, "/", 0, nodes[i][2][-1], i, rng.choice([0, 0, 1, 2]), "ok", tags=("enum-subtree",)))

    # ---- random prune
    nr = 1500 if tier == "quick" else 15000
    for it in range(nr):
        binary = rng.random() < 0.25
        size = rng.randint(2, 9) if rng.random() < 0.6 else rng.randint(10, 30)
        tsep = "/" if binary else rng.choice(SEPS)
        sep = tsep if rng.random() < 0.6 else rng.choice(SEPS)
        alphabet = [a for a in ALPHA if not (set(a) & (set(tsep) | set(sep)))]
        shape = binary_shape(rng, size) if binary else core.random_shape(rng, size)
        spec = label_tree(shape, rng, alphabet, binary=binary)
        nodes = number(spec)
        depth = core.shape_depth(shape)
        md = rng.choice([0, 0, 0, 1, 2, 3, depth - 1, depth, depth + 1])
        md = max(md, 0)
        exact = rng.random() < 0.5
        r = rng.random()
        tags = ["random", "binary" if binary else "node", "tsep=" + tsep, "sep=same" if sep == tsep else "sep=other",
                "md=0" if md == 0 else "md>0", "exact" if exact else "inexact"]
        if r < 0.06:
            cases.append(prune_case(spec, binary, tsep, sep, exact, md, [], [], "ok" if md else "ValueError",
                                    tags=tags + ["nopaths"]))
            continue
        k = rng.choice([1, 1, 2, 2, 3])
        tg = choose_targets(rng, nodes, k)
        if not tg:
            continue
        scope = list(range(len(nodes)))
        paths = []
        for i in tg:
            q = None
            for _ in range(6):
                q = write_path(rng, nodes, i, tsep, sep, scope)
                if q is not None:
                    break
            if q is None:
                q = write_path(rng, nodes, i, tsep, sep, scope, "full")
            paths.append(q)
        if any(p is None for p in paths):
            continue
        if r < 0.2:
            # malformed stream: one path that matches nothing
            bad = rng.choice([sep + sep.join(nodes[tg[0]][2] + ["zz"]), "zz", sep + "zz" + sep + nodes[0][2][0],
                              sep.join(["q"] + nodes[tg[0]][2])])
            pos = rng.randrange(len(paths) + 1)
            paths2 = paths[:pos] + [bad] + paths[pos:]
            cases.append(prune_case(spec, binary, tsep, sep, exact, md, paths2, None, "NotFoundError",
                                    as_str=False, tags=tags + ["missing"]))
            continue
        as_str = len(paths) == 1 and rng.random() < 0.5
        cases.append(prune_case(spec, binary, tsep, sep, exact, md, paths, tg, "ok", as_str,
                                tags=tags + ["k=%d" % len(tg)]))

    # ---- random get_subtree
    ns = 400 if tier == "quick" else 4000
    for it in range(ns):
        binary = rng.random() < 0.2
        size = rng.randint(1, 9) if rng.random() < 0.6 else rng.randint(10, 25)
        tsep = "/" if binary else rng.choice(SEPS)
        alphabet = [a for a in ALPHA if not (set(a) & set(tsep))]
        shape = binary_shape(rng, size) if binary else core.random_shape(rng, size)
        spec = label_tree(shape, rng, alphabet, binary=binary)
        nodes = number(spec)
        start = 0 if rng.random() < 0.7 else rng.randrange(len(nodes))
        scope = sub_indices(nodes, start)
        target = rng.choice(scope)
        md = rng.choice([0, 0, 1, 2, 3, 4])
        tags = ["subtree", "binary" if binary else "node", "start=root" if start == 0 else "start=inner", "md=0" if md == 0 else "md>0"]
        r = rng.random()
        if r < 0.15:
            cases.append(subtree_case(spec, binary, tsep, start, "", start, md, "ok", tags=tags + ["noquery"]))
            continue
        if r < 0.3:
            cases.append(subtree_case(spec, binary, tsep, start, rng.choice(["zz", tsep + "zz", nodes[target][2][-1] + "zz"]),
                                      None, md, "ValueError", tags=tags + ["missing"]))
            continue
        q = None
        for _ in range(6):
            q = write_path(rng, nodes, target, tsep, tsep, scope)
            if q is not None:
                break
        if q is None:
            q = write_path(rng, nodes, target, tsep, tsep, scope, "full")
        if q is None:
            continue
        cases.append(subtree_case(spec, binary, tsep, start, q, target, md, "ok", tags=tags))
    return cases


def nontrivial(case):
    d = case.data
    n = len(number(d["spec"]))
    return n >= 4 and d["expect"] == "ok"


# ---------------------------------------------------------------- implementation side
def build(d):
    """real tree; every node gets the public attribute uid = its pre-order index"""
    from bigtree import Node, BinaryNode
    nodes = []
    def go(s, parent):
        name, attrs, kids = s
        i = len(nodes)
        a = {k: v for k, v in attrs.items() if not (d["binary"] and k == "slot")}
        if d["binary"]:
            n = BinaryNode(name, uid=i, **a)
        elif parent is None:
            n = Node(name, sep=d["tsep"], uid=i, **a)
        else:
            n = Node(name, uid=i, **a)
        nodes.append(n)
        if d["binary"]:
            slots = [None, None]
            for k in kids:
                c = go(k, n)
                slots[k[1]["slot"]] = c
            n.children = slots
        else:
            if parent is not None:
                n.parent = parent
            for k in kids:
                go(k, n)
        return n
    root = go(d["spec"], None)
    if not d["binary"] and zlib.crc32(repr(d["spec"]).encode()) % 2 == 0:
        _lived_in(root, nodes)
    return root, nodes


def _lived_in(root, nodes):
    """the tree has a past: an inner node X (with its subtree) hung somewhere else for a while, every node was looked up
    by path and read while it did, then X went back to where the spec has it (same parent, same position).  Whatever a
    lookup remembers about the nodes below X (paths, depths) is from the other place."""
    import bigtree
    for x in nodes[1:]:
        if not x.children:
            continue
        par = x.parent
        order = list(par.children)
        below = {id(n) for n in bigtree.preorder_iter(x)}
        hosts = [y for y in nodes if id(y) not in below and y is not par
                 and all(c.node_name != x.node_name for c in y.children)]
        if not hosts:
            continue
        y = hosts[-1]
        x.parent = y
        try:
            for n in nodes:
                for f in (lambda: bigtree.find_path(root, n.node_name), lambda: list(bigtree.find_paths(root, n.node_name)),
                          lambda: bigtree.find_full_path(root, n.path_name), lambda: (n.depth, n.path_name, root.max_depth)):
                    try:
                        f()
                    except Exception:  # noqa: BLE001 - ambiguous names etc.: only the reads matter
                        pass
        finally:
            par.children = order
        return


def call(d, nodes):
    import bigtree
    if d["fn"] == "prune":
        pp = d["paths"][0] if d.get("as_str") and len(d["paths"]) == 1 else list(d["paths"])
        res = bigtree.prune_tree(nodes[0], pp, exact=d["exact"], sep=d["sep"], max_depth=d["md"])
        if isinstance(pp, list) and pp != list(d["paths"]):
            # the list of paths belongs to the caller (who may go on using it, e.g. on a tree with another separator)
            raise RuntimeError(f"prune_tree modified the caller's list of paths in place: {pp}")
        return res
    return bigtree.get_subtree(nodes[d["start"]], d["q"], max_depth=d["md"])


def node_attrs(n, binary):
    a = dict(n.describe(exclude_attributes=["name", "uid"] + (["val"] if binary else []), exclude_prefix="_"))
    if binary and n.parent is not None:
        idx = [k for k, c in enumerate(n.parent.children) if c is n]
        a["slot"] = idx[0] if len(idx) == 1 else -1
    return dict(sorted(a.items()))


def canon(n, binary, root_slot=None):
    uid = n.get_attr("uid")
    a = node_attrs(n, binary)
    if binary and n.parent is None and root_slot is not None:
        a = dict(sorted(dict(a, slot=root_slot).items()))   # a re-rooted node keeps the slot label it had in the input
    parts = ["(", str(uid) if isinstance(uid, int) else "?", hx(str(n.name)), core.enc_attrs(a)]
    if binary and len(n.children) != 2:
        parts.append("!slots=%d" % len(n.children))
    for c in n.children:
        if c is not None:
            parts.append(canon(c, binary))
    parts.append(")")
    return " ".join(parts)


def impl(case):
    from bigtree.utils.exceptions import NotFoundError
    d = case.data
    root, nodes = build(d)
    try:
        res = call(d, nodes)
    except NotFoundError:
        return "NotFoundError"
    except ValueError:
        return "ValueError"
    except Exception:
        return "rej"
    root_slot = None
    uid = res.get_attr("uid")
    if d["binary"] and isinstance(uid, int) and 0 <= uid < len(nodes):
        root_slot = number(d["spec"])[uid][3][1].get("slot")
    return "ok " + canon(res, d["binary"], root_slot)


def worker_impl(d):
    """executed in a worker interpreter (props/_twoproc.py): the outcome line of one case"""
    return impl(Case("", d, ()))


# ---------------------------------------------------------------- oracle (model-free)
def oracle(case):
    from bigtree.utils.exceptions import NotFoundError
    d = case.data
    root, nodes = build(d)
    binary = d["binary"]
    before = [(id(n), id(n.parent) if n.parent else None, [id(c) if c is not None else None for c in n.children],
               n.name, node_attrs(n, binary)) for n in nodes]
    msgs = []
    try:
        res = call(d, nodes)
        err = None
    except Exception as e:  # noqa
        res, err = None, e
    after = [(id(n), id(n.parent) if n.parent else None, [id(c) if c is not None else None for c in n.children],
              n.name, node_attrs(n, binary)) for n in nodes]
    if before != after:
        msgs.append("the input tree was altered by the call")
    if d["expect"] != "ok":
        want = NotFoundError if d["expect"] == "NotFoundError" else ValueError
        if err is None:
            msgs.append(f"expected {d['expect']}, call returned a tree")
        elif not isinstance(err, want):
            msgs.append(f"expected {d['expect']}, got {type(err).__name__}")
        if not msgs:
            # "reported as an error rather than ignored" is not one of the optional type/loop checks: the same call in
            # an interpreter started with BIGTREE_CONF_ASSERTIONS="" must be refused in the same way
            from props import _twoproc
            off = _twoproc.call("off", "props.C14:worker_impl", d)
            if off != d["expect"]:
                msgs.append(f"with BIGTREE_CONF_ASSERTIONS switched off the call is no longer refused with {d['expect']}: {off[:120]}")
        return msgs
    if err is not None:
        msgs.append(f"valid call raised {type(err).__name__}: {err}")
        return msgs
    # expected kept set, from the real objects' links
    def anc(n):
        out = []
        while n.parent is not None:
            n = n.parent
            out.append(n)
        return out
    kids = lambda n: [c for c in n.children if c is not None]
    def pre(n):
        out = [n]
        for c in kids(n):
            out += pre(c)
        return out
    md = d["md"]
    if d["fn"] == "prune":
        top = nodes[0]
        targets = [nodes[i] for i in d["targets"]]
        def keep(x):
            if targets and not any(x is t or x in anc(t) or ((not d["exact"]) and t in anc(x)) for t in targets):
                return False
            return not md or x.depth <= md
    else:
        top = nodes[d["target"]]
        base = top.depth
        def keep(x):
            return not md or x.depth - base + 1 <= md
    want = [x for x in pre(top) if keep(x)]
    got = pre(res)
    orig_ids = {id(n) for n in nodes}
    if any(id(g) in orig_ids for g in got):
        msgs.append("the result shares node objects with the input")
    if not res.is_root:
        msgs.append("the result is not a root")
    gu = [g.get_attr("uid") for g in got]
    wu = [w.get_attr("uid") for w in want]
    if gu != wu:
        msgs.append(f"result nodes (pre-order uids) {gu} != specified part {wu}")
        return msgs
    for g, w in zip(got, want):
        if g.name != w.name or node_attrs(g, False) != node_attrs(w, False):
            msgs.append(f"node {w.get_attr('uid')}: name/attrs changed")
        gp = g.parent.get_attr("uid") if g.parent is not None else None
        wp = w.parent.get_attr("uid") if (w.parent is not None and w is not top) else None
        if gp != wp:
            msgs.append(f"node {w.get_attr('uid')}: parent {gp} != {wp}")
        if binary:
            if len(g.children) != 2:
                msgs.append(f"node {w.get_attr('uid')}: BinaryNode with {len(g.children)} child slots")
            elif g.parent is not None and node_attrs(g, True).get("slot") != node_attrs(w, True).get("slot"):
                msgs.append(f"node {w.get_attr('uid')}: moved to the other slot")
    return msgs


# ---------------------------------------------------------------- shrinking
def _remove_leaf(spec, idx):
    ctr = itertools.count()
    def go(s):
        i = next(ctr)
        kids = []
        for k in s[2]:
            r = go(k)
            if r is not None:
                kids.append(r)
        if i == idx:
            return None
        return (s[0], s[1], kids)
    return go(spec)


def shrink(case):
    d = case.data
    if d["md"]:
        yield mk(dict(d, md=0), case.tags)
    if d["fn"] == "prune":
        if d["expect"] == "ok" and len(d["paths"]) > 1:
            for k in range(len(d["paths"])):
                yield mk(dict(d, paths=d["paths"][:k] + d["paths"][k + 1:], targets=d["targets"][:k] + d["targets"][k + 1:]), case.tags)
        if d.get("as_str"):
            yield mk(dict(d, as_str=False), case.tags)
    if d["binary"]:
        return
    nodes = number(d["spec"])
    protected = set()
    for t in (d.get("targets") or []) + ([d["target"]] if d.get("target") is not None else []) + ([d["start"]] if "start" in d else []):
        protected.add(t)
        protected.update(ancestors(nodes, t))
    for idx in range(len(nodes) - 1, 0, -1):
        if nodes[idx][3][2] or idx in protected:
            continue
        ren = lambda x: x - 1 if x > idx else x
        nd = dict(d, spec=_remove_leaf(d["spec"], idx))
        if d.get("targets"):
            nd["targets"] = [ren(x) for x in d["targets"]]
        if d.get("target") is not None:
            nd["target"] = ren(d["target"])
        if "start" in d:
            nd["start"] = ren(d["start"])
        # removing a leaf can make a partial path ambiguous? no: fewer nodes => fewer matches
        yield mk(nd, case.tags)


NOT_READY = False
LEVEL_TEXT = ("machine-checked (Lean 4), for all trees, all located pairwise non-nested target sets, exact on/off and every max_depth: "
              "prune_tree as written (find_path, ancestor set, detach loop, depth cut through the level groups with `del children`) "
              "returns the input tree restricted to the nodes on a route to a target or - unless exact - below one, and of depth <= "
              "max_depth; sibling order, names and attributes are those of the input (prune_order_attrs, prune_nodes, prune_order); get_subtree "
              "returns the addressed node with its descendants to the relative depth as a new root (subtree_eq, subtree_self); a path "
              "matching no node raises NotFoundError / ValueError, no path and no depth raises ValueError (missing_path_rej, "
              "missing_subtree_rej, prune_no_args_rej). Which node a textual path designates is find_path's string-suffix semantics "
              "(locate_designates, find_path_spec: the unique node whose path_name ends with the query); freshness of the copy is C07")
LEVEL_NOTE = ("the model is tied to the code by differential testing on generated calls (Node and BinaryNode trees, 1-3 paths in full / "
              "partial / name form, separators / . \\ | ::, missing paths); multi-character separators and the `sep` replacement are "
              "covered by the tie only")
TECHNIQUE = "Lean 4 proof (implementation-shaped model = structural specification) + correspondence check against the real library"
RULE = RULE + " Fourth session: the caller's list of prune paths must be unchanged after the call."
RULE = RULE + ' Fifth session: lived-in trees: a subtree hung elsewhere while every node was looked up by path, then put back.'
