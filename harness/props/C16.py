"""C16 — DAG traversal and queries agree with graph-theoretic definitions."""
from __future__ import annotations
import itertools, random, zlib
import core
from runner import Case
from props import _dag_util as U

THEOREMS = [
    "C16.dag_iter_edges", "C16.dag_iter_edges_connected", "C16.dag_iter_mem", "C16.dag_iter_nodup", "C16.fuel_suffices",
    "C16.ancestors_eq_reach", "C16.descendants_eq_reach", "C16.siblings_eq",
    "C16.go_to_all_paths", "C16.go_to_refused_iff",
    # bridge DAGNode store (C10's DagStore) -> Dag graphs: lean/BigtreeProofs/Properties/DagBridge.lean
    "DagBridge.toDag_wf", "DagBridge.toDag_wf_iff", "DagBridge.reachable_wf", "DagBridge.reachable_wf_trace",
    "DagBridge.vocabulary", "DagBridge.store_links",
    "DagBridge.dag_iter_edges_reachable", "DagBridge.dag_iter_mem_reachable", "DagBridge.ancestors_reachable",
    "DagBridge.descendants_reachable", "DagBridge.siblings_store", "DagBridge.go_to_reachable", "DagBridge.export_reachable",
    "DagBridge.assign_edges", "DagBridge.setChildren_edges_exact", "DagBridge.setParents_edges_exact",
    "DagBridge.delete_edges", "DagBridge.rejected_edges", "DagBridge.step_refines", "DagBridge.run_refines",
]
PROOF_IMPORTS = ["BigtreeProofs.Properties.C16", "BigtreeProofs.Properties.DagBridge"]
RULE = ("one case = one DAG (edges in construction order, each added through a randomly chosen real setter: "
        "parents=, children=, >>, <<) and one start node; compared from that node: dag_iterator (only when the DAG "
        "is weakly connected), ancestors, descendants, siblings and go_to to every node. Exhaustive: every acyclic "
        "edge set on <=4 labelled nodes, every construction order of edge sets with <=3 edges, shuffled orders "
        "above, every start node. Random: DAGs with 5..10 nodes, up to 4 parents per node, every start node, some "
        "disconnected (go_to refusal); 'fan' DAGs (a centre with 3-4 parents and/or children, each owning a private appendix). Corpus: docstring DAG, diamond, 3- and 4-parent nodes whose last parent "
        "leads to otherwise unreachable edges. History-built DAGs (about 40 % of the random cases, every corpus DAG, every "
        "edge set on 3 nodes): the edge insertions are interleaved with warm-up queries, refused cycle-closing "
        "assignments, assignments rolled back because a user hook (which reads ancestors/descendants/siblings, as hooks "
        "may) raises before or after the assignment, and edges added and deleted again; the model only sees the final "
        "edge list. Name schemes include names that collide under concatenation with a joiner (a-b + c vs a + b-c). Non-trivial = at least 3 edges; distinct = distinct protocol lines")
EXHAUSTIVE = {
    "quick": "all acyclic edge sets on 1..4 labelled nodes (1+3+25+543) x every start node; every construction order for edge sets with <=3 edges, 2 orders above",
    "thorough": "all acyclic edge sets on 1..4 labelled nodes x every start node; every construction order for edge sets with <=4 edges, 6 orders above",
}
MODELLED = ["DAGNode objects are ids; node names are the ids (dag_iterator keys its visited set by name: names are distinct by hypothesis)",
            "generators are modelled as the list they yield when driven to exhaustion without interleaved mutation"]
ASSUMPTIONS = ["node names are distinct (stated by the property and by dag_iterator's docstring)",
               "well-formedness of the DAG (links symmetric, duplicate-free, acyclic) is no longer assumed for DAGs built through the "
               "DAGNode API: DagBridge.reachable_wf proves it for the graph read off every store reachable by any history of "
               "DAGNode calls (C10's store model, any arguments, any hook faults); it remains a hypothesis only for DAGs whose "
               "private lists were edited behind the API",
               "dag_iterator's claim is for weakly connected DAGs; closures, siblings and go_to for every DAG"]


# ---------------------------------------------------------------- cases
def _line(d):
    return "%s s=%d iter=%d" % (U.dag_tokens(d), d["start"], 1 if d["iter"] else 0)


def mk_case(n, edges, start, rng, names=None, tags=(), noise=0):
    edges = [list(e) for e in edges]
    d = {"n": n, "edges": edges, "start": start,
         "modes": "".join(rng.choice("PPCCRL") for _ in edges),
         "names": names or ["n%d" % i for i in range(n)],
         "iter": U.weakly_connected(n, edges)}
    if noise:
        d["noise"] = U.add_noise(rng, n, edges, noise)
        tags = tuple(tags) + ("history",) + tuple(sorted({"h:" + st[1] for st in d["noise"]}))
    return Case(_line(d), d, tags)


def rehydrate(case):
    return Case(case.line, case.data)


CORPUS = [
    # docstring example of dag_iterator
    (5, [(0, 2), (1, 2), (0, 3), (2, 3), (3, 4)]),
    # diamond
    (4, [(0, 1), (0, 2), (1, 3), (2, 3)]),
    # "explores only the first two parents": third parent 3 is the only way to 4>3 and 4>5
    (6, [(1, 0), (2, 0), (3, 0), (4, 3), (4, 5)]),
    # same with the third / fourth parent leading to a longer chain
    (8, [(1, 0), (2, 0), (3, 0), (4, 0), (5, 4), (6, 5), (6, 7)]),
    # first two children only: third child is the only way onwards
    (6, [(0, 1), (0, 2), (0, 3), (3, 4), (5, 4)]),
    # many paths: ladder
    (6, [(0, 1), (0, 2), (1, 2), (1, 3), (2, 3), (2, 4), (3, 4), (3, 5), (4, 5)]),
    # shared parents: siblings with repeats
    (4, [(0, 2), (1, 2), (0, 3), (1, 3)]),
    # disconnected
    (4, [(0, 1), (2, 3)]),
]


def gen(rng: random.Random, tier: str):
    cases = []
    probe = mk_case(2, [[0, 1]], 0, rng, tags=("corpus", "probe-deep"))
    probe.data["probe"] = "deep"      # one-off probe (the case itself is trivial): see _deep_probe
    cases.append(probe)
    for n, edges in CORPUS:
        for s in range(n):
            cases.append(mk_case(n, edges, s, rng, tags=("corpus",)))
            cases.append(mk_case(n, edges, s, rng, tags=("corpus",), noise=4))
            cases.append(mk_case(n, edges, s, rng, names=U.concat_names(rng, n), tags=("corpus", "concat-names")))
    # names that collide under concatenation, for every joiner
    for j in U.JOINERS:
        for _ in range(2 if tier == "quick" else 10):
            n, edges, names = U.collide_dag(rng, j)
            for s in range(n):
                cases.append(mk_case(n, edges, s, rng, names=names, tags=("collide-names",)))
    # history-built small DAGs: every acyclic edge set on 3 nodes, a few on 4, reached through noisy histories
    for n in (3, 4):
        sets = list(U.all_acyclic_edge_sets(n))
        if n == 4:
            sets = rng.sample(sets, 60 if tier == "quick" else 300)
        for es in sets:
            if es:
                cases.append(mk_case(n, es, rng.randrange(n), rng, tags=("enum-history", "n=%d" % n), noise=3))
    perm_upto = 3 if tier == "quick" else 4
    extra = 1 if tier == "quick" else 5
    for n in range(1, 5):
        for es in U.all_acyclic_edge_sets(n):
            if len(es) <= perm_upto:
                orders = [list(p) for p in itertools.permutations(es)]
            else:
                orders = [es]
                for _ in range(extra):
                    o = es[:]
                    rng.shuffle(o)
                    orders.append(o)
            for o in orders:
                for s in range(n):
                    cases.append(mk_case(n, o, s, rng, tags=("enum", "n=%d" % n, "m=%d" % len(es))))
    for _ in range(60 if tier == "quick" else 600):
        n, edges = U.fan_dag(rng)
        for s in range(n):
            cases.append(mk_case(n, edges, s, rng, tags=("fan",)))
    nr = 300 if tier == "quick" else 4000
    for k in range(nr):
        n = rng.randint(5, 10)
        conn = rng.random() < 0.85
        edges = U.random_dag(rng, n, max_parents=rng.choice([2, 3, 4, 4]), connected=conn)
        names = U.make_names(rng, n)
        maxpar = max([sum(1 for e in edges if e[1] == v) for v in range(n)] + [0])
        starts = range(n) if tier == "thorough" or k % 3 == 0 else rng.sample(range(n), 3)
        for s in starts:
            cases.append(mk_case(n, edges, s, rng, names=names, noise=(rng.randint(2, 6) if rng.random() < 0.4 else 0),
                                 tags=("random", "connected" if U.weakly_connected(n, edges) else "disconnected",
                                       "maxparents=%d" % maxpar)))
    return cases


def nontrivial(case):
    return len(case.data["edges"]) >= 3


# ---------------------------------------------------------------- implementation side
def _run(d):
    """returns (ids, nodes, dict of raw results from the real API)"""
    from bigtree import dag_iterator
    from bigtree.utils.exceptions import TreeError
    nodes = U.build_real(d)
    ids = core.IdMap(nodes)
    s = nodes[d["start"]]
    res = {}
    if d["iter"]:
        # consumed while ANOTHER traversal (from the first node) is alive and advanced in between, as in a nested loop
        other = iter(dag_iterator(nodes[0]))
        next(other, None)
        got = []
        for p, c in dag_iterator(s):
            got.append((ids(p), ids(c)))
            next(other, None)
        res["iter"] = got
    else:
        res["iter"] = None
    res["anc"] = [ids(x) for x in s.ancestors]
    res["desc"] = [ids(x) for x in s.descendants]
    res["sib"] = [ids(x) for x in s.siblings]
    raw = []
    for t in nodes:
        try:
            raw.append(s.go_to(t))
        except TreeError:
            raw.append(None)
    # the answers are read only after ALL the calls were made (a table filled first and evaluated afterwards): an answer
    # belongs to the caller and must not change when the next question is asked
    res["go"] = [None if g is None else [[ids(x) for x in path] for path in g] for g in raw]
    return ids, nodes, res


def impl(case):
    d = case.data
    try:
        _ids, _nodes, r = _run(d)
    except Exception as e:
        return "build-or-query-failed:" + type(e).__name__
    out = ["iter=" + (U.enc_edges(r["iter"]) if r["iter"] is not None else "skip"),
           "anc=" + core.nats(r["anc"]), "desc=" + core.nats(r["desc"]), "sib=" + core.nats(r["sib"])]
    for t, paths in enumerate(r["go"]):
        if paths is None:
            v = "rej"
        else:
            v = "|".join(".".join(str(x) for x in p) for p in paths) if paths else "-"
        out.append("go%d=%s" % (t, v))
    return " ".join(out)


ORDER_DIFFS = {"n": 0}


def compare(a, b, case):
    """multiset comparison per field (the model is list-exact; order alone is not an alarm)"""
    if a == b:
        return True
    fa, fb = a.split(" "), b.split(" ")
    if len(fa) != len(fb):
        return False
    for x, y in zip(fa, fb):
        if x == y:
            continue
        kx, _, vx = x.partition("=")
        ky, _, vy = y.partition("=")
        if kx != ky or "rej" in (vx, vy) or "skip" in (vx, vy):
            return False
        sep = "|" if kx.startswith("go") else ","
        if U.multiset(vx, sep) != U.multiset(vy, sep):
            return False
    ORDER_DIFFS["n"] += 1
    return True


# ---------------------------------------------------------------- oracle (model-free)
def _deep_probe():
    """a DAG far deeper than anything the small-scope part reaches: a spine n0 -> ... -> n299, every pair of neighbours
    on it sharing a child (n_i -> t_i <- n_i+1), so below ANY depth there is a node with two unvisited neighbours that are
    adjacent to each other: dag_iterator must still hand out every edge exactly once, from the top, the middle and a leaf"""
    from bigtree import DAGNode, dag_iterator
    L = 300
    spine = [DAGNode("n%d" % i) for i in range(L)]
    for a, b in zip(spine, spine[1:]):
        a >> b
    leaves = []
    for i in range(L - 1):
        t = DAGNode("t%d" % i)
        spine[i] >> t
        spine[i + 1] >> t
        leaves.append(t)
    want = sorted([("n%d" % i, "n%d" % (i + 1)) for i in range(L - 1)] + [("n%d" % i, "t%d" % i) for i in range(L - 1)]
                  + [("n%d" % (i + 1), "t%d" % i) for i in range(L - 1)])
    msgs = []
    for start in (spine[0], spine[L // 2], spine[-1], leaves[7]):
        try:
            got = sorted((p.node_name, c.node_name) for p, c in dag_iterator(start))
        except Exception as e:  # noqa: BLE001
            msgs.append(f"dag_iterator from {start.node_name} on a spine of {L} raised {type(e).__name__}")
            continue
        if got != want:
            missing = [e for e in want if e not in set(got)][:4]
            msgs.append(f"dag_iterator from {start.node_name} on a spine of {L} with shared leaves: {len(got)} edges handed out, "
                        f"{len(want)} exist; missing {missing}, repeated {len(got) - len(set(got))}")
    anc = sorted(x.node_name for x in leaves[-1].ancestors)
    if anc != sorted("n%d" % i for i in range(L)):
        msgs.append(f"ancestors of the last leaf on a spine of {L}: {len(anc)} listed, {L} exist")
    return msgs


def oracle(case):
    d = case.data
    if d.get("probe") == "deep":
        return _deep_probe()
    try:
        ids, nodes, r = _run(d)
    except Exception as e:
        return ["building the DAG edge by edge (every edge keeps it acyclic%s) or querying it raised %s: %s"
                % (", history steps interleaved" if d.get("noise") else "", type(e).__name__, str(e)[:120])]
    n = len(nodes)
    s = d["start"]
    msgs = []
    es, sym = U.real_edges(nodes, ids)
    msgs += sym
    eset = set(es)
    if len(eset) != len(es):
        msgs.append("a link is stored twice")
    ch = {i: [c for p, c in es if p == i] for i in range(n)}
    pa = {i: [p for p, c in es if c == i] for i in range(n)}

    def closure(adj, v):
        seen, todo = set(), [v]
        while todo:
            x = todo.pop()
            for y in adj[x]:
                if y not in seen:
                    seen.add(y)
                    todo.append(y)
        return seen
    # dag_iterator: every edge exactly once, as (parent, child)
    if r["iter"] is not None:
        got = r["iter"]
        if sorted(got) != sorted(eset):
            missing = sorted(eset - set(got))
            extra = sorted(set(got) - eset)
            dup = sorted({e for e in got if got.count(e) > 1})
            msgs.append(f"dag_iterator from {s}: missing edges {missing}, not edges {extra}, repeated {dup}")
    # closures
    for key, adj, what in (("anc", pa, "ancestors"), ("desc", ch, "descendants")):
        got = r[key]
        want = closure(adj, s)
        if set(got) != want:
            msgs.append(f"{what} of {s}: {sorted(got)} != reachable set {sorted(want)}")
        if len(set(got)) != len(got):
            msgs.append(f"{what} of {s}: a node is listed twice: {got}")
    # every other node as well (read from first principles; the tie compares the start node only)
    for v in range(n):
        if v == s:
            continue
        for adj, what, got in ((pa, "ancestors", [ids(x) for x in nodes[v].ancestors]),
                               (ch, "descendants", [ids(x) for x in nodes[v].descendants])):
            want = closure(adj, v)
            if set(got) != want or len(set(got)) != len(got):
                msgs.append(f"{what} of {v}: {sorted(got)} != reachable set {sorted(want)} (each once)")
    want_sib = {c for p in pa[s] for c in ch[p] if c != s}
    if set(r["sib"]) != want_sib:
        msgs.append(f"siblings of {s}: {sorted(set(r['sib']))} != other children of its parents {sorted(want_sib)}")
    # go_to: all directed paths, each once; refusal iff none
    def paths(x, t):
        if x == t:
            return [[x]]
        return [[x] + rest for c in ch[x] for rest in paths(c, t)]
    for t in range(n):
        want = paths(s, t)
        got = r["go"][t]
        if got is None:
            if want:
                msgs.append(f"go_to {s}->{t} refused although paths exist: {want}")
        elif not want:
            msgs.append(f"go_to {s}->{t} returned {got} although {t} is not reachable")
        elif sorted(got) != sorted(want):
            msgs.append(f"go_to {s}->{t}: {sorted(got)} != all directed paths {sorted(want)}")
    if not msgs and any(g is None for g in r["go"]) and zlib.crc32(case.line.encode()) % 4 == 0:
        # "refuses when there is none" is not one of the optional type/loop checks: the same queries in an interpreter
        # started with BIGTREE_CONF_ASSERTIONS="" must give the same answers and the same refusals
        from props import _twoproc
        off = _twoproc.call("off", "props.C16:worker_impl", d)
        here = impl(case)
        if off != here:
            msgs.append(f"with BIGTREE_CONF_ASSERTIONS switched off the queries answer differently: {off[-160:]} vs {here[-160:]}")
    return msgs


def worker_impl(d):
    """executed in a worker interpreter (props/_twoproc.py): the outcome line of one case"""
    return impl(Case("", d, ()))


# ---------------------------------------------------------------- shrinking
def shrink(case):
    d = case.data
    for nd in U.shrink_dag(d):
        if not U.is_acyclic(nd["n"], nd["edges"]):
            continue
        nd = dict(nd, iter=d["iter"] and U.weakly_connected(nd["n"], nd["edges"]))
        yield Case(_line(nd), nd, case.tags)
    for s in range(d["n"]):
        if s < d["start"]:
            nd = dict(d, start=s)
            yield Case(_line(nd), nd, case.tags)


NOT_READY = False
LEVEL_TEXT = ("proof: all clauses are Lean theorems about the executable model of dag_iterator / ancestors / descendants / "
              "siblings / go_to (BigtreeModel/Dag.lean), for every well-formed DAG (links symmetric, duplicate-free, acyclic) "
              "of any size and every start / target node; the model is tied to the code by the correspondence check. "
              "Bridge theorems DagBridge.* connect C10's statement-level store of DAGNode (parents/children lists, setters, "
              "deleters, constructor, hooks, roll-back) with these graphs: the graph read off the store (toDag: same lists, same "
              "order) is well-formed in every state reachable by any history of calls (reachable_wf, from C10.dwf_run; "
              "toDag_wf_iff: the store invariant is exactly graph well-formedness), so the C16 theorems hold there, stated on the "
              "store's own lists (dag_iter_edges_reachable, dag_iter_mem_reachable, ancestors_reachable - which also shows that the "
              "ancestors list specified here is the very list the setters' loop check consults -, descendants_reachable, "
              "siblings_store, go_to_reachable, and export_reachable for C17); and every call has its documented effect on the "
              "edge list of the graph (assign_edges: nothing removed or reordered, accepted = old edges + the missing requested "
              "ones; setChildren_edges_exact / setParents_edges_exact: list-exact position; delete_edges: exactly the named edges "
              "filtered out, order kept; rejected_edges: unchanged; step_refines / run_refines: over whole histories the final "
              "edge list is the replay, on edge lists alone, of the documented effects of the accepted calls). The bridge itself is "
              "tied to the code by C10's check: dag_iterator of the final state of a history vs Dag.dagIter of the graph read off "
              "the model's final store")
LEVEL_NOTE = ("dag_iter_edges: the yielded pairs are a permutation of the edge list (every edge exactly once, parent->child) "
              "whenever every node is weakly connected to the start node; dag_iter_mem gives the general form (exactly the edges "
              "of the start node's component); fuel_suffices: the fuel-bounded recursion equals the unbounded one. "
              "ancestors/descendants = reachability + Nodup; siblings as a set (the tuple bigtree returns repeats a sibling "
              "once per shared parent; the property does not ask for 'once' there); go_to = exactly the directed paths, "
              "each once, refusal iff target unreachable. Nothing is partial. Rests on the tie: that the Python functions "
              "behave as the model (visited set keyed by name, adjacency-list order), and that the DAGNode setters behave as "
              "C10's store model (C10's own tie); that DAGs built through the setters are well-formed is proved "
              "(DagBridge.reachable_wf), not assumed")
TECHNIQUE = ("Lean 4 proof over an executable fuel-bounded DFS model (order-independent invariant 'out = edges touching "
             "visited', neighbour-closure of the final visited set, pigeonhole bound for path length from acyclicity) + "
             "differential correspondence check against real bigtree (exhaustive DAGs <=4 nodes x construction orders, random "
             "DAGs to 10 nodes with up to 4 parents) + model-free graph-theoretic oracle (BFS reachability, DFS path enumeration)")
RULE = RULE + ' Fifth session: one-off deep probe (spine of 300, neighbours sharing a child); go_to answers evaluated after all calls; one scratch list of the caller re-used for every parents / children assignment; dag_iterator consumed while another traversal is alive.'
