"""C07 — operations that return a result never alter or alias the tree they read."""
from __future__ import annotations
import contextlib, copy as _copy, io, itertools, random, zlib
import core
from core import hx
from runner import Case

THEOREMS = ["C07.copy_fresh", "C07.sep_step", "C07.sep_run", "C07.no_alias_after_copy", "C07.clone_frame",
            "C07.prune_frame", "C07.get_subtree_frame", "C07.mixed_history_frame", "C07.mixed_history_after_copy",
            "C07.copyWorld_ok", "C07.no_alias_with_growth", "C07.mixed_growth_frame", "C07.growth_step_frame",
            "C07Dag.dag_copy_fresh", "C07Dag.dag_no_alias_after_copy", "C07Dag.dag_no_alias_original_mutated",
            "C07Dag.dag_mixed_history"]
PROOF_IMPORTS = ["BigtreeProofs.Properties.C07", "BigtreeProofs.Properties.C07Dag"]
RULE = ("for every monitored function (7 exporters incl. tree_to_dot and tree_to_mermaid, print/hprint/yield/hyield_tree, Node.show/hshow, 6 iterators, "
        "inorder_iter on BinaryNode trees, 14 search functions, clone_tree, node.copy(), copy.deepcopy, get_subtree, prune_tree, get_tree_diff on either argument, "
        "copy_nodes_from_tree_to_tree and copy_and_replace_nodes_from_tree_to_tree on the source tree; by the model-free oracle only also "
        "dag_iterator, the four DAG exporters and DAGNode.copy()/deepcopy on random DAGs of 2-8 nodes): a Node tree (all shapes "
        "<=4 nodes for the modelled copy functions, random shapes up to 25 nodes, depth<=10, fan-out<=8, repeated and "
        "suffix-related names, int/str/None/bool attributes), a start node (root or inner), random options, then a "
        "history of 1-10 mutations (re-parent, detach, del children, set attribute, rename, attach a brand-new node - which later "
        "operations may address) interleaved on the input and on the returned tree; every function also on 1- and 2-node trees "
        "with growth on both sides; oracle-only streams: the copying functions on BinaryNode trees (clone_tree to BinaryNode compared slot-exactly; right-only "
        "children reproduce known finding K5, clause clone_binary_left_compaction), and a fault stream in which "
        "a node carries an attribute value whose __deepcopy__ raises (the input must be intact whether or not the call raises). Compared with the Model-A store: every cell (parent, ordered children, name, public "
        "attributes) of the input and of the returned component after the history, cross links shown explicitly. "
        "A case is non-trivial when the tree has >=3 nodes and the history has an operation; distinct = distinct lines")
EXHAUSTIVE = {"quick": "node.copy(), clone_tree, get_subtree from every start node and prune_tree(max_depth) from the root, on every ordered shape with <=4 nodes (options and histories random)",
              "thorough": "node.copy(), clone_tree, get_subtree from every start node and prune_tree(max_depth) from the root, on every ordered shape with <=5 nodes (options and histories random)"}
MODELLED = ["Python objects are store ids; copy.deepcopy copies the whole component reachable through parent and children (modelled as a mirror image of the store at fresh ids)",
            "the pure readers (exporters, printers, iterators, searches, get_tree_diff, the source side of copy_*_from_tree_to_tree) are the identity on the store: that they do not mutate is NOT proved, it is what this monitor checks on every case",
            "generators are driven to exhaustion; printing goes to a captured stdout",
            "private attributes (names starting with '_', e.g. the `_sep` that get_tree_diff writes on other_tree) are not part of the signature"]
ASSUMPTIONS = ["attribute VALUES are outside the structural model: clone_tree passes them on by reference (a mutable attribute object is shared between clone and original); the monitor uses immutable values",
               "copy.copy(node) (documented shallow copy) and tree_to_pillow (needs a font download) are out of scope (DESIGN section 5)",
               "user callbacks passed to the functions (filters, conditions, attribute callables) are pure",
               "histories mutate one side at a time; an operation never links a node of the result to a node of the input"]

ALPHA = ["a", "b", "ab", "ba", "bc", "c", "a b", "b.c", "x+", "d"]

# (api name, model kind)
READERS = ["tree_to_dict", "tree_to_nested_dict", "tree_to_dataframe", "tree_to_polars", "tree_to_dot", "tree_to_mermaid",
           "tree_to_newick", "print_tree", "print_tree_sub", "hprint_tree", "yield_tree", "hyield_tree", "show", "hshow",
           "preorder_iter", "postorder_iter", "levelorder_iter", "levelordergroup_iter", "zigzag_iter", "zigzaggroup_iter",
           "findall", "find", "find_name", "find_names", "find_relative_path", "find_relative_paths", "find_full_path",
           "find_path", "find_paths", "find_attr", "find_attrs", "find_children", "find_child", "find_child_by_name",
           "get_tree_diff_1", "get_tree_diff_2", "copy_nodes_from_tree_to_tree", "copy_and_replace_nodes_from_tree_to_tree"]
REFUSED = __import__("collections").Counter()   # readers that refused their arguments (diagnostics only)
KIND = {r: "reader" for r in READERS}
DAG_FNS = ["dag_iterator", "dag_to_list", "dag_to_dict", "dag_to_dataframe", "dag_to_dot", "dag_copy", "dag_deepcopy"]
KIND.update({f: "dag" for f in DAG_FNS})
KIND["inorder_iter"] = "reader"
KIND.update({"copy": "copy", "deepcopy": "copy", "clone_tree": "clone", "get_subtree": "subtree", "prune_tree": "prune"})


# ---------------------------------------------------------------- specs
def rand_attrs(rng):
    a = {}
    if rng.random() < 0.5:
        a["age"] = rng.choice([1, 2, 35])
    if rng.random() < 0.25:
        a["tag"] = rng.choice(["t", "a b", "", None])
    if rng.random() < 0.1:
        a["flag"] = rng.choice([True, False])
    return dict(sorted(a.items()))


def label(shape, rng):
    def go(s, nm):
        pool = list(ALPHA)
        rng.shuffle(pool)
        kids = []
        for k, c in enumerate(s):
            cn = pool[k] if k < len(pool) else pool[k % len(pool)] + str(k)
            kids.append(go(c, cn))
        return (nm, rand_attrs(rng), kids)
    return go(shape, rng.choice(["r", "a", "ab"]))


def number(spec):
    out = []
    def go(s, parent, names):
        i = len(out)
        nm = names + [s[0]]
        out.append((i, parent, nm, s))
        for k in s[2]:
            go(k, i, nm)
    go(spec, None, [])
    return out


def sub_indices(nodes, i):
    out = [i]
    for j in range(i + 1, len(nodes)):
        if nodes[j][1] in out:
            out.append(j)
        else:
            break
    return out


def rand_hist(rng, n, sides=("o", "r"), k=None):
    k = k if k is not None else rng.randint(1, 10)
    ops = []
    for _ in range(k):
        side = rng.choice(sides)
        kind = rng.choice(["P", "P", "P", "D", "X", "A", "A", "N", "G", "G"])
        v = rng.randrange(max(n, 1))
        if kind == "P":
            ops.append([side, "P", v, rng.randrange(max(n, 1))])
        elif kind in ("D", "X"):
            ops.append([side, kind, v])
        elif kind == "A":
            ops.append([side, "A", v, rng.choice(["age", "tag", "z"]), rng.choice([1, 7, None, "s", "", True])])
        elif kind == "G":
            # attach a brand-new node; indices may also address nodes grown earlier (pool grows at its end)
            ops.append([side, "G", rng.randrange(max(n, 1) + 2), rng.choice(ALPHA + ["q", "new"])])
        else:
            ops.append([side, "N", v, rng.choice(ALPHA + ["q"])])
    return ops


def enc_hist(ops):
    out = []
    for op in ops:
        if op[1] == "A":
            out.append(".".join([op[0], "A", str(op[2]), hx(op[3]), core.enc_val(op[4])]))
        elif op[1] in ("N", "G"):
            out.append(".".join([op[0], op[1], str(op[2]), hx(op[3])]))
        else:
            out.append(".".join(str(x) for x in op))
    return ";".join(out) if out else "-"


def _line(d):
    kind = KIND[d["fn"]]
    o = d["opts"]
    if o.get("fault") is not None or (o.get("binary") and kind != "reader"):
        return (f"fn=oracle name={d['fn']} start={d['start']} fault={o.get('fault')} binary={1 if o.get('binary') else 0} "
                f"hist={enc_hist(d['hist'])} T " + core.enc_tree(d["spec"]))
    if kind == "dag":
        return f"fn=dag name={d['fn']} start={d['start']} n={o['n']} edges={';'.join('%d>%d' % tuple(e) for e in o['edges']) or '-'} hist={enc_hist(d['hist'])}"
    head = f"fn={kind} name={d['fn']} start={d['start']} tsep={hx(d['tsep'])}"
    if kind == "subtree":
        head += f" q={hx(o['q'])} md={o['md']}"
    elif kind == "prune":
        ps = ",".join(hx(p) for p in o["paths"]) if o["paths"] else "-"
        head += f" paths={ps} exact={1 if o['exact'] else 0} sep={hx(o['sep'])} md={o['md']}"
    return head + f" hist={enc_hist(d['hist'])} T " + core.enc_tree(d["spec"])


def mk(fn, spec, start, tsep, opts, hist, tags=()):
    d = {"fn": fn, "spec": spec, "start": start, "tsep": tsep, "opts": opts, "hist": hist}
    return Case(_line(d), d, tuple(tags) + (fn, KIND[fn]))


def rehydrate(case):
    return Case(case.line, case.data)


# ---------------------------------------------------------------- option generators
def path_of(nodes, i, tsep, form, rng):
    names = nodes[i][2]
    if form == "full":
        return tsep + tsep.join(names)
    if form == "partial":
        k = rng.randint(1, len(names))
        return tsep.join(names[-k:])
    return names[-1]


def unique_in(nodes, scope, tsep, q, i):
    qq = q.rstrip(tsep)
    return [j for j in scope if (tsep + tsep.join(nodes[j][2])).endswith(qq)] == [i]


def opts_for(fn, rng, spec, start, tsep):
    nodes = number(spec)
    n = len(nodes)
    scope = sub_indices(nodes, start)
    o = {}
    if fn == "get_subtree":
        tgt = rng.choice(scope)
        q = ""
        if rng.random() < 0.85:
            for _ in range(5):
                q = path_of(nodes, tgt, tsep, rng.choice(["full", "partial", "name"]), rng)
                if unique_in(nodes, scope, tsep, q, tgt):
                    break
            else:
                q = path_of(nodes, tgt, tsep, "full", rng)
            if rng.random() < 0.08:
                q = "zz"
        o = {"q": q, "md": rng.choice([0, 0, 1, 2, 3])}
    elif fn == "prune_tree":
        k = rng.choice([0, 1, 1, 2])
        cand = [j for j in scope if j != start]
        rng.shuffle(cand)
        tg = []
        def anc(j):
            out = []
            p = nodes[j][1]
            while p is not None:
                out.append(p); p = nodes[p][1]
            return out
        for c in cand:
            if len(tg) >= k:
                break
            if all(c not in anc(t) and t not in anc(c) for t in tg):
                tg.append(c)
        paths = []
        for t in tg:
            q = path_of(nodes, t, tsep, rng.choice(["full", "full", "partial", "name"]), rng)
            if not unique_in(nodes, scope, tsep, q, t):
                q = path_of(nodes, t, tsep, "full", rng)
            paths.append(q)
        if paths and rng.random() < 0.06:
            paths.append("zz")
        md = rng.choice([0, 0, 1, 2, 3])
        if not paths and md == 0 and rng.random() < 0.8:
            md = 2
        o = {"paths": paths, "exact": rng.random() < 0.5, "sep": tsep, "md": md}
    else:
        tgt = rng.choice(scope)
        o = {"md": rng.choice([0, 0, 0, 2, 3]), "name": nodes[tgt][2][-1] if rng.random() < 0.8 else "zz",
             "path": tsep + tsep.join(nodes[tgt][2]) if rng.random() < 0.8 else tsep + "zz",
             "partial": tsep.join(nodes[tgt][2][-2:]), "age": rng.choice([1, 2, 35]),
             "rel": rng.choice(["..", ".", "*", "../*", "../..", "*/*", "./" + nodes[tgt][2][-1]]),
             "filt": [i for i in range(n) if rng.random() < 0.6], "stop": [i for i in range(n) if rng.random() < 0.15],
             "style": rng.choice(["const", "ansi", "ascii", "rounded"]),
             "flags": rng.choice([{}, {"overriding": True}, {"merge_children": True}, {"delete_children": True}, {"merge_leaves": True}]),
             "only_diff": rng.random() < 0.5, "attr_list": rng.choice([[], ["age"], ["age", "tag"]]),
             "src": 0 if (n == 1 or rng.random() < 0.2) else rng.randrange(1, n),
             "seed": rng.randrange(1 << 30)}
    return o


# ---------------------------------------------------------------- generator
def gen(rng: random.Random, tier: str):
    cases = []
    # corpus: aliasing shows only after a later mutation; one case per modelled function on a fixed tree
    t = ("r", {"age": 1}, [("a", {}, [("x", {"age": 2}, []), ("y", {}, [("z", {}, [])])]), ("b", {"tag": "t"}, []), ("c", {}, [])])
    h = [["r", "X", 0], ["o", "D", 1], ["r", "A", 1, "age", 7], ["o", "N", 2, "q"], ["r", "P", 2, 0], ["o", "P", 5, 1], ["o", "X", 0]]
    cases.append(mk("copy", t, 0, "/", {}, h, ("corpus",)))
    cases.append(mk("copy", t, 3, "/", {}, h, ("corpus",)))
    cases.append(mk("deepcopy", t, 1, "/", {}, h, ("corpus",)))
    cases.append(mk("clone_tree", t, 3, "/", {}, h, ("corpus",)))
    cases.append(mk("get_subtree", t, 0, "/", {"q": "a", "md": 2}, h, ("corpus",)))
    cases.append(mk("prune_tree", t, 0, "/", {"paths": ["a/y", "b"], "exact": True, "sep": "/", "md": 0}, h, ("corpus",)))
    cases.append(mk("prune_tree", t, 0, "/", {"paths": [], "exact": False, "sep": "/", "md": 2}, h, ("corpus",)))

    # deep trees: a chain of 105-150 levels with a few side leaves (library code that switches strategy on deep
    # or large inputs - recursion limits, bulk paths - shows only there); then something is attached below what was a
    # leaf at copy time, on either side (pre-order index of the deepest leaf = depth - 1 + number of side leaves above)
    for k, fn in enumerate(("copy", "deepcopy", "copy", "clone_tree")):
        depth = [105, 120, 150, 110][k]
        def chain(i):
            kids = [] if i == depth - 1 else ([("s%d" % i, {}, [])] if i % 40 == 7 else []) + [chain(i + 1)]
            return ("c%d" % i, {"age": i} if i % 9 == 0 else {}, kids)
        spec = chain(0)
        n = core.spec_size(spec)
        leaf = n - 1
        h = [["r", "G", leaf, "below_r"], ["o", "G", leaf, "below_o"], ["r", "G", 8, "side_r"], ["o", "A", leaf, "age", 7]]
        cases.append(mk(fn, spec, 0, "/", {}, h, ("corpus", "deep")))

    # small-scope: every shape x every start node for the modelled functions
    nmax = 4 if tier == "quick" else 5
    for shape in core.all_shapes_upto(nmax):
        spec = label(shape, rng)
        n = core.shape_size(shape)
        for start in range(n):
            for fn in ("copy", "clone_tree", "get_subtree", "prune_tree"):
                o = opts_for(fn, rng, spec, start, "/")
                if fn == "prune_tree":
                    o = {"paths": [], "exact": False, "sep": "/", "md": rng.choice([1, 2, 3])}
                    if start != 0:
                        continue
                cases.append(mk(fn, spec, start, "/", o, rand_hist(rng, n), ("enum",)))

    # random: modelled functions
    nm = 250 if tier == "quick" else 2500
    for fn in ("copy", "deepcopy", "clone_tree", "get_subtree", "prune_tree"):
        for _ in range(nm):
            size = rng.randint(1, 8) if rng.random() < 0.6 else rng.randint(9, 25)
            spec = label(core.random_shape(rng, size), rng)
            tsep = rng.choice(["/", "/", "/", ".", "|"]) if fn in ("get_subtree", "prune_tree") else "/"
            if tsep != "/":
                spec = relabel_without(spec, tsep)
            start = 0 if (fn == "prune_tree" or rng.random() < 0.6) else rng.randrange(size)
            cases.append(mk(fn, spec, start, tsep, opts_for(fn, rng, spec, start, tsep), rand_hist(rng, size),
                            ("random", "start=root" if start == 0 else "start=inner")))
    # random: pure readers (model = identity on the input)
    nr = 14 if tier == "quick" else 140
    for fn in READERS:
        for _ in range(nr):
            size = rng.randint(1, 8) if rng.random() < 0.6 else rng.randint(9, 25)
            spec = label(core.random_shape(rng, size), rng)
            start = 0 if (fn.startswith(("get_tree_diff", "copy_")) or rng.random() < 0.6) else rng.randrange(size)
            cases.append(mk(fn, spec, start, "/", opts_for(fn, rng, spec, start, "/"), rand_hist(rng, size),
                            ("random", "start=root" if start == 0 else "start=inner")))
    # every monitored function on 1- and 2-node trees, with histories that ATTACH fresh nodes on both sides
    # (a copy that shares a child list with its original shows only when one side grows)
    allfns = ["copy", "deepcopy", "clone_tree", "get_subtree", "prune_tree"] + READERS
    for fn in allfns:
        for size in (1, 2):
            for rep in range(2 if tier == "quick" else 12):
                spec = label([] if size == 1 else [[]], rng)
                start = 0 if (size == 1 or fn.startswith(("get_tree_diff", "copy_", "prune")) or rng.random() < 0.5) else 1
                o = opts_for(fn, rng, spec, start, "/")
                if fn == "prune_tree":
                    o = {"paths": [], "exact": False, "sep": "/", "md": rng.choice([1, 2, 10])}
                if fn == "get_subtree" and rep % 2 == 0:
                    o = {"q": "", "md": rng.choice([0, 0, 3])}
                if "src" in o:
                    o["src"] = 0 if rep % 2 == 0 else size - 1
                g = [["r", "G", rng.randrange(size), "new"], ["o", "G", rng.randrange(size), "new"]]
                rng.shuffle(g)
                cases.append(mk(fn, spec, start, "/", o, g + rand_hist(rng, size + 1, k=rng.randint(0, 4)), ("small", "n=%d" % size)))
    # oracle-only: the copying functions on BinaryNode trees (slot semantics are not in the store model)
    for fn in ("copy", "deepcopy", "get_subtree", "prune_tree"):
        for _ in range(nr):
            size = rng.choice([1, 1, 2, 2, 3, 5, 9])
            spec = label(bshape(rng, size), rng)
            start = 0 if (fn == "prune_tree" or rng.random() < 0.6) else rng.randrange(size)
            o = {"binary": True}
            if fn == "prune_tree":
                o.update({"paths": [], "exact": False, "sep": "/", "md": rng.choice([1, 2, 10])})
            if fn == "get_subtree":
                o.update({"q": "", "md": rng.choice([0, 0, 2])})
            g = [["r", "G", rng.randrange(size), "77"], ["o", "G", rng.randrange(size), "78"]]
            rng.shuffle(g)
            cases.append(mk(fn, spec, start, "/", o, g + rand_hist(rng, size, k=rng.randint(0, 4)), ("binary", "oracle-only")))
    # oracle-only: clone_tree(BinaryNode tree, BinaryNode), slot-exact; right-only children hit known finding K5
    for _ in range(2 * nr):
        size = rng.choice([1, 2, 2, 3, 4, 6, 9])
        shape = bshape(rng, size)
        spec = label(shape, rng)
        nodes = number(spec)
        singles = [i for i, _p, _n, sp in nodes if len(sp[2]) == 1]
        right = [i for i in singles if rng.random() < 0.5]
        start = 0 if rng.random() < 0.6 else rng.randrange(size)
        g = [["r", "A", rng.randrange(size), "age", 7], ["o", "N", rng.randrange(size), "q"]]
        cases.append(mk("clone_tree", spec, start, "/", {"binary": True, "right": right}, g + rand_hist(rng, size, k=rng.randint(0, 3)),
                        ("binary", "clone-binary", "oracle-only", "right-only" if right else "no-right-only")))
    # oracle-only fault stream: some node carries an attribute value whose __deepcopy__ raises; whether or not the
    # call raises, the input must be left exactly as it was
    for fn in allfns:
        for _ in range(max(4, nr // 2)):
            size = rng.randint(1, 9)
            spec = label(core.random_shape(rng, size), rng)
            start = 0 if (fn.startswith(("get_tree_diff", "copy_", "prune")) or rng.random() < 0.6) else rng.randrange(size)
            o = opts_for(fn, rng, spec, start, "/")
            nodes = number(spec)
            if "src" in o and rng.random() < 0.75:
                o["fault"] = rng.choice(sub_indices(nodes, o["src"]))
            else:
                o["fault"] = rng.choice(sub_indices(nodes, start)) if rng.random() < 0.7 else rng.randrange(size)
            cases.append(mk(fn, spec, start, "/", o, rand_hist(rng, size, k=rng.randint(0, 3)), ("fault", "oracle-only")))
    # inorder_iter needs a BinaryNode tree; the follow-up history only changes attributes / names
    for _ in range(nr):
        size = rng.randint(1, 12)
        spec = label(bshape(rng, size), rng)
        start = 0 if rng.random() < 0.6 else rng.randrange(size)
        hist = [op for op in rand_hist(rng, size, sides=("o",)) if op[1] in ("A", "N")]
        cases.append(mk("inorder_iter", spec, start, "/", dict(opts_for("inorder_iter", rng, spec, start, "/"), binary=True), hist, ("random", "binary")))
    # DAG functions: monitored by the model-free oracle only
    for fn in DAG_FNS:
        for _ in range(nr):
            n = rng.randint(2, 8)
            edges = []
            shape = rng.random()
            if shape < 0.25:
                # zig-zag a -> c <- b -> x <- z ...: several roots, the component is only found by alternating
                # between parents and children (a copy that walks "descendants of the ancestors" once misses part of it)
                n = rng.randint(4, 9)
                order = list(range(n)); rng.shuffle(order)
                for i in range(n - 1):
                    a, b = order[i], order[i + 1]
                    edges.append([a, b] if i % 2 == 0 else [b, a])
                for _ in range(rng.choice([0, 0, 1, 2])):
                    a, b = rng.sample(order, 2)
                    lo, hi = (a, b) if order.index(a) % 2 == 0 else (b, a)
                    if order.index(lo) % 2 == 0 and order.index(hi) % 2 == 1 and [lo, hi] not in edges:
                        edges.append([lo, hi])
            else:
                for c in range(1, n):
                    # some nodes start without a parent among the earlier ones (several roots); they are tied to the
                    # rest through later children
                    k = rng.choice([0, 1, 1, 2, 3]) if shape < 0.7 else rng.choice([1, 1, 2, 3])
                    ps = rng.sample(range(c), min(c, k))
                    edges += [[p, c] for p in sorted(ps)]
            o = {"n": n, "edges": edges, "attrs": [rand_attrs(rng) for _ in range(n)]}
            cases.append(mk(fn, ("d", {}, []), rng.randrange(n), "/", o, rand_hist(rng, n, sides=("r",), k=rng.randint(1, 5)), ("random", "dag", "oracle-only")))
    return cases


def bshape(rng, size):
    kids = [[] for _ in range(size)]
    for v in range(1, size):
        cands = [u for u in range(v) if len(kids[u]) < 2]
        kids[rng.choice(cands[-3:])].append(v)
    def b(u):
        return [b(c) for c in kids[u]]
    return b(0)


def relabel_without(spec, tsep):
    def go(s):
        nm = "".join(ch if ch not in tsep else "_" for ch in s[0])
        return (nm, s[1], [go(k) for k in s[2]])
    return go(spec)


def nontrivial(case):
    d = case.data
    return len(number(d["spec"])) >= 3 and len(d["hist"]) >= 1


# ---------------------------------------------------------------- real side
def build_binary(spec, fault=None, right=()):
    """`right`: pre-order indices of the nodes whose ONLY child sits in the right slot"""
    from bigtree import BinaryNode
    nodes = []
    def go(s):
        extra = {"resource": Uncopyable()} if (fault is not None and len(nodes) == fault) else {}
        i = len(nodes)
        n = BinaryNode(s[0], uid=i, **s[1], **extra)
        nodes.append(n)
        kids = [go(k) for k in s[2]]
        n.children = [None, kids[0]] if (len(kids) == 1 and i in right) else (kids + [None, None])[:2]
        return n
    return go(spec), nodes


def build_dag(o):
    from bigtree import DAGNode
    nodes = [DAGNode("n%d" % i, uid=i, **o["attrs"][i]) for i in range(o["n"])]
    for p, c in o["edges"]:
        nodes[c].parents = list(nodes[c].parents) + [nodes[p]]
    return nodes


class Uncopyable:
    """attribute value whose deep copy fails (a lock, an open file, ... behave the same)"""
    def __deepcopy__(self, memo):
        raise RuntimeError("this resource must not be copied")

    def __repr__(self):
        return "<uncopyable>"


_FROZEN = [None]      # the root of the tree that is being read right now
_FROZEN_CLS = []


def frozen_class():
    """Node subclass after docs/others/nodes.md (ReadOnlyNode): while a monitored function runs, every pre-assign hook of
    a node of the INPUT tree raises - a reader that takes the input apart for a moment and puts it together again through
    the public setters is refused half-way and leaves the input altered.  Copies are not frozen (their root differs)."""
    if not _FROZEN_CLS:
        from bigtree import Node

        def _refuse(self, other):
            fr = _FROZEN[0]
            if fr is None:
                return
            for x in [self] + (list(other) if isinstance(other, (list, tuple)) else [other]):
                if x is not None and hasattr(x, "root") and x.root is fr:
                    raise RuntimeError("the tree is frozen while it is being read")

        class FrozenNode(Node):
            def _Node__pre_assign_parent(self, new_parent):
                _refuse(self, new_parent)

            def _Node__pre_assign_children(self, new_children):
                _refuse(self, new_children)

        _FROZEN_CLS.append(FrozenNode)
    return _FROZEN_CLS[0]


def build(spec, tsep="/", uid=True, fault=None):
    Node = frozen_class()
    nodes = []
    def go(s, parent):
        kw = dict(s[1])
        if uid:
            kw["uid"] = len(nodes)
            if len(nodes) % 3 == 2:
                kw["box"] = ("v1", ["created"])      # an immutable value that HOLDS a mutable one (see `sig`)
            # one attribute name with values of different kinds over the tree: a scalar on the first node, lists further down
            kw["bag"] = None if not nodes else (["v%d" % len(nodes)] if len(nodes) % 2 else 0)
        if fault is not None and len(nodes) == fault:
            kw["resource"] = Uncopyable()
        n = Node(s[0], sep=tsep, **kw) if parent is None else Node(s[0], **kw)
        nodes.append(n)
        if parent is not None:
            n.parent = parent
        for k in s[2]:
            go(k, n)
        return n
    return go(spec, None), nodes


def preorder(n):
    out = [n]
    for c in n.children:
        if c is not None:
            out += preorder(c)
    return out


def edited(spec, seed):
    """a deterministic variant of spec (for get_tree_diff's other argument)"""
    rng = random.Random(seed)
    def go(s, depth):
        kids = [go(k, depth + 1) for k in s[2] if not (depth >= 1 and rng.random() < 0.2)]
        if rng.random() < 0.3:
            nm = rng.choice(["n1", "n2", "b", "bc"])
            if all(k[0] != nm for k in kids):
                kids.append((nm, {}, []))
        a = dict(s[1])
        if rng.random() < 0.3:
            a["age"] = rng.choice([1, 2, 3])
        return (s[0], a, kids)
    return go(spec, 0)


def call(d, root, nodes):
    """run the monitored function; returns (returned node or None, list of 'result side' nodes that are not ours)"""
    _FROZEN[0] = root if isinstance(root, frozen_class()) else None
    try:
        return _call(d, root, nodes)
    finally:
        _FROZEN[0] = None


def _call(d, root, nodes):
    import bigtree
    from bigtree import Node
    fn, o = d["fn"], d["opts"]
    start = nodes[d["start"]]
    ids = {id(n): i for i, n in enumerate(nodes)}
    kind = KIND[fn]
    if kind == "copy":
        res = start.copy() if fn == "copy" else _copy.deepcopy(start)
        return res, None
    if kind == "clone":
        return bigtree.clone_tree(start, bigtree.BinaryNode if o.get("binary") else Node), None
    if kind == "subtree":
        return bigtree.get_subtree(start, o["q"], max_depth=o["md"]), None
    if kind == "prune":
        return bigtree.prune_tree(start, list(o["paths"]), exact=o["exact"], sep=o["sep"], max_depth=o["md"]), None
    # ---- pure readers
    filt = lambda n: ids.get(id(n)) in set(o["filt"])
    stop = lambda n: ids.get(id(n)) in set(o["stop"])
    md = o["md"]
    out = io.StringIO()
    other = None
    with contextlib.redirect_stdout(out):
        try:
            if fn == "tree_to_dict":
                bigtree.tree_to_dict(start, all_attrs=True, max_depth=md, parent_key="p")
            elif fn == "tree_to_nested_dict":
                bigtree.tree_to_nested_dict(start, all_attrs=True)
            elif fn == "tree_to_dataframe":
                bigtree.tree_to_dataframe(start, all_attrs=True, max_depth=md, parent_col="p")
            elif fn == "tree_to_polars":
                bigtree.tree_to_polars(start, attr_dict={"age": "age"}, max_depth=md)
            elif fn == "tree_to_dot":
                if zlib.crc32(repr((d["spec"], d["start"])).encode()) % 2:
                    bigtree.tree_to_dot(start, node_attr=lambda n: {"shape": "box"}, edge_attr=lambda n: {"style": "bold"}).to_string()
                else:
                    # styles read from node ATTRIBUTES (dictionaries the tree owns) together with graph-wide defaults of the
                    # same family: the export must not write the defaults into the tree's own dictionaries
                    for i, n in enumerate(nodes):
                        if i % 3 != 1:
                            n.set_attrs({"dstyle": {"shape": "box"}, "estyle": {"label": "e%d" % i}})
                    try:
                        # ... given as one tree or as a LIST of trees (the list form is not copied as a whole)
                        arg = [start] if (zlib.crc32(repr((d["spec"], d["start"])).encode()) // 2) % 2 else start
                        bigtree.tree_to_dot(arg, node_attr="dstyle", edge_attr="estyle", node_colour="gold", node_shape="circle",
                                            edge_colour="blue").to_string()
                    finally:
                        for i, n in enumerate(nodes):
                            want = ({"shape": "box"}, {"label": "e%d" % i}) if i % 3 != 1 else (None, None)
                            if (n.__dict__.get("dstyle"), n.__dict__.get("estyle")) == want:
                                n.__dict__.pop("dstyle", None)       # untouched: take the decoration off again
                                n.__dict__.pop("estyle", None)       # (a changed dictionary stays and shows as an altered input)
            elif fn == "tree_to_mermaid":
                bigtree.tree_to_mermaid(start, max_depth=md, node_attr=lambda n: "")
            elif fn == "tree_to_newick":
                bigtree.tree_to_newick(start, attr_list=["age"])
            elif fn == "print_tree":
                bigtree.print_tree(start, all_attrs=True, max_depth=md, style=o["style"])
            elif fn == "print_tree_sub":
                bigtree.print_tree(start, node_name_or_path=o["name"], attr_list=["age"])
            elif fn == "hprint_tree":
                bigtree.hprint_tree(start, max_depth=md)
            elif fn == "yield_tree":
                # the nodes yield_tree hands out belong to the copy it renders, never to the input
                # ... and an earlier rendering of the same tree object, made while its attributes had other values, must
                # not come back (a copy remembered per tree object and refreshed only when names or shape change)
                saved = [(n, n.__dict__["age"]) for n in nodes if "age" in n.__dict__]
                for n, a in saved:
                    n.age = ("earlier", a)
                try:
                    list(bigtree.yield_tree(start, max_depth=md, style=o["style"]))
                finally:
                    for n, a in saved:
                        n.age = a
                other = [t[2] for t in list(bigtree.yield_tree(start, max_depth=md, style=o["style"]))]
            elif fn == "hyield_tree":
                list(bigtree.hyield_tree(start, max_depth=md))
            elif fn == "show":
                start.show(all_attrs=True)
            elif fn == "hshow":
                start.hshow()
            elif fn in ("preorder_iter", "postorder_iter", "levelorder_iter", "zigzag_iter"):
                list(getattr(bigtree, fn)(start, filter_condition=filt, stop_condition=stop, max_depth=md))
            elif fn in ("levelordergroup_iter", "zigzaggroup_iter"):
                [list(g) for g in getattr(bigtree, fn)(start, filter_condition=filt, stop_condition=stop, max_depth=md)]
            elif fn == "inorder_iter":
                list(bigtree.inorder_iter(start, filter_condition=filt, max_depth=md))
            elif fn == "findall":
                bigtree.findall(start, filt, max_depth=md)
            elif fn == "find":
                bigtree.find(start, lambda n: n.node_name == o["name"], max_depth=md)
            elif fn == "find_name":
                bigtree.find_name(start, o["name"], max_depth=md)
            elif fn == "find_names":
                list(bigtree.find_names(start, o["name"], max_depth=md))
            elif fn == "find_relative_path":
                bigtree.find_relative_path(start, o["rel"])
            elif fn == "find_relative_paths":
                list(bigtree.find_relative_paths(start, o["rel"]))
            elif fn == "find_full_path":
                bigtree.find_full_path(start, o["path"])
            elif fn == "find_path":
                bigtree.find_path(start, o["partial"])
            elif fn == "find_paths":
                list(bigtree.find_paths(start, o["partial"]))
            elif fn == "find_attr":
                bigtree.find_attr(start, "age", o["age"], max_depth=md)
            elif fn == "find_attrs":
                list(bigtree.find_attrs(start, "age", o["age"], max_depth=md))
            elif fn == "find_children":
                bigtree.find_children(start, filt)
            elif fn == "find_child":
                bigtree.find_child(start, lambda n: n.node_name == o["name"])
            elif fn == "find_child_by_name":
                bigtree.find_child_by_name(start, o["name"])
            elif fn in ("get_tree_diff_1", "get_tree_diff_2"):
                oroot, _ = build(edited(d["spec"], o["seed"]), d["tsep"], uid=False)
                if fn == "get_tree_diff_1":
                    res = bigtree.get_tree_diff(root, oroot, only_diff=o["only_diff"], attr_list=list(o["attr_list"]))
                else:
                    res = bigtree.get_tree_diff(oroot, root, only_diff=o["only_diff"], attr_list=list(o["attr_list"]))
                other = preorder(res) if res is not None else []
            elif fn in ("copy_nodes_from_tree_to_tree", "copy_and_replace_nodes_from_tree_to_tree"):
                dest = Node("dest")
                keep = Node("k", parent=dest)
                Node("k2", parent=keep)
                src = nodes[o["src"]]
                if fn == "copy_nodes_from_tree_to_tree":
                    flags = dict(o["flags"])
                    nm = str(src.name)
                    if flags.get("overriding"):
                        Node(nm, parent=dest)
                        to = "dest/" + nm
                    elif flags.get("merge_children") or flags.get("merge_leaves"):
                        to = "dest/k/" + nm
                    else:
                        to = "dest/new/" + nm
                    bigtree.copy_nodes_from_tree_to_tree(root, dest, [src.path_name], [to], with_full_path=True, **flags)
                    other = preorder(dest)
                else:
                    bigtree.copy_and_replace_nodes_from_tree_to_tree(root, dest, [src.path_name], ["dest/k"], with_full_path=True)
                    other = preorder(dest)
            else:
                raise KeyError(fn)
        except KeyError:
            raise
        except Exception as e:  # a reader may refuse its arguments (SearchError, ...); the input must still be intact
            REFUSED[fn + ":" + type(e).__name__] += 1
            if not (type(e).__module__.startswith("bigtree") or isinstance(e, ValueError)):
                raise
    return None, other


def apply_op(op, onodes, rnodes, wrap):
    side, kind, v = op[0], op[1], op[2]
    pool = onodes if side == "o" else rnodes
    if not pool:
        return
    def pick(k):
        if wrap and side == "r":
            return pool[k % len(pool)]
        return pool[k] if k < len(pool) else None
    n = pick(v)
    if n is None:
        return
    try:
        if kind == "P":
            p = pick(op[3])
            if p is None:
                return
            n.parent = p
        elif kind == "D":
            n.parent = None
        elif kind == "X":
            del n.children
        elif kind == "A":
            n.set_attrs({op[3]: op[4]})
        elif kind == "N":
            n.name = op[3]
        elif kind == "G":
            new = type(n)(op[3], parent=n)   # raises (and creates nothing) when the attachment is refused
            pool.append(new)
    except Exception:
        pass


def pub_attrs(n):
    from bigtree import BinaryNode
    skip = ["name", "uid", "box", "bag"] + (["val"] if isinstance(n, BinaryNode) else [])   # BinaryNode.val mirrors the name
    return dict(n.describe(exclude_attributes=skip, exclude_prefix="_"))


def show_cells(pool, refs):
    if not pool:
        return "-"
    out = []
    for n in pool:
        par = "-" if n.parent is None else refs.get(id(n.parent), "?")
        kids = ",".join(refs.get(id(c), "?") for c in n.children if c is not None) or "-"
        out.append("|".join([par, kids, hx(str(n.name)), core.enc_attrs(dict(sorted(pub_attrs(n).items())))]))
    return ";".join(out)


def run_real(d):
    """returns (error name | None, ret, onodes, rnodes(modelled) , other(unmodelled result side))"""
    from bigtree.utils.exceptions import NotFoundError
    root, nodes = build_binary(d["spec"], right=d["opts"].get("right", ())) if d["opts"].get("binary") else build(d["spec"], d["tsep"])
    try:
        ret, other = call(d, root, nodes)
    except NotFoundError:
        return "NotFoundError", None, nodes, [], None
    except ValueError:
        return "ValueError", None, nodes, [], None
    except Exception as e:
        if type(e).__module__.startswith("bigtree"):
            return "rej", None, nodes, [], None
        raise
    rnodes = preorder(ret.root) if ret is not None else []
    return None, ret, nodes, rnodes, other


def impl(case):
    d = case.data
    if KIND[d["fn"]] == "dag":
        return "ok dag"
    if d["opts"].get("fault") is not None or (d["opts"].get("binary") and KIND[d["fn"]] != "reader"):
        return "ok oracle"
    err, ret, onodes, rnodes, other = run_real(d)
    unmodelled = other is not None
    for op in d["hist"]:
        if err is not None and op[0] == "r":
            continue
        apply_op(op, onodes, other if unmodelled else rnodes, wrap=unmodelled)
    # references are assigned after the history: nodes grown on a side have joined its pool
    refs = {id(n): "o%d" % i for i, n in enumerate(onodes)}
    refs.update({id(n): "r%d" % j for j, n in enumerate(rnodes)})
    if err is not None:
        return f"err:{err} orig={show_cells(onodes, refs)}"
    return f"ok ret={refs[id(ret)] if ret is not None else '-'} orig={show_cells(onodes, refs)} res={show_cells(rnodes, refs)}"


# ---------------------------------------------------------------- oracle (model-free)
def sig(pool):
    return [(id(n), id(n.parent) if n.parent is not None else None, [id(c) if c is not None else None for c in n.children],
             n.name, pub_attrs(n), repr(n.__dict__.get("box")), repr(n.__dict__.get("bag"))) for n in pool]


def dag_sig(pool):
    return [(id(n), [id(p) for p in n.parents], [id(c) for c in n.children], n.name, pub_attrs(n)) for n in pool]


def dag_shape(pool):
    """object-free: per uid the parents' and children's uids in order, name, attrs"""
    return sorted((n.get_attr("uid"), [p.get_attr("uid") for p in n.parents], [c.get_attr("uid") for c in n.children],
                   n.name, sorted(pub_attrs(n).items(), key=str)) for n in pool)


def dag_component(n):
    seen, todo = {}, [n]
    while todo:
        x = todo.pop()
        if id(x) in seen:
            continue
        seen[id(x)] = x
        todo += list(x.parents) + list(x.children)
    return list(seen.values())


def oracle_dag(d):
    import bigtree
    o = d["opts"]
    nodes = build_dag(o)
    start = nodes[d["start"]]
    before = dag_sig(nodes)
    fn = d["fn"]
    msgs = []
    res = None
    try:
        if fn == "dag_iterator":
            list(bigtree.dag_iterator(start))
        elif fn == "dag_to_list":
            bigtree.dag_to_list(start)
        elif fn == "dag_to_dict":
            bigtree.dag_to_dict(start, all_attrs=True)
        elif fn == "dag_to_dataframe":
            bigtree.dag_to_dataframe(start, all_attrs=True)
        elif fn == "dag_to_dot":
            bigtree.dag_to_dot(start).to_string()
        elif fn == "dag_copy":
            res = start.copy()
        elif fn == "dag_deepcopy":
            res = _copy.deepcopy(start)
    except Exception as e:
        if not (type(e).__module__.startswith("bigtree") or isinstance(e, ValueError)):
            raise
    if dag_sig(nodes) != before:
        return [f"{fn}: the input DAG was altered by the call"]
    if res is not None:
        comp = dag_component(res)
        orig = {id(n) for n in nodes}
        if any(id(x) in orig for x in comp):
            msgs.append(f"{fn}: the copy shares node objects with the input")
        if dag_shape(comp) != dag_shape(dag_component(start)) or res.get_attr("uid") != d["start"]:
            msgs.append(f"{fn}: the copy differs from the original component")
        for op in d["hist"]:
            x = comp[op[2] % len(comp)]
            try:
                if op[1] == "P":
                    x.parents = [comp[op[3] % len(comp)]]
                elif op[1] == "D":
                    x.parents = []
                elif op[1] == "X":
                    del x.children
                elif op[1] == "A":
                    x.set_attrs({op[3]: op[4]})
                elif op[1] == "N":
                    x.name = op[3]
            except Exception:
                pass
            if dag_sig(nodes) != before:
                msgs.append(f"{fn}: mutation {op} of the copy changed the input DAG")
                break
        # a second copy of the same DAG, after the first one was edited: fresh again, and equal to the ORIGINAL
        if not msgs:
            res2 = start.copy() if fn == "dag_copy" else _copy.deepcopy(start)
            comp2 = dag_component(res2)
            first = {id(x) for x in comp}
            if any(id(x) in orig or id(x) in first for x in comp2):
                msgs.append(f"{fn}: a second copy shares node objects with the input or with the first copy")
            elif dag_shape(comp2) != dag_shape(dag_component(start)):
                msgs.append(f"{fn}: a second copy differs from the original component")
    return msgs



def shape_sig(n):
    """structure + labels of the subtree below n, object-free"""
    return (n.name, pub_attrs(n), [shape_sig(c) if c is not None else None for c in n.children])


def compacted(sh):
    """the slot-exact shape `sh` with every empty LEFT slot closed up (the pinned behaviour of K5)"""
    kids = [compacted(k) for k in sh[2] if k is not None]
    return (sh[0], sh[1], (kids + [None, None])[:2] if len(sh[2]) == 2 else kids)


def replay_known(entry):
    """does the listed witness still reproduce on the real code"""
    if entry.get("witness", {}).get("clause") != "clone_binary_left_compaction":
        return False
    from bigtree import BinaryNode, clone_tree
    a = BinaryNode(1); b = BinaryNode(2)
    a.children = [None, b]
    c = clone_tree(a, BinaryNode)
    return len(c.children) == 2 and c.children[1] is None and c.children[0] is not None and c.children[0].name == "2"


def is_known(case, msg, entries):
    """K5 only: clone_tree on a BinaryNode source whose clone equals the input up to left-compaction of empty left
    slots (re-computed here on the real code); any other difference stays a violation"""
    if not any(e.get("witness", {}).get("clause") == "clone_binary_left_compaction" for e in entries):
        return False
    d = case.data
    if d["fn"] != "clone_tree" or not d["opts"].get("binary") or "clone_binary_left_compaction" not in msg:
        return False
    import bigtree
    root, nodes = build_binary(d["spec"], d["opts"].get("fault"), d["opts"].get("right", ()))
    try:
        ret = bigtree.clone_tree(nodes[d["start"]], bigtree.BinaryNode)
    except Exception:
        return False
    got, want = shape_sig(ret), shape_sig(root)
    return got != want and got == compacted(want)


def oracle(case):
    d = case.data
    if KIND[d["fn"]] == "dag":
        return oracle_dag(d)
    msgs = []
    fault = d["opts"].get("fault")
    root, nodes = (build_binary(d["spec"], fault, d["opts"].get("right", ())) if d["opts"].get("binary")
                   else build(d["spec"], d["tsep"], fault=fault))
    before = sig(nodes)
    shape0 = shape_sig(root)
    parent_uid = {i: (nodes[i].parent.get_attr("uid") if nodes[i].parent is not None else None) for i in range(len(nodes))}
    child_uids = {i: [c.get_attr("uid") for c in nodes[i].children if c is not None] for i in range(len(nodes))}
    labels = {i: (nodes[i].name, pub_attrs(nodes[i])) for i in range(len(nodes))}
    try:
        ret, other = call(d, root, nodes)
        err = None
    except Exception as e:
        ret, other, err = None, None, e
    if sig(nodes) != before:
        msgs.append(f"{d['fn']}: the input tree was altered by the call")
        return msgs
    if err is not None:
        return msgs
    kind = KIND[d["fn"]]
    rnodes = preorder(ret.root) if ret is not None else (other or [])
    orig_ids = {id(n) for n in nodes}
    if any(id(r) in orig_ids for r in rnodes):
        msgs.append(f"{d['fn']}: the result shares node objects with the input")
    for r in rnodes:
        for x in [r.parent] + list(r.children):
            if x is not None and id(x) in orig_ids:
                msgs.append(f"{d['fn']}: a result node is linked to an input node")
    # equal to the corresponding part
    if kind == "copy":
        if shape_sig(ret.root) != shape0 or ret.get_attr("uid") != d["start"]:
            msgs.append(f"{d['fn']}: the copy differs from the original")
    elif kind == "clone":
        if not ret.is_root:
            msgs.append("clone_tree: the clone is not a root")
        if shape_sig(ret) != shape0:
            if d["opts"].get("binary") and shape_sig(ret) == compacted(shape0) :
                # K5: children are re-attached through `parent=`, which fills the first empty slot
                msgs.append("clone_tree: clone_binary_left_compaction: a right-only child was cloned into the left slot")
            else:
                msgs.append("clone_tree: the clone differs from the original tree")
    elif kind in ("subtree", "prune"):
        if not ret.is_root:
            msgs.append(f"{d['fn']}: the result is not a root")
        for r in preorder(ret):
            u = r.get_attr("uid")
            if not isinstance(u, int) or (r.name, pub_attrs(r)) != labels.get(u):
                msgs.append(f"{d['fn']}: result node {u} does not carry the label of an input node")
                break
            if r is not ret and r.parent.get_attr("uid") != parent_uid[u]:
                msgs.append(f"{d['fn']}: result node {u} hangs under a different parent")
            ku = [c.get_attr("uid") for c in r.children if c is not None]
            if ku != [c for c in child_uids[u] if c in ku]:
                msgs.append(f"{d['fn']}: children of result node {u} are out of order")
    if d["fn"] == "yield_tree":
        for r in rnodes:
            u = r.get_attr("uid")
            if not isinstance(u, int) or (r.name, pub_attrs(r)) != labels.get(u):
                msgs.append(f"yield_tree: the node handed out for input node {u} does not carry its name and attributes: "
                            f"{(r.name, pub_attrs(r))!r} != {labels.get(u)!r}")
                break
    # later changes on one side are not visible on the other
    unmodelled = other is not None
    pool_r = other if unmodelled else rnodes
    for op in d["hist"]:
        so, sr = sig(nodes), sig(pool_r)
        apply_op(op, nodes, pool_r, wrap=unmodelled)
        if op[0] == "r" and sig(nodes) != so:
            msgs.append(f"{d['fn']}: mutation {op} of the result changed the input tree")
            break
        if op[0] == "o" and sig(pool_r) != sr:
            msgs.append(f"{d['fn']}: mutation {op} of the input changed the returned tree")
            break
    if kind != "clone" and not msgs:
        # the functions that COPY (deepcopy) also copy what an attribute value holds: a list inside a tuple is changed in
        # place on one side (clone_tree passes attribute values on by reference, as documented: not asked of it)
        for mine, theirs, what in ((pool_r, nodes, "result"), (nodes, pool_r, "input")):
            st = sig(theirs)
            for n in mine:
                b = n.__dict__.get("box")
                if isinstance(b, tuple):
                    b[1].append(what)
                g = n.__dict__.get("bag")
                if isinstance(g, list):
                    g.append(what)
            if sig(theirs) != st:
                msgs.append(f"{d['fn']}: an in-place change of a list held by an attribute of the {what} shows on the other side")
                break
    return msgs


# ---------------------------------------------------------------- shrinking
def shrink(case):
    d = case.data
    h = d["hist"]
    for k in range(len(h)):
        yield mk(d["fn"], d["spec"], d["start"], d["tsep"], d["opts"], h[:k] + h[k + 1:], ())
    nodes = number(d["spec"])
    if KIND[d["fn"]] in ("subtree", "prune", "dag") or d["opts"].get("binary") or d["opts"].get("fault") is not None:
        return
    for idx in range(len(nodes) - 1, 0, -1):
        if nodes[idx][3][2] or idx == d["start"] or idx == d["opts"].get("src"):
            continue
        ctr = itertools.count()
        def go(s):
            i = next(ctr)
            kids = [r for r in (go(k) for k in s[2]) if r is not None]
            return None if i == idx else (s[0], s[1], kids)
        o = dict(d["opts"])
        ren = lambda x: x - 1 if x > idx else x
        if "filt" in o:
            o["filt"] = [ren(x) for x in o["filt"] if x != idx]
            o["stop"] = [ren(x) for x in o["stop"] if x != idx]
        if "src" in o:
            o["src"] = ren(o["src"])
        hist = [[op[0], op[1]] + [min(ren(x), len(nodes) - 2) if isinstance(x, int) and not isinstance(x, bool) and j < (2 if op[1] == "P" else 1) else x
                                  for j, x in enumerate(op[2:])] for op in h]
        yield mk(d["fn"], go(d["spec"]), ren(d["start"]), d["tsep"], o, hist, ())


NOT_READY = False
LEVEL_TEXT = ("partial: machine-checked (Lean 4) on the pointer-level store model for the copying functions - deep copy returns fresh "
              "nodes, leaves every original cell unchanged, creates no link across the old/new boundary and equals the original up "
              "to the id shift (copy_fresh); any later history on one side leaves the other side unchanged (sep_step, sep_run, "
              "no_alias_after_copy, mixed_history_*), also when the history attaches brand-new nodes to either side "
              "(no_alias_with_growth, mixed_growth_frame, growth_step_frame); clone_tree, prune_tree and get_subtree, modelled as the compositions they are "
              "in the code, write only fresh cells (clone_frame, prune_frame, get_subtree_frame). DAGNode.copy() on the statement-level "
              "DAG store of C10 (C07Dag.*): the mirrored store is again a well-formed DAG store, every old cell is unchanged, each "
              "duplicate's parents/children/name are the duplicates of the original's in the same order, no edge joins old and "
              "new nodes (dag_copy_fresh); after ANY history of parents/children assignments, >>, <<, del children, del node[name] "
              "(any arguments, hook faults, accepted or refused) that mentions only duplicates the edges among the old nodes are "
              "exactly the original's, and vice versa (dag_no_alias_after_copy, dag_no_alias_original_mutated), and for calls on both "
              "sides interleaved the old nodes end up with what the calls on the originals ALONE make of the original graph "
              "(dag_mixed_history; constructor calls "
              "excluded); the mirror is tied to the real DAGNode.copy by the C10 check (copy=<v> cases: one copy per weakly connected "
              "component of the final store of a history, cell by cell). That the pure readers (exporters, "
              "printers, iterators, searches, get_tree_diff, the source side of copy_*_from_tree_to_tree) do not mutate is NOT proved: "
              "in the functional model it holds by typing; it rests on the monitor run against the real code on every check")
LEVEL_NOTE = ("the tie compares, for every monitored function, every cell (parent, ordered children, name, public attributes) of the input "
              "tree and of the returned tree after the call and after a random follow-up history with the Model-A store; the model-free "
              "oracle re-checks signature-before == signature-after, object-identity disjointness and non-visibility of later mutations")
TECHNIQUE = "Lean 4 proof (frame/separation theorems on a pointer-store model with deep copy) + runtime monitor tied to the model by differential testing"
RULE = RULE + ' Fourth session: DAGs with several roots and zig-zag shapes, a second copy of a DAG after the first was edited, the nodes handed out by yield_tree must be fresh, chains of 105-150 levels for the copying functions with later growth below former leaves, tree_to_dot with attribute-named styles plus graph-wide defaults.'
RULE = RULE + ' Fifth session: the input tree is frozen while it is read (pre-assign hooks of its nodes raise during the monitored call); a tuple attribute holding a list and an attribute name with a scalar on the root and lists below are changed in place on either side after every copying function; tree_to_dot in its list form; yield_tree after an earlier rendering with other attribute values, with a label check of the nodes handed out.'
