"""Histories for the C09 / C12 ties (group D): a tree reaches its final state through
build -> warm-up queries -> edits (rename, re-parent, detach + re-attach, reorder, swap sibling
names) -> compared queries.  The edits are simulated here on an abstract tree (pure Python, no
bigtree), which yields the FINAL spec sent to the model and the final pre-order numbering; the
real side applies the same edits to real objects.  Any state the real code keeps from before the
edits (caches, indexes) therefore shows up as a disagreement.

Edits (indices = pre-order index in the INITIAL tree):
  ["rename", i, name]       node.name = name
  ["swapnames", i, j]       two siblings exchange names
  ["move", i, p]            node.parent = p            (appended as last child of p)
  ["reattach", i]           node.parent = None; node.parent = old parent   (ends up last)
  ["reorder", p, [c...]]    p.children = [those children in that order]
  ["delre", p]              kids = list(p.children); del p.children; p.children = kids   (the deleter runs no hooks)
  ["failmove", i, p]        node.parent = p where p is node or lies below it (or, Node: p already has a child of
                            that name): refused by bigtree, the caller catches the error; nothing changes
  ["hookmove", i, p, pt]    node.parent = p, a VALID move, but the user's pre-/post-assign hook (pt) first reads the
                            derived properties (depth, max_depth, root, ancestors, path_name, siblings, diameter of the
                            node and of p - hooks may read) and then raises: rolled back, nothing changes
  ["hookkids", p, [c..], pt] p.children = [those nodes] (a permutation of p's children plus possibly a node taken from
                            elsewhere), hook reads and raises: rolled back, nothing changes
(the two hook edits need objects of the classes returned by hooked_classes())
"""
from __future__ import annotations
import random


class ANode:
    __slots__ = ("idx", "name", "attrs", "kids", "parent")

    def __init__(self, idx, name, attrs):
        self.idx, self.name, self.attrs, self.kids, self.parent = idx, name, attrs, [], None


def from_spec(spec, nodes=None):
    """-> list of abstract nodes in pre-order (node 0 is the root); with `nodes` given, the new
    nodes are appended to it (forest: indices continue)"""
    if nodes is None:
        nodes = []
    def go(s, parent):
        n = ANode(len(nodes), s[0], dict(s[1]))
        nodes.append(n)
        n.parent = parent
        if parent is not None:
            parent.kids.append(n)
        for c in s[2]:
            go(c, n)
    go(spec, None)
    return nodes


def to_spec(n):
    return (n.name, dict(n.attrs), [to_spec(k) for k in n.kids])


def order(n, out=None):
    """initial indices in final pre-order"""
    if out is None:
        out = []
    out.append(n.idx)
    for k in n.kids:
        order(k, out)
    return out


def _in_subtree(top, x):
    while x is not None:
        if x is top:
            return True
        x = x.parent
    return False


def apply_abstract(nodes, e):
    k = e[0]
    if k == "rename":
        nodes[e[1]].name = e[2]
    elif k == "swapnames":
        a, b = nodes[e[1]], nodes[e[2]]
        a.name, b.name = b.name, a.name
    elif k == "move":
        n, p = nodes[e[1]], nodes[e[2]]
        n.parent.kids.remove(n)
        n.parent = p
        p.kids.append(n)
    elif k == "reattach":
        n = nodes[e[1]]
        n.parent.kids.remove(n)
        n.parent.kids.append(n)
    elif k == "reorder":
        p = nodes[e[1]]
        p.kids = [nodes[c] for c in e[2]]
    elif k in ("hookmove", "hookkids", "delre"):
        pass
    elif k == "failmove":
        pass
    else:
        raise KeyError(k)


def final_forest(specs, edits):
    """forest version: -> (final specs, initial indices in the final pre-order of tree 1, tree 2, ...)"""
    nodes = []
    roots = []
    for sp in specs:
        roots.append(len(nodes))
        from_spec(sp, nodes)
    for e in edits:
        apply_abstract(nodes, e)
    out = []
    for r in roots:
        order(nodes[r], out)
    return [to_spec(nodes[r]) for r in roots], out


def final(spec, edits):
    """-> (final spec, list of initial indices in final pre-order)"""
    nodes = from_spec(spec)
    for e in edits:
        apply_abstract(nodes, e)
    return to_spec(nodes[0]), order(nodes[0])


def random_edits(rng: random.Random, spec, count, alphabet, kinds=("rename", "swapnames", "move", "reattach", "reorder"),
                 forest=False):
    """a valid edit script: sibling names stay unique, no loops, roots stay roots
    (forest=True: `spec` is a list of specs, moves may cross trees)"""
    if forest:
        nodes = []
        for sp in spec:
            from_spec(sp, nodes)
    else:
        nodes = from_spec(spec)
    inner = [n for n in nodes if n.parent is not None]
    edits = []
    tries = 0
    while len(edits) < count and tries < count * 20:
        tries += 1
        k = rng.choice(kinds)
        e = None
        if k == "rename":
            n = rng.choice(nodes)
            taken = {s.name for s in n.parent.kids} if n.parent else set()
            free = [x for x in alphabet if x not in taken and x != n.name]
            if free:
                e = ["rename", n.idx, rng.choice(free)]
        elif k == "swapnames":
            ps = [p for p in nodes if len(p.kids) >= 2]
            if ps:
                a, b = rng.sample(rng.choice(ps).kids, 2)
                e = ["swapnames", a.idx, b.idx]
        elif k == "move" and len(nodes) > 2 and inner:
            n = rng.choice(inner)
            cands = [p for p in nodes if p is not n.parent and not _in_subtree(n, p)
                     and all(s.name != n.name for s in p.kids)]
            if cands:
                e = ["move", n.idx, rng.choice(cands).idx]
        elif k == "reattach" and inner:
            e = ["reattach", rng.choice(inner).idx]
        elif k == "reorder":
            ps = [p for p in nodes if len(p.kids) >= 2]
            if ps:
                p = rng.choice(ps)
                perm = [c.idx for c in p.kids]
                rng.shuffle(perm)
                e = ["reorder", p.idx, perm]
        elif k == "delre":
            ps = [p for p in nodes if len(p.kids) >= 1]
            if ps:
                e = ["delre", rng.choice(ps).idx]
        elif k == "hookmove" and len(nodes) > 2 and inner:
            n = rng.choice(inner)
            cands = [p for p in nodes if p is not n.parent and not _in_subtree(n, p)
                     and all(s.name != n.name for s in p.kids)]
            if cands:
                e = ["hookmove", n.idx, rng.choice(cands).idx, rng.choice(["pre", "post", "post"])]
        elif k == "hookkids":
            ps = [p for p in nodes if len(p.kids) >= 1]
            if ps:
                p = rng.choice(ps)
                perm = [c.idx for c in p.kids]
                rng.shuffle(perm)
                extra = [x for x in nodes if x.parent is not None and x.parent is not p and not _in_subtree(x, p) and x is not p
                         and all(s.name != x.name for s in p.kids)]
                if extra and rng.random() < 0.5:
                    perm.insert(rng.randrange(len(perm) + 1), rng.choice(extra).idx)
                e = ["hookkids", p.idx, perm, rng.choice(["pre", "post", "post"])]
        elif k == "failmove" and inner:
            n = rng.choice(inner)
            cands = [p for p in nodes if _in_subtree(n, p)]
            if alphabet:      # named nodes: a parent that already has a child of that name refuses as well
                cands += [p for p in nodes if p is not n.parent and any(s.name == n.name for s in p.kids)]
            e = ["failmove", n.idx, rng.choice(cands).idx]
        if e is not None:
            apply_abstract(nodes, e)
            edits.append(e)
    return edits


ARM = {"point": None, "op": None}
_HCLS = {}


def _peek_and_maybe_raise(point, node, others):
    if ARM["point"] != point:
        return
    import core
    for x in [node] + [o for o in others if o is not None and hasattr(o, "depth")]:
        for f in (lambda: x.depth, lambda: x.max_depth, lambda: x.root, lambda: list(x.ancestors), lambda: x.siblings,
                  lambda: x.diameter, lambda: list(x.descendants), lambda: x.path_name, lambda: x.node_path,
                  lambda: x.children, lambda: x.is_leaf, lambda: list(x.leaves)):
            try:
                f()
            except Exception:  # noqa: BLE001 - BaseNode has no path_name, ...
                pass
    raise core.hook_exc(ARM["op"], "user hook " + point)


def hooked_classes():
    """(HNode, HBase): Node / BaseNode subclasses whose four documented hooks, when armed, read derived properties
    and then raise (the hook_exc class is a function of the edit)"""
    if not _HCLS:
        from bigtree import Node, BaseNode

        class HNode(Node):
            def _Node__pre_assign_parent(self, new_parent):
                _peek_and_maybe_raise("pre", self, [new_parent])

            def _Node__post_assign_parent(self, new_parent):
                _peek_and_maybe_raise("post", self, [new_parent])

            def _Node__pre_assign_children(self, new_children):
                _peek_and_maybe_raise("pre", self, list(new_children))

            def _Node__post_assign_children(self, new_children):
                _peek_and_maybe_raise("post", self, list(new_children))

        class HBase(BaseNode):
            def _BaseNode__pre_assign_parent(self, new_parent):
                _peek_and_maybe_raise("pre", self, [new_parent])

            def _BaseNode__post_assign_parent(self, new_parent):
                _peek_and_maybe_raise("post", self, [new_parent])

            def _BaseNode__pre_assign_children(self, new_children):
                _peek_and_maybe_raise("pre", self, list(new_children))

            def _BaseNode__post_assign_children(self, new_children):
                _peek_and_maybe_raise("post", self, list(new_children))

        _HCLS["n"], _HCLS["b"] = HNode, HBase
    return _HCLS["n"], _HCLS["b"]


_HBIN = {}


def hooked_bin():
    """a BinaryNode subclass whose four documented hooks, when armed, read derived properties and then raise"""
    if not _HBIN:
        from bigtree import BinaryNode

        class HBin(BinaryNode):
            def _BinaryNode__pre_assign_parent(self, new_parent):
                _peek_and_maybe_raise("pre", self, [new_parent])

            def _BinaryNode__post_assign_parent(self, new_parent):
                _peek_and_maybe_raise("post", self, [new_parent])

            def _BinaryNode__pre_assign_children(self, new_children):
                _peek_and_maybe_raise("pre", self, [c for c in new_children if c is not None])

            def _BinaryNode__post_assign_children(self, new_children):
                _peek_and_maybe_raise("post", self, [c for c in new_children if c is not None])

        _HBIN["c"] = HBin
    return _HBIN["c"]


def apply_real(objs, e):
    """the same edit on real bigtree objects (objs[i] = object of initial index i)"""
    k = e[0]
    if k in ("hookmove", "hookkids"):
        ARM["point"], ARM["op"] = e[3], e
        try:
            if k == "hookmove":
                objs[e[1]].parent = objs[e[2]]
            else:
                objs[e[1]].children = [objs[c] for c in e[2]]
        except Exception:  # noqa: BLE001 - the roll-back is the point; the caller carries on with the tree
            pass
        finally:
            ARM["point"] = ARM["op"] = None
        return
    if k == "rename":
        objs[e[1]].name = e[2]
    elif k == "swapnames":
        a, b = objs[e[1]], objs[e[2]]
        a.name, b.name = b.name, a.name
    elif k == "move":
        objs[e[1]].parent = objs[e[2]]
    elif k == "reattach":
        n = objs[e[1]]
        p = n.parent
        n.parent = None
        n.parent = p
    elif k == "reorder":
        objs[e[1]].children = [objs[c] for c in e[2]]
    elif k == "delre":
        kids = list(objs[e[1]].children)
        del objs[e[1]].children
        objs[e[1]].children = kids
    elif k == "failmove":
        try:
            objs[e[1]].parent = objs[e[2]]
        except Exception:  # noqa: BLE001 - the refusal is the point; the caller carries on with the tree
            pass
    else:
        raise KeyError(k)


def spec_paths(spec, sep="/"):
    """full paths of all nodes, pre-order"""
    out = []
    def go(s, pre):
        p = pre + [s[0]]
        out.append(sep.join(p))
        for c in s[2]:
            go(c, p)
    go(spec, [])
    return out


def collect_in_spec_order(root, spec):
    """objects of a tree built by a path constructor, in the pre-order of `spec`
    (child k of the spec = k-th child of the object; names are cross-checked)"""
    objs = []
    def go(n, s):
        if str(n.name) != s[0] or len(n.children) != len(s[2]):
            raise AssertionError("constructor did not build the requested tree")
        objs.append(n)
        for c, sc in zip(n.children, s[2]):
            go(c, sc)
    go(root, spec)
    return objs


# ---------------------------------------------------------------- binary specs (name, attrs, left, right): renames only
def bnodes(spec, out=None):
    if out is None:
        out = []
    if spec is not None:
        out.append(spec)
        bnodes(spec[2], out)
        bnodes(spec[3], out)
    return out


def bfinal(spec, edits):
    """final binary spec after rename / swapnames edits (indices = pre-order)"""
    names = [s[0] for s in bnodes(spec)]
    for e in edits:
        if e[0] == "rename":
            names[e[1]] = e[2]
        elif e[0] == "swapnames":
            names[e[1]], names[e[2]] = names[e[2]], names[e[1]]
        else:
            raise KeyError(e[0])
    it = iter(names)
    def go(s):
        if s is None:
            return None
        nm = next(it)
        return (nm, dict(s[1]), go(s[2]), go(s[3]))
    return go(spec)


def random_bedits(rng, spec, count, alphabet):
    """renames that keep the two slots of every node differently named"""
    nodes = bnodes(spec)
    idx = {id(s): i for i, s in enumerate(nodes)}
    names = [s[0] for s in nodes]
    sib = {}
    for s in nodes:
        l, r = s[2], s[3]
        if l is not None and r is not None:
            sib[idx[id(l)]] = idx[id(r)]
            sib[idx[id(r)]] = idx[id(l)]
    edits = []
    for _ in range(count):
        i = rng.randrange(len(nodes))
        if i in sib and rng.random() < 0.3:
            j = sib[i]
            names[i], names[j] = names[j], names[i]
            edits.append(["swapnames", i, j])
            continue
        free = [x for x in alphabet if x != names[i] and (i not in sib or names[sib[i]] != x)]
        if free:
            nm = rng.choice(free)
            names[i] = nm
            edits.append(["rename", i, nm])
    return edits


# ---------------------------------------------------------------- binary structure edits (C12)
#   ["bswap", p]            p.children = [p.right, p.left]
#   ["bmove", i, q, slot]   node i is detached and put into the empty slot (0 left / 1 right) of q
#   ["bfail", i, q]         node i.parent = q where q is full or lies in i's subtree: refused, caught, nothing changes
class BNode:
    __slots__ = ("idx", "name", "attrs", "slots", "parent")


def bfrom_spec(spec):
    nodes = []
    def go(s, parent):
        if s is None:
            return None
        n = BNode()
        n.idx, n.name, n.attrs, n.parent = len(nodes), s[0], dict(s[1]), parent
        nodes.append(n)
        n.slots = [None, None]
        n.slots[0] = go(s[2], n)
        n.slots[1] = go(s[3], n)
        return n
    go(spec, None)
    return nodes


def bto_spec(n):
    return None if n is None else (n.name, dict(n.attrs), bto_spec(n.slots[0]), bto_spec(n.slots[1]))


def border(n, out):
    if n is not None:
        out.append(n.idx)
        border(n.slots[0], out)
        border(n.slots[1], out)
    return out


def bapply_abstract(nodes, e):
    if e[0] == "bswap":
        p = nodes[e[1]]
        p.slots.reverse()
    elif e[0] == "bmove":
        n, q = nodes[e[1]], nodes[e[2]]
        n.parent.slots[n.parent.slots.index(n)] = None
        q.slots[e[3]] = n
        n.parent = q
    elif e[0] in ("bfail", "bhook"):
        pass
    else:
        raise KeyError(e[0])


def bstruct_final(spec, edits):
    nodes = bfrom_spec(spec)
    for e in edits:
        bapply_abstract(nodes, e)
    return bto_spec(nodes[0]), border(nodes[0], [])


def random_bstruct_edits(rng, spec, count):
    nodes = bfrom_spec(spec)
    edits = []
    for _ in range(count * 5):
        if len(edits) >= count:
            break
        e = None
        r = rng.random()
        if r < 0.3 and len(nodes) > 1:
            n = rng.choice(nodes[1:])
            cands = [q for q in nodes if q is not n.parent and
                     ((q.slots[0] is not None and q.slots[1] is not None) or _in_subtree(n, q))]
            if cands:
                e = ["bfail", n.idx, rng.choice(cands).idx]
        elif r < 0.6:
            ps = [p for p in nodes if p.slots[0] is not None or p.slots[1] is not None]
            if ps:
                e = ["bswap", rng.choice(ps).idx]
        elif len(nodes) > 1:
            n = rng.choice(nodes[1:])
            cands = [(q, k) for q in nodes for k in (0, 1)
                     if q.slots[k] is None and not _in_subtree(n, q)]
            if cands:
                q, k = rng.choice(cands)
                e = ["bmove", n.idx, q.idx, k]
                if rng.random() < 0.35:
                    # the same VALID move, but a user hook reads derived properties and raises: rolled back, nothing changes
                    e = ["bhook", n.idx, q.idx, k, rng.choice(["pre", "post", "post"])]
        if e is not None:
            bapply_abstract(nodes, e)
            edits.append(e)
    return edits


def bapply_real(objs, e):
    if e[0] == "bswap":
        p = objs[e[1]]
        p.children = [p.right, p.left]
    elif e[0] == "bmove":
        n, q = objs[e[1]], objs[e[2]]
        # three spellings of the same move (a function of the edit): detach first; let the slot setter take the node
        # away from its present parent; assign both slots of the new parent at once
        mode = (e[1] * 7 + e[2] * 3 + e[3]) % 3
        if n.parent is q:
            mode = 0          # within one parent the other two spellings list the node twice (refused)
        if mode == 0:
            n.parent = None
        if mode == 2:
            q.children = [n, q.right] if e[3] == 0 else [q.left, n]
        elif e[3] == 0:
            q.left = n
        else:
            q.right = n
    elif e[0] == "bfail":
        try:
            objs[e[1]].parent = objs[e[2]]
        except Exception:  # noqa: BLE001
            pass
    elif e[0] == "bhook":
        n, q = objs[e[1]], objs[e[2]]
        mode = (e[1] * 5 + e[2] * 3 + e[3]) % 3
        if n.parent is q:
            mode = 0
        ARM["point"], ARM["op"] = e[4], e
        try:
            if mode == 0:
                n.parent = q                       # (first free slot: refused by the hook anyway)
            elif mode == 2:
                q.children = [n, q.right] if e[3] == 0 else [q.left, n]
            elif e[3] == 0:
                q.left = n
            else:
                q.right = n
        except Exception:  # noqa: BLE001 - the roll-back is the point
            pass
        finally:
            ARM["point"] = ARM["op"] = None
    else:
        raise KeyError(e[0])
