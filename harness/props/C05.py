"""C05 — path-based constructors build exactly the prefix closure of the given paths."""
from __future__ import annotations
import copy, itertools, random
import core
from core import hx
from runner import Case
from props import _e_util as U

THEOREMS = ["C05.paths_insert", "C05.insert_keeps_ids", "C05.insert_returns", "C05.different_root_refused",
            "C05.strip_invariant", "C05.sep_invariant", "C05.no_dup_mode", "C05.attrs_exact", "C05.new_node_attrs",
            "C05.nulls_dropped_in_rows", "C05.children_first_appearance", "C05.branchOf_written", "C05.fold_exact", "C05.dict_to_tree_exact",
            "C05.rows_to_tree_exact", "C05.strip_invariant_multi", "C05.sep_invariant_multi"]
PROOF_IMPORTS = ["BigtreeProofs.Properties.C05"]
FNS = ["addpath", "adddict", "addpd", "addpl", "list", "dict", "pd", "pl"]
ADD_FNS = ("addpath", "adddict", "addpd", "addpl")
DF_FNS = ("addpd", "addpl", "pd", "pl")
NAMED_REJ = ("TreeError", "DuplicatedNodeError")

RULE = ("[the input object is built once and deep-compared before/after the call; 25% of the from-scratch cases build TWICE "
        "from the same input object; half of the dict cases share one attribute-map object between equal entries] "
        "all eight path constructors (pandas/polars through the real libraries) on path multisets over the "
        "prefix/suffix-related alphabet {a,b,ab,ba,aa,xa,'a b','a.b',c} (plus distinct names), 1-12 paths, depth<=7, "
        "repeated paths, any order, all four leading/trailing-separator spellings, separators / . \\ | and ::, "
        "attribute maps with ints/strings/bools/None, both settings of duplicate_name_allowed, pre-existing random "
        "trees (own separator, random start node) for the add_* family, about a third of them history-built (the same root "
        "object was extended by an earlier add_path_to_tree call and a node on that path was then detached, renamed or "
        "moved; the model sees the resulting tree only); separate malformed stream (different root, "
        "empty input, empty component, conflicting attribute rows); a case is non-trivial when the expected tree has "
        ">=3 nodes; distinct = distinct protocol lines")
EXHAUSTIVE = {
    "quick": "list_to_tree on every sequence of <=3 paths over the 7 paths of depth<=3 on names {a,b} rooted at a, "
             "both duplicate settings; add_path_to_tree of each of these 7 paths to every ordered tree with <=4 nodes "
             "labelled from {a,b,c} by sibling position, both duplicate settings",
    "thorough": "list_to_tree on every sequence of <=3 paths over the 13 paths of depth<=3 on names {a,b,ab} rooted "
                "at a, both duplicate settings; add_path_to_tree of each of the 13 paths to every ordered tree with "
                "<=5 nodes labelled from {a,b,ab} by sibling position, both duplicate settings",
}
MODELLED = [
    "inputs are values on the model side: attribute maps shared between entries are seen expanded, two builds from the "
    "same input object must both equal the model's single answer, and the input (path list / dict / DataFrame / "
    "node_attrs) is deep-compared before/after every call (oracle clause 'input not modified')",
    "strings are List Char; lstrip/rstrip(sep) strip the character set of sep as CPython does; split is leftmost non-overlapping",
    "a DataFrame is a list of rows (path, cells) with homogeneous columns (int|str|bool + missing); pandas' int->float "
    "up-casting is normalised (1.0 == 1); the string values 'nan'/'None' are not generated (pandas' astype(str) "
    "duplicate check would identify them with a missing cell)",
    "attribute dictionaries are compared as key->value maps (insertion order is not part of the property)",
    "new nodes are fresh ids; a rejected call is compared as rejected (class for TreeError/DuplicatedNodeError), the "
    "partially extended tree left behind by a rejected add_* call is not compared",
    "dataframe_to_tree/polars_to_tree assign root.sep BEFORE their loop since repair D11 (fa6a3a4); names containing '/' are "
    "generated whenever the separator in use is not '/'",
]
ASSUMPTIONS = [
    "theorems: single-character separator occurring in no name, non-empty names, sibling names unique in the tree "
    "being extended (what Node enforces); for multi-character separators the string interface is proved equal to the "
    "component interface (strip_invariant_multi, sep_invariant_multi: names share no character with the separator), the "
    "other theorems are then about components",
    "attribute keys are not Node members and not 'name' for add_path_to_tree/add_dict_to_tree_by_path",
]


# ---------------------------------------------------------------- case data -> line
def path_str(item, sep):
    comps, lead, trail = item[0], item[1], item[2]
    return sep * int(lead) + sep.join(comps) + sep * int(trail)      # lead / trail: number of separators (bool = 0/1)


def _line(d):
    fn = d["fn"]
    mfn = {"addpd": "addrows", "addpl": "addrows", "pd": "rows", "pl": "rows"}.get(fn, fn)
    parts = ["fn=" + mfn, "sep=" + hx(d["sep"]), "dup=%d" % (1 if d["dup"] else 0),
             "rep=%d" % d.get("rep", 1), "share=%d" % (1 if d.get("share") else 0)]
    if fn in DF_FNS:
        parts.append("lib=" + fn[-2:] + str(d.get("pathpos", 0)))
    if fn in ADD_FNS:
        parts.append("tsep=" + hx(d["tsep"]))
        parts.append("start=%d" % d.get("start", 0))
    for it in d["items"]:
        parts += ["P", hx(path_str(it, d["sep"])), core.enc_attrs(it[3])]
    if fn in ADD_FNS:
        parts += ["T", core.enc_tree(d["tree"])]
    return " ".join(parts)


def mk(d, tags=()):
    return Case(_line(d), d, tags)


def rehydrate(case):
    return Case(_line(case.data), case.data, case.tags)


# ---------------------------------------------------------------- running the real code
def _snapshot(inp):
    import copy
    if hasattr(inp, "clone"):       # polars
        return inp.clone()
    if hasattr(inp, "copy") and hasattr(inp, "columns"):   # pandas
        return inp.copy(deep=True)
    return copy.deepcopy(inp)


def _same(x, y):
    if hasattr(x, "columns"):
        return list(x.columns) == list(y.columns) and bool(x.equals(y)) and dict(getattr(x, "attrs", {}) or {}) == dict(getattr(y, "attrs", {}) or {})
    return x == y


def _runs(d):
    """The input object (list / dict / DataFrame / node_attrs) is built ONCE; the constructor is called d['rep']
    times on it (from-scratch constructors only). Returns ([(root, ret, ids, err)], input_unchanged)."""
    import bigtree
    fn, sep, dup = d["fn"], d["sep"], d["dup"]
    items = d["items"]
    ids = None
    root = None
    if fn in ADD_FNS and d.get("hist"):
        root, nodes = _history_tree(d)
        ids = core.IdMap(nodes)
        start = nodes[d.get("start", 0)]
    elif fn in ADD_FNS:
        root, nodes = core.build_node_tree(d["tree"], sep=d["tsep"])
        ids = core.IdMap(nodes)
        start = nodes[d.get("start", 0)]
    strs = [path_str(it, sep) for it in items]
    shared = {}
    def attrs_of(it):
        # equal attribute maps may be one and the same dict object (aliasing inside the input)
        if not d.get("share"):
            return dict(it[3])
        key = repr(sorted(it[3].items(), key=lambda kv: kv[0]))
        return shared.setdefault(key, dict(it[3]))
    if fn in DF_FNS:
        cols = []
        for it in items:
            for k in it[3]:
                if k not in cols:
                    cols.append(k)
        rows = [[s] + [it[3].get(k) for k in cols] for s, it in zip(strs, items)]
        lib = "pd" if fn.endswith("pd") else "pl"
        pos = d.get("pathpos", 0)
        if pos == 1:
            arg = U.make_frame(lib, cols + ["path"], [r[1:] + r[:1] for r in rows], str_cols=("path",))
            kw = {"path_col": "path"}
        else:
            arg = U.make_frame(lib, ["path"] + cols, rows, str_cols=("path",))
            kw = {}
    elif fn in ("dict", "adddict"):
        arg = {s: attrs_of(it) for s, it in zip(strs, items)}
    elif fn == "list":
        arg = list(strs)
    else:
        assert len(items) == 1
        arg = dict(items[0][3])
    if fn == "addpath":
        invoke = lambda: (root, bigtree.add_path_to_tree(start, strs[0], sep=sep, duplicate_name_allowed=dup, node_attrs=arg))
    elif fn == "adddict":
        invoke = lambda: (bigtree.add_dict_to_tree_by_path(start, arg, sep=sep, duplicate_name_allowed=dup), None)
    elif fn == "addpd":
        invoke = lambda: (bigtree.add_dataframe_to_tree_by_path(start, arg, sep=sep, duplicate_name_allowed=dup, **kw), None)
    elif fn == "addpl":
        invoke = lambda: (bigtree.add_polars_to_tree_by_path(start, arg, sep=sep, duplicate_name_allowed=dup, **kw), None)
    elif fn == "list":
        invoke = lambda: (bigtree.list_to_tree(arg, sep=sep, duplicate_name_allowed=dup), None)
    elif fn == "dict":
        invoke = lambda: (bigtree.dict_to_tree(arg, sep=sep, duplicate_name_allowed=dup), None)
    elif fn == "pd":
        invoke = lambda: (bigtree.dataframe_to_tree(arg, sep=sep, duplicate_name_allowed=dup, **kw), None)
    elif fn == "pl":
        invoke = lambda: (bigtree.polars_to_tree(arg, sep=sep, duplicate_name_allowed=dup, **kw), None)
    else:
        raise ValueError(fn)
    before = _snapshot(arg)
    out = []
    for _ in range(d.get("rep", 1) if fn not in ADD_FNS else 1):
        try:
            r, ret = invoke()
            out.append((r, ret, ids, None))
        except Exception as e:
            out.append((None, None, ids, e))
    return out, _same(before, arg)


class HistoryMismatch(Exception):
    pass


def _spec_of_real(n):
    return [n.node_name, {k: v for k, v in n.describe(exclude_attributes=["name"], exclude_prefix="_")}, [_spec_of_real(c) for c in n.children]]


def _history_tree(d):
    """The tree the final call extends is reached through a HISTORY on the same root object: built as hist['tree0'],
    extended by an earlier add_path_to_tree call along hist['warm'], then edited in place (a node on that path is
    detached, renamed or moved). d['tree'] is the first-principles result of that history; the model only sees it."""
    import bigtree
    h = d["hist"]
    tsep = d["tsep"]
    root, _nodes = core.build_node_tree(h["tree0"], sep=tsep)
    if h.get("copy"):
        # the tree that is extended is a COPY taken before the original was extended: it must not see that extension
        cp = root.copy()
        bigtree.add_path_to_tree(root, tsep.join(h["warm"]), sep=tsep)
        _ = [n.path_name for n in [root] + list(root.descendants)]
        root = cp
        h = dict(h, edit=["none", [root.node_name]])
    else:
        bigtree.add_path_to_tree(root, tsep.join(h["warm"]), sep=tsep)
    kind, comps = h["edit"][0], h["edit"][1]
    x = root
    for c in comps[1:]:
        x = next(k for k in x.children if k.node_name == c)
    if kind == "none":
        pass
    elif kind == "sortrev":
        x.sort(key=lambda n: n.node_name, reverse=True)
    elif kind == "replace":
        p = x.parent
        x.parent = None
        bigtree.Node(h["edit"][2], parent=p)
    elif kind == "detach":
        x.parent = None
    elif kind == "rename":
        x.name = h["edit"][2]
    elif kind == "move":
        x.parent = root
    elif kind == "failmove":
        # a move the library refuses (the destination already has a child of that name): nothing changes
        y = root
        for c in h["edit"][2][1:]:
            y = next(k for k in y.children if k.node_name == c)
        try:
            x.parent = y
        except bigtree.utils.exceptions.TreeError:
            pass
    if h.get("peek"):
        for n in [root] + list(root.descendants):
            n.path_name, n.depth
    nodes = []
    def pre(n):
        nodes.append(n)
        for c in n.children:
            pre(c)
    pre(root)
    if _spec_of_real(root) != _strip_none(d["tree"]):
        raise HistoryMismatch("the tree after add_path_to_tree(%r) + %s differs from the prefix-closure specification: %r"
                              % (h["warm"], kind, _spec_of_real(root)))
    return root, nodes


def _strip_none(t):
    return [t[0], {k: v for k, v in t[1].items()}, [_strip_none(c) for c in t[2]]]


def _spec_add(tree, comps):
    """first-principles add_path on a list-form spec: descend by names, create missing children last"""
    cur = tree
    for c in comps[1:]:
        nxt = next((k for k in cur[2] if k[0] == c), None)
        if nxt is None:
            nxt = [c, {}, []]
            cur[2].append(nxt)
        cur = nxt
    return tree


def add_history(rng, case):
    """turn an add_* case into a history-built one (None when the case does not lend itself to it)"""
    import copy
    d = case.data
    if d["fn"] not in ADD_FNS or not d["items"] or any("malformed" in t for t in case.tags):
        return None
    tsep = d["tsep"]
    tree0 = copy.deepcopy(d["tree"])
    first = d["items"][0][0]
    if len(first) < 2 or first[0] != tree0[0] or any((not c) or any(ch in c for ch in tsep) for c in first):
        return None
    warm = list(first[: rng.randint(2, len(first))])
    if rng.random() < 0.4:
        warm.append(rng.choice(["w0", "b", "a"]))
    if any(any(ch in c for ch in tsep) for c in warm):
        return None
    tw = _spec_add(copy.deepcopy(tree0), warm)
    j = rng.randint(1, len(warm) - 1)
    comps = warm[: j + 1]
    parent = tw
    for c in comps[1:-1]:
        parent = next(k for k in parent[2] if k[0] == c)
    x = next(k for k in parent[2] if k[0] == comps[-1])
    kind = rng.choice(["detach", "rename", "rename", "move"])
    edit = [kind, comps]
    if kind == "detach":
        parent[2].remove(x)
    elif kind == "rename":
        new = rng.choice(["zq", "zr", "b2"])
        if any(k[0] == new for k in parent[2]) or any(ch in new for ch in tsep):
            return None
        x[0] = new
        edit.append(new)
    else:
        if parent is tw or any(k[0] == x[0] for k in tw[2]):
            return None
        parent[2].remove(x)
        tw[2].append(x)
    nd = dict(d, tree=tw, hist={"tree0": tree0, "warm": warm, "edit": edit, "peek": rng.random() < 0.5},
              start=rng.choice([0, 0, rng.randrange(core.spec_size(tw))]))
    return mk(nd, tuple(case.tags) + ("history", "hist:" + kind))


def wide_history_case(rng):
    """a parent with 10-13 children; an earlier add_path_to_tree call looks a child up below it; then a change that keeps
    the NUMBER of children (children sorted in reverse, one child renamed, one child replaced by a fresh node); then the
    final add_* call goes through a child of that parent again"""
    import copy
    k = rng.choice([rng.randint(10, 13), rng.randint(10, 13), 66, 130])     # beyond any 16 / 50 / 64 / 100 / 128 switch
    kids = [["k%02d" % i, {}, ([["g", {}, []]] if rng.random() < 0.3 else [])] for i in range(k)]
    rng.shuffle(kids)
    tree0 = ["r", {}, kids]
    i = rng.randrange(k)
    warm = ["r", kids[i][0], "w0"]
    tw = _spec_add(copy.deepcopy(tree0), warm)
    kind = rng.choice(["sortrev", "rename", "replace"])
    j = rng.randrange(k)
    target = tw[2][j]
    old_name = target[0]
    if kind == "sortrev":
        edit = ["sortrev", ["r"]]
        tw[2].sort(key=lambda t: t[0], reverse=True)
    elif kind == "rename":
        edit = ["rename", ["r", target[0]], "zq"]
        target[0] = "zq"
    else:
        edit = ["replace", ["r", target[0]], "zn"]
        tw[2].remove(target)
        tw[2].append(["zn", {}, []])
    through = rng.choice(tw[2])[0]
    if kind != "sortrev" and rng.random() < 0.5:
        through = old_name        # the name that LEFT the parent (renamed / replaced child): a new node has to be created
    fn = rng.choice(["addpath", "adddict"])
    items = [[["r", through, "z"], 0, 0, {"v": 1}]]
    if fn == "adddict":
        items.append([["r", rng.choice(tw[2])[0], "y", "x"], 0, 0, {}])
    d = {"fn": fn, "sep": "/", "dup": True, "tsep": "/", "tree": tw, "start": 0, "items": items, "rep": 1, "share": False,
         "hist": {"tree0": tree0, "warm": warm, "edit": edit, "peek": rng.random() < 0.5}}
    return mk(d, (fn, "history", "hist:wide-" + kind))


def copy_history_case(rng):
    """the tree being extended is a copy (`root.copy()`) of a small tree - often a single node - whose ORIGINAL is
    extended in between: the copy must be independent of it"""
    size = rng.choice([1, 1, 1, 2, 3])
    tree0 = ["r", {}, [["c%d" % i, {}, []] for i in range(size - 1)]]
    warm = ["r", rng.choice(["x", "c0"]), "y"]
    fn = rng.choice(["addpath", "adddict"])
    items = [[["r", rng.choice(["x", "z", "c0"]), "q"], 0, 0, {"v": 2}]]
    d = {"fn": fn, "sep": "/", "dup": True, "tsep": "/", "tree": tree0, "start": 0, "items": items, "rep": 1, "share": False,
         "hist": {"tree0": tree0, "warm": warm, "edit": ["none", ["r"]], "copy": True}}
    return mk(d, (fn, "history", "hist:copy"))


def _call(d):
    """first build: returns (result_root, returned_node_or_None, ids) or raises"""
    runs, _ = _runs(d)
    r, ret, ids, err = runs[0]
    if err is not None:
        raise err
    return r, ret, ids


def _canon(d):
    runs, _ = _runs(d)
    outs = []
    for root, ret, ids, err in runs:
        if err is not None:
            outs.append(U.rej(err, NAMED_REJ))
        elif d["fn"] == "addpath":
            outs.append("ok " + U.addr_of(ret) + " " + U.show_res(ret.root, ids))
        else:
            outs.append("ok " + U.show_res(root, ids))
    # repeated builds from the same input object must all give the model's answer
    return outs[0] if all(o == outs[0] for o in outs) else " || ".join(outs)


def impl(case):
    return _canon(case.data)


def worker_impl(d):
    """executed in a worker interpreter (props/_twoproc.py): the outcome line of one case"""
    return _canon(d)


# ---------------------------------------------------------------- oracle (model-free)
def _eff_attrs(fn, attrs):
    if fn in DF_FNS:
        return {k: v for k, v in attrs.items() if v is not None and k != "name"}
    if fn == "dict":
        return {k: v for k, v in attrs.items() if k != "name"}
    return dict(attrs)


def _comps_of(s, sep):
    """plain string reading of a path: drop leading/trailing separators, cut at the separator"""
    while s.startswith(sep):
        s = s[len(sep):]
    while s.endswith(sep) and s:
        s = s[:-len(sep)]
    return s.split(sep)


def oracle(case):
    msgs = _oracle(case)
    if not msgs:
        here = impl(case)
        if here.startswith("rej:") and not case.data.get("hist"):
            # a different root, a duplicate the caller disallowed, ...: refused whatever BIGTREE_CONF_ASSERTIONS says
            from props import _twoproc
            off = _twoproc.refusal_differs_off("props.C05:worker_impl", case.data, here, case.line, every=4)
            if off is not None:
                msgs.append(f"with BIGTREE_CONF_ASSERTIONS switched off the call is no longer refused as {here}: {off[:120]}")
    return msgs


def _oracle(case):
    d = case.data
    fn, sep, dup = d["fn"], d["sep"], d["dup"]
    items = d["items"]
    msgs = []
    strs = [path_str(it, sep) for it in items]
    # the components the caller meant = plain reading of the strings handed to bigtree
    comps = [tuple(_comps_of(s, sep)) for s in strs]
    # ---- expected outcome from first principles
    pre_paths = []      # name paths of the pre-existing tree, pre-order
    pre_attrs = {}
    if fn in ADD_FNS:
        for addr, s in core.spec_nodes(d["tree"]):
            p = []
            t = d["tree"]
            p.append(t[0])
            for k in addr:
                t = t[2][k]
                p.append(t[0])
            pre_paths.append(tuple(p))
            pre_attrs[tuple(p)] = dict(s[1])
        root_name = d["tree"][0]
    else:
        root_name = comps[0][0] if comps else None
    valid = bool(items) and all(all(x != "" for x in c) for c in comps) and all(c[0] == root_name for c in comps)
    if fn in DF_FNS and valid:
        seen = {}
        for c, it in zip(comps, items):
            key = tuple(sorted(it[3].items(), key=lambda kv: kv[0]))
            if seen.setdefault(c, key) != key:
                valid = False   # same path given with different attributes: documented refusal
    different_root = bool(items) and any(c[0] != root_name for c in comps)
    # expected ordered tree: children of every node in order of first appearance (after the existing ones)
    kids = {}
    order = list(pre_paths)
    known = set(pre_paths)
    for p in pre_paths:
        if len(p) > 1:
            kids.setdefault(p[:-1], []).append(p)
    if fn not in ADD_FNS and comps:
        order.append((root_name,)); known.add((root_name,))
    exp_attrs = {p: dict(a) for p, a in pre_attrs.items()}
    for c, it in zip(comps, items):
        for i in range(1, len(c) + 1):
            q = c[:i]
            if q not in known:
                known.add(q)
                if i > 1:
                    kids.setdefault(q[:-1], []).append(q)
        exp_attrs.setdefault(c, {}).update(_eff_attrs(fn, it[3]))
    exp_pre = []
    def walk(p):
        exp_pre.append(p)
        for k in kids.get(p, []):
            walk(k)
    if root_name is not None:
        walk((root_name,))
    # ---- observed
    runs, unchanged = _runs(d)
    root, ret, ids, err = runs[0]
    if not unchanged:
        msgs.append(f"{fn}: the call modified its input (paths / attribute maps / DataFrame)")
    if len(runs) > 1:
        def _c(r):
            return U.rej(r[3], NAMED_REJ) if r[3] is not None else "ok " + U.show_res(r[0], None)
        if any(_c(r) != _c(runs[0]) for r in runs[1:]):
            msgs.append(f"{fn}: a second build from the same input object gives a different tree: "
                        f"{[_c(r) for r in runs]}")
    if err is not None:
        if dup and valid:
            msgs.append(f"{fn}: valid input refused with {type(err).__name__}: {err}")
        return msgs
    if different_root:
        msgs.append(f"{fn}: a path with a different root was accepted ({strs})")
        return msgs
    if not valid:
        return msgs   # accepted a malformed input the property does not speak about
    if fn == "addpath":
        root = ret.root
    nodes = U.preorder(root)
    got = [U.name_path(n) for n in nodes]
    if len(set(got)) != len(got):
        msgs.append(f"{fn}: a node path occurs twice: {got}")
    if set(got) != known:
        msgs.append(f"{fn}: node paths {sorted(set(got) - known)} extra, {sorted(known - set(got))} missing")
    elif got != exp_pre:
        msgs.append(f"{fn}: children not in order of first appearance: {got} expected {exp_pre}")
    for n, p in zip(nodes, got):
        a = U.node_attrs(n)
        if a != exp_attrs.get(p, {}):
            msgs.append(f"{fn}: attributes of {p} are {a}, expected {exp_attrs.get(p, {})}")
            break
    if ids is not None:
        # existing nodes are reused, not duplicated: every pre-existing object sits at its old path
        at = {p: n for n, p in zip(nodes, got)}
        for k, (p, obj) in enumerate(zip(pre_paths, ids.keep)):
            if at.get(p) is not obj:
                msgs.append(f"{fn}: pre-existing node {p} was replaced or moved")
                break
    if fn == "addpath" and U.name_path(ret) != comps[0]:
        msgs.append(f"addpath: returned node is {U.name_path(ret)}, asked for {comps[0]}")
    if not dup:
        nm = [p[-1] for p in got]
        pre_nm = [p[-1] for p in pre_paths]
        if len(set(pre_nm)) == len(pre_nm) and len(set(nm)) != len(nm):
            msgs.append(f"{fn}: duplicate names with duplicate_name_allowed=False: {nm}")
        d2 = dict(d, dup=True)
        if _canon(d2) != _canon(d):
            msgs.append(f"{fn}: duplicate_name_allowed=False built a different tree than True")
    # ---- independence of the separator and of leading/trailing separators
    allnames = {x for c in comps for x in c} | {p[-1] for p in pre_paths}
    alt = [s for s in U.SEPS if s != sep and s != d.get("tsep")]
    used = sep + d.get("tsep", "")
    if alt and not any(ch in nm_ for nm_ in allnames for ch in used + "".join(alt)):
        sep2 = alt[len(items) % len(alt)]
        # swap the leading/trailing runs (a bijection, so distinct dict keys stay distinct) and change the separator
        d3 = dict(d, sep=sep2, items=[[it[0], int(it[2]), int(it[1]), it[3]] for it in items])
        if _canon(d3) != _canon(d):
            msgs.append(f"{fn}: result depends on the separator / on leading-trailing separators "
                        f"({sep!r} -> {sep2!r}): {_canon(d)} vs {_canon(d3)}")
    return msgs


# ---------------------------------------------------------------- generators
def _names(rng, sep, scheme):
    # names may contain OTHER separators' characters (C05: "independent of the separator chosen"), in particular the
    # default separator "/" when another one is in use (D11: dataframe_to_tree / polars_to_tree under sep != "/")
    fam = [n for n in U.NAME_FAMILY + ["a/b", "b/", "/"] if not any(ch in n for ch in sep)]
    if scheme == "family":
        return fam
    if scheme == "distinct":
        return ["n%d" % i for i in range(40)]
    return fam + ["n%d" % i for i in range(12)]


def _rand_attrs(rng, keys, p=0.6, allow_none=True):
    a = {}
    for k in keys:
        if rng.random() < p:
            a[k] = None if (allow_none and rng.random() < 0.2) else U.rand_attr_value(rng, k)
    return a


def _rand_tree(rng, names, size, distinct=False):
    shape = core.random_shape(rng, size)
    if distinct:
        pool = list(names)
        rng.shuffle(pool)
        ctr = itertools.count()
        def go(s):
            i = next(ctr)
            nm = pool[i] if i < len(pool) else "m%d" % i
            return [nm, {}, [go(c) for c in s]]
        spec = go(shape)
    else:
        spec = _tolist(core.label_sibling_unique(shape, rng, names))
    # sprinkle attributes
    def deco(s):
        if rng.random() < 0.3:
            s[1] = _rand_attrs(rng, ["v", "w"], 0.7)
        for c in s[2]:
            deco(c)
    deco(spec)
    return spec


def _tolist(t):
    return [t[0], dict(t[1]), [_tolist(c) for c in t[2]]]


def _rand_comps(rng, root, names, maxdepth, tree=None):
    comps = [root]
    cur = tree
    depth = rng.choice([1, 2, 2, 3, 3, 4, 4, 5, 6, 7])
    depth = min(depth, maxdepth)
    while len(comps) < depth:
        if cur is not None and cur[2] and rng.random() < 0.55:
            cur = rng.choice(cur[2])
            comps.append(cur[0])
        else:
            nm = rng.choice(names)
            nxt = None
            if cur is not None:
                for c in cur[2]:
                    if c[0] == nm:
                        nxt = c
            cur = nxt
            comps.append(nm)
    return comps


def _rand_case(rng, fn, malformed=False):
    sep = rng.choice(U.SEPS + U.SEPS + [U.SEP_MULTI])
    dup = rng.random() < 0.6
    scheme = rng.choice(["family", "family", "mixed", "distinct"]) if dup else rng.choice(["family", "mixed", "distinct", "distinct"])
    names = _names(rng, sep, scheme)
    d = {"fn": fn, "sep": sep, "dup": dup}
    tree = None
    if fn in ADD_FNS:
        tsep = rng.choice(U.SEPS + [sep, sep])
        size = rng.choice([1, 2, 3, 5, 8, 12, 20])
        tnames = [n for n in names if not any(ch in n for ch in tsep)] or ["q"]
        tree = _rand_tree(rng, tnames, size, distinct=(not dup and rng.random() < 0.7))
        d.update(tsep=tsep, tree=tree, start=rng.choice([0, 0, rng.randrange(size)]))
        root = tree[0]
    else:
        root = rng.choice(names)
    n = 1 if fn == "addpath" else rng.randint(1, 12)
    hidden = None
    if not dup and rng.random() < 0.7:
        # a hidden tree with pairwise different names: the pre-existing tree is a top part of it and the
        # paths lead to its nodes, so that the call can succeed with duplicates disallowed
        pool = [x for x in names if not (fn in ADD_FNS and any(ch in x for ch in d["tsep"]))]
        pool = list(dict.fromkeys(pool + ["h%d" % i for i in range(30)]))
        rng.shuffle(pool)
        hsize = rng.randint(2, 25)
        hshape = core.random_shape(rng, hsize)
        ctr = itertools.count()
        def hlab(sh):
            return [pool[next(ctr)], {}, [hlab(x) for x in sh]]
        hidden = hlab(hshape)
        root = hidden[0]
        if fn in ADD_FNS:
            def top(t, keep):
                kids = [top(k, keep * 0.6) for k in t[2] if rng.random() < keep]
                return [t[0], _rand_attrs(rng, ["v", "w"], 0.3) if rng.random() < 0.3 else {}, kids]
            tree = top(hidden, 0.8)
            d.update(tree=tree, start=rng.choice([0, 0, rng.randrange(core.spec_size(tree))]))
    if fn in DF_FNS:
        cols = rng.choice([[], ["v"], ["v", "w"], ["w", "f"], ["v", "name"], ["age", "w", "f"], ["g"], ["g", "v"],
                          ["first name", "class"], ["2024", "v"]])
    elif fn in ("dict",):
        cols = rng.choice([[], ["v"], ["v", "w"], ["v", "name", "f"]])
    elif fn in ("adddict", "addpath"):
        cols = rng.choice([[], ["v"], ["v", "w"], ["w", "f", "age"]])
    else:
        cols = []
    items = []
    seen_attr = {}
    for _ in range(n):
        if items and rng.random() < 0.2:
            comps = list(rng.choice(items)[0])          # repeated path
            if rng.random() < 0.5 and len(comps) > 1:
                comps = comps[:rng.randint(1, len(comps))]   # or a prefix of one
        elif hidden is not None:
            comps = [hidden[0]]
            cur = hidden
            while cur[2] and len(comps) < 7 and rng.random() < 0.8:
                cur = rng.choice(cur[2])
                comps.append(cur[0])
        else:
            comps = _rand_comps(rng, root, names, 7, tree)
        lead, trail = rng.choice([0, 0, 0, 1, 1, 2]), rng.choice([0, 0, 0, 1, 1, 2])
        if fn in DF_FNS:
            a = {k: (None if rng.random() < 0.3 else U.rand_attr_value(rng, k)) for k in cols}
            a = seen_attr.setdefault(tuple(comps), a)   # same path -> same cells (otherwise: documented refusal)
        else:
            a = _rand_attrs(rng, cols)
        items.append([comps, lead, trail, dict(a)])
    if fn in ("dict", "adddict"):
        # dict keys are unique strings
        seen, uniq = set(), []
        for it in items:
            s = path_str(it, sep)
            if s not in seen:
                seen.add(s); uniq.append(it)
        items = uniq
    tags = [fn, "sep=" + sep, "dup" if dup else "nodup", "names=" + ("hidden-distinct" if hidden is not None else scheme)]
    if malformed:
        kind = rng.choice(["diffroot", "diffroot", "empty", "emptycomp", "emptypath", "conflict"])
        if kind == "conflict" and (fn not in DF_FNS or not cols):
            kind = "diffroot"
        if kind == "empty" and fn == "addpath":
            kind = "emptypath"
        tags.append("malformed:" + kind)
        if kind == "diffroot":
            other = rng.choice([x for x in names + ["zz"] if x != root])
            k = rng.randrange(len(items)) if (fn in ADD_FNS or len(items) == 1) else rng.randrange(1, len(items))
            if fn not in ADD_FNS and len(items) == 1:
                items.append([[other, rng.choice(names)], False, False, dict(items[0][3])])
            else:
                items[k][0] = [other] + items[k][0][1:]
        elif kind == "empty":
            items = []
        elif kind == "emptycomp":
            k = rng.randrange(len(items))
            c = items[k][0]
            pos = rng.randint(1, len(c))
            items[k][0] = c[:pos] + [""] + c[pos:]
            if items[k][0][-1] == "":
                items[k][0].append(rng.choice(names))
        elif kind == "emptypath":
            k = rng.randrange(len(items))
            items[k][0] = []
            items[k][1] = rng.choice([0, 1])
            items[k][2] = 0
        elif kind == "conflict":
            k = rng.randrange(len(items))
            a = dict(items[k][3])
            c0 = cols[0] if cols[0] != "name" else cols[-1]
            a[c0] = U.rand_attr_value(rng, c0) if a.get(c0) is None else None
            items.insert(rng.randint(0, len(items)), [list(items[k][0]), 0 if items[k][1] else 1, items[k][2], a])
    d["items"] = items
    d["rep"] = rng.choice([1, 1, 1, 2]) if fn not in ADD_FNS else 1
    d["share"] = fn in ("dict", "adddict") and rng.random() < 0.5
    tags.append("rep=%d" % d["rep"])
    if fn in DF_FNS:
        d["pathpos"] = rng.choice([0, 0, 1])
    depth = max([len(it[0]) for it in items], default=0)
    tags.append("depth>=4" if depth >= 4 else "depth<4")
    tags.append("paths=%d" % min(len(items), 12))
    return mk(d, tags)


def _corpus():
    out = []
    # D3 witness: root a with a/xa/b; add a/b with duplicates disallowed must raise or build /a/b
    t = ["a", {}, [["xa", {}, [["b", {}, []]]]]]
    for dup in (False, True):
        out.append(mk({"fn": "addpath", "sep": "/", "dup": dup, "tsep": "/", "tree": t, "start": 0,
                       "items": [[["a", "b"], False, False, {}]]}, ("corpus", "D3")))
        out.append(mk({"fn": "addpath", "sep": "/", "dup": dup, "tsep": "/", "tree": t, "start": 2,
                       "items": [[["a", "b"], True, False, {"v": 1}]]}, ("corpus", "D3")))
    # D11 witness: with another separator in use, a name containing "/" whose "/"-join coincides with a different path
    # (a."b/c".d vs a.b.c.d): every from-scratch constructor, both duplicate settings, and without the name clash
    for fn in ("list", "dict", "pd", "pl"):
        for dup in (False, True):
            for last in ("d", "e"):
                for sep in (".", "|", "::"):
                    its = [[["a", "b/c", "d"], False, False, ({"v": 1} if fn != "list" else {})],
                           [["a", "b", "c", last], False, False, ({"v": 2} if fn != "list" else {})]]
                    d = {"fn": fn, "sep": sep, "dup": dup, "items": its, "rep": 1, "share": False}
                    if fn in DF_FNS:
                        d["pathpos"] = 0
                    out.append(mk(d, ("corpus", "D11", fn)))
    # large inputs: more than 1000 paths / rows (chunked or position-vs-label row handling only shows there)
    big = [["a", "n%02d" % i, "l%02d" % j] for i in range(35) for j in range(30)] + [["a", "n34", "l29", "deep"], ["a", "zz"]]
    for fn in ("list", "dict", "pd", "pl", "adddict", "addpd", "addpl"):
        its = [[p, False, False, ({"v": k} if (fn != "list" and k % 7 == 0) else {})] for k, p in enumerate(big)]
        d = {"fn": fn, "sep": "/", "dup": True, "items": its}
        if fn in ADD_FNS:
            d.update(tsep="/", start=0, tree=["a", {}, [["n00", {}, []]]])
        if fn in DF_FNS:
            d["pathpos"] = 0
        out.append(mk(d, ("corpus", "large", fn)))
    # a WIDE node (70 children) whose child n7 the caller tried - and was refused - to move below a sibling that has an
    # n7 of its own; then the tree is extended through a/n7 (existing nodes are reused, not duplicated)
    wide = ["a", {}, [["n%d" % i, {}, []] for i in range(70)] + [["hub", {}, [["n7", {}, []]]]]]
    for fn in ADD_FNS:
        its = [[["a", "n7", "leaf"], False, False, ({"v": 1} if fn != "addpath" else {})],
               [["a", "n7"], False, False, ({"w": "x"} if fn != "addpath" else {})],
               [["a", "hub", "n7", "z"], False, False, {}]]
        if fn == "addpath":
            its = its[:1]
        d = {"fn": fn, "sep": "/", "dup": True, "items": its, "tsep": "/", "start": 0, "tree": wide,
             "hist": {"tree0": wide, "warm": ["a", "n7"], "edit": ["failmove", ["a", "n7"], ["a", "hub"]], "peek": True}}
        if fn in DF_FNS:
            d["pathpos"] = 0
        out.append(mk(d, ("corpus", "wide-failmove", fn)))
    # suffix-related names deeper down
    t2 = ["a", {}, [["ab", {}, [["xa", {}, [["a b", {}, []]]]]], ["b", {}, [["ba", {}, []]]]]]
    for dup in (False, True):
        for p in (["a", "b", "a"], ["a", "a b"], ["a", "b", "xa", "a b"], ["a", "ab", "xa", "a b", "c"]):
            out.append(mk({"fn": "addpath", "sep": "/", "dup": dup, "tsep": "/", "tree": t2, "start": 0,
                           "items": [[p, False, True, {"w": "x"}]]}, ("corpus", "suffix")))
    # "re-uses an uncle node for path components deeper than 3": equal names in different branches, depth >= 4
    uncle = [["a", "b", "c", "d", "e"], ["a", "x", "c", "d", "e"], ["a", "b", "y", "d", "e", "f"],
             ["a", "x", "c", "e", "d"], ["a", "b", "c", "d", "f"], ["a", "x", "y", "d", "e", "f", "g"]]
    cousin = [["a", "b", "c", "d1", "e"], ["a", "b", "c", "d2", "e"], ["a", "b", "c", "x"], ["a", "b", "c", "y", "x"],
              ["a", "b", "c", "y", "x", "z"], ["a", "b", "c", "d2", "e", "x"]]
    for fn in FNS:
        if fn == "addpath":
            continue
        its = [[p, False, False, ({"v": i} if fn != "list" else {})] for i, p in enumerate(cousin)]
        d = {"fn": fn, "sep": "/", "dup": True, "items": its}
        if fn in ADD_FNS:
            d.update(tsep="/", start=0, tree=["a", {}, [["b", {}, [["c", {}, []]]]]])
        if fn in DF_FNS:
            d["pathpos"] = 0
        out.append(mk(d, ("corpus", "cousin")))
    for p, tr in ((["a", "b", "c", "d2", "e"], ["a", {}, [["b", {}, [["c", {}, [["d1", {}, [["e", {}, []]]], ["d2", {}, []]]]]]]]),
                  (["a", "b", "c", "y", "x"], ["a", {}, [["b", {}, [["c", {}, [["x", {}, []], ["y", {}, []]]]]]]])):
        out.append(mk({"fn": "addpath", "sep": "/", "dup": True, "tsep": "/", "tree": tr, "start": 0,
                       "items": [[p, False, False, {"v": 3}]]}, ("corpus", "cousin")))
    for fn in FNS:
        for dup in (True, False):
            its = [[p, False, False, ({"v": i} if fn != "list" else {})] for i, p in enumerate(uncle)]
            d = {"fn": fn, "sep": "/", "dup": dup, "items": its if fn != "addpath" else its[1:2]}
            if fn in ADD_FNS:
                d.update(tsep="/", start=0,
                         tree=["a", {}, [["b", {}, [["c", {}, [["d", {}, [["e", {}, []]]]]]]], ["x", {}, []]]])
            if fn in DF_FNS:
                d["pathpos"] = 0
            out.append(mk(d, ("corpus", "uncle")))
    return out


def _exhaustive(tier):
    out = []
    alpha = ["a", "b"] if tier == "quick" else ["a", "b", "ab"]
    paths = [["a"]] + [["a", x] for x in alpha] + [["a", x, y] for x in alpha for y in alpha]
    for k in (1, 2, 3):
        for seq in itertools.product(paths, repeat=k):
            for dup in (True, False):
                out.append(mk({"fn": "list", "sep": "/", "dup": dup,
                               "items": [[list(p), False, False, {}] for p in seq]}, ("exh-list", "k=%d" % k)))
    nmax = 4 if tier == "quick" else 5
    lab = ["a", "b", "c"] if tier == "quick" else ["a", "b", "ab"]
    for shape in core.all_shapes_upto(nmax):
        def go(s, nm):
            return [nm, {}, [go(c, lab[k % len(lab)] + ("" if k < len(lab) else str(k))) for k, c in enumerate(s)]]
        spec = go(shape, "a")
        for p in paths:
            for dup in (True, False):
                out.append(mk({"fn": "addpath", "sep": "/", "dup": dup, "tsep": "/", "tree": spec, "start": 0,
                               "items": [[list(p), False, False, {"v": 7}]]}, ("exh-addpath",)))
    return out


def gen(rng: random.Random, tier: str):
    cases = list(_corpus())
    cases += _exhaustive(tier)
    n = 260 if tier == "quick" else 2600
    for fn in FNS:
        k = n if fn not in DF_FNS else n // 2
        for i in range(k):
            c = _rand_case(rng, fn, malformed=(rng.random() < 0.14))
            cases.append(c)
            if fn in ADD_FNS and rng.random() < 0.5:
                h = add_history(rng, c)
                if h is not None:
                    cases.append(h)
    for _ in range(60 if tier == "quick" else 600):
        cases.append(wide_history_case(rng))
    for _ in range(30 if tier == "quick" else 300):
        cases.append(copy_history_case(rng))
    return cases


def nontrivial(case):
    d = case.data
    known = set()
    for it in d["items"]:
        for i in range(1, len(it[0]) + 1):
            known.add(tuple(it[0][:i]))
    n = len(known) + (core.spec_size(d["tree"]) if d["fn"] in ADD_FNS else 0)
    return n >= 3


# ---------------------------------------------------------------- shrinking
def shrink(case):
    d = case.data
    items = d["items"]
    if d.get("hist"):
        yield mk({k: v for k, v in d.items() if k != "hist"}, case.tags)
    if d.get("rep", 1) > 1:
        yield mk(dict(d, rep=1), case.tags)
    if d.get("share"):
        yield mk(dict(d, share=False), case.tags)
    if len(items) > 1 and d["fn"] != "addpath":
        for k in range(len(items)):
            yield mk(dict(d, items=items[:k] + items[k + 1:]), case.tags)
    for k, it in enumerate(items):
        if len(it[0]) > 1:
            yield mk(dict(d, items=items[:k] + [[it[0][:-1], it[1], it[2], it[3]]] + items[k + 1:]), case.tags)
        if it[3] and d["fn"] not in DF_FNS:
            yield mk(dict(d, items=items[:k] + [[it[0], it[1], it[2], {}]] + items[k + 1:]), case.tags)
        if it[1] or it[2]:
            yield mk(dict(d, items=items[:k] + [[it[0], False, False, it[3]]] + items[k + 1:]), case.tags)
    if d["fn"] in ADD_FNS:
        if d.get("start", 0):
            yield mk(dict(d, start=0), case.tags)
        spec = d["tree"]
        nodes = core.spec_nodes(spec)
        if d.get("hist"):
            return     # (the tree is the result of the recorded history: not shrunk independently of it)
        for idx in range(len(nodes) - 1, 0, -1):
            addr, s = nodes[idx]
            if s[2] or idx == d.get("start", 0):
                continue
            def remove(t, a):
                if len(a) == 1:
                    return [t[0], t[1], t[2][:a[0]] + t[2][a[0] + 1:]]
                return [t[0], t[1], [remove(c, a[1:]) if k == a[0] else c for k, c in enumerate(t[2])]]
            st = d.get("start", 0)
            yield mk(dict(d, tree=remove(spec, list(addr)), start=st - 1 if st > idx else st), case.tags)


NOT_READY = False
LEVEL_TEXT = ("proof: Lean 4 kernel-checked theorems about the executable model of add_path_to_tree (address-based loop, "
              "find_child_by_name resp. find_name over the whole tree + full-path comparison) and its folds: "
              "paths_insert (node paths of the result = old paths + all prefixes of the given path, no path twice), "
              "insert_keeps_ids (every old node keeps address, identity, name, path and attributes; the addressed node is "
              "updated), insert_returns, attrs_exact / new_node_attrs / nulls_dropped_in_rows, different_root_refused, "
              "strip_invariant and sep_invariant (string interface = component interface for a one-character separator "
              "occurring in no name), strip_invariant_multi and sep_invariant_multi (the same for a separator of ANY length - '::', "
              "'->' - sharing no character with a name, incl. any run of separator characters in front and behind), no_dup_mode (duplicates disallowed: raises, or returns exactly the duplicates-allowed "
              "result and keeps all names distinct), children_first_appearance / dict_to_tree_exact / rows_to_tree_exact / "
              "fold_exact (list_to_tree, dict_to_tree, the DataFrame constructors and the add_*_by_path folds, both "
              "duplicate settings: node set = prefix closure, each path once, children of every node a sublist of the "
              "first-appearance list)")
LEVEL_NOTE = ("the per-call theorems are stated for duplicate_name_allowed=True and transferred to False by no_dup_mode; "
              "children_first_appearance covers any list of well-formed path strings (repeats, any order, any spelling); "
              "fold_exact (add_*_by_path from any sibling-unique tree), dict_to_tree_exact and rows_to_tree_exact give node "
              "set, no duplicates and child order for the other constructors; per-node attributes of the folds, "
              "root-attribute lookup, null dropping through pandas/polars and the duplicate-attribute refusal rest on the "
              "per-call theorems plus the correspondence check; "
              "the other theorems are stated for a one-character separator (multi-character separators: the two _multi theorems and "
              "the correspondence check). The model is hand-written and tied to /repo by "
              "differential testing of all eight functions against the compiled model")
TECHNIQUE = ("machine-checked proof (Lean 4) on an executable model + differential correspondence check against the real "
             "constructors (pandas and polars through the real libraries), model-free oracle on every case")
RULE = RULE + ' Fourth session: two thirds of the pandas frames carry a non-default unique index (permuted integers / string labels), DataFrame.attrs belong to the input-unmodified comparison, an opaque float attribute column g (0.5, -2.25, +-inf, 1e300), one input of 1052 paths per constructor.'
RULE = RULE + ' Fifth session: wide-parent histories with 66 and 130 children, half of the final calls go through the name that LEFT the parent.'
