"""C20 — switching off the optional assertion checks never changes valid behaviour.

The flag is read once at import (bigtree/globals.py), so the tie runs every case in TWO interpreter
processes (props/_twoproc.py): BIGTREE_CONF_ASSERTIONS unset ("on") and set to "" ("off").

Each node class is a plug-in (generator, impl-adapter, oracle) registered under its `cls=` value,
exactly as in C02.py.  This file registers BaseNode/Node."""
from __future__ import annotations
import random
from runner import Case
from props import _store_util as U
from props import _twoproc

THEOREMS = ["C20.assertions_off_same", "C20.assertions_off_same_run", "C20.off_only_removes_rejections", "C20.guards_pure",
            "BinStore.assertions_off_same", "BinStore.off_only_removes_rejections", "BinStore.run_assertions_off_same", "DagStore.assertions_off_same", "DagStore.off_only_removes_rejections", "DagStore.run_assertions_off_same"]
PLUGINS = {}


def register(cls_values, gen, impl, oracle, shrink=None, nontrivial=None, compare=None):
    p = dict(gen=gen, impl=impl, oracle=oracle, shrink=shrink, nontrivial=nontrivial, compare=compare)
    for c in cls_values:
        PLUGINS[c] = p


RULE = ("histories every call of which is accepted with the checks on (built on the real objects), run in two interpreter "
        "processes (BIGTREE_CONF_ASSERTIONS unset / empty); the outcome and the store after every call are compared "
        "between the processes and with the model at assertions=true/false; then a battery of readers (derived queries, "
        "all iterators, go_to, exports, searches) on the final objects of both processes must agree.  Non-trivial: >= 3 calls.")
EXHAUSTIVE = {"quick": "every forest reachable on 3 BaseNode / Node objects x every call without hook fault that the checks accept",
              "thorough": "the same on 4 BaseNode objects (193 forests) and on 3 nodes for two Node name assignments"}
MODELLED = ["the ASSERTIONS switch is a parameter of every modelled setter; the guard skeleton of the six setters is re-extracted "
            "from the source on every run (Generated.guardBlocks / assertionsOtherReads / checkFunctions)"]
ASSUMPTIONS = ["with the checks off only arguments the checks would accept are in the domain of the claim"]

_CACHE = {}


def mk_case(d, tags=()):
    return Case(U.mk_line(d), d, tags)


def _no_fault(op):
    return not any(t.startswith("fault=") for t in U.op_tags(op))


def _store_gen(rng: random.Random, tier: str):
    cases = []
    # exhaustive: every forest reachable on N nodes x every call (no hook fault) that the checks accept
    plan = [("base", 3, []), ("node", 3, ["a", "b", "ab"])]
    if tier == "thorough":
        plan += [("base", 4, []), ("node", 3, ["a", "b", "a"])]
    for cls, n, names in plan:
        uni = [o for o in U.arg_universe(n, cls, names) if _no_fault(o)]
        paths = U.explore(cls, n, names, "/", uni)
        for _st, path in paths.items():
            for op in uni:
                d = U.mk_data(cls, n, names, "/", path + [op])
                nodes = U.make_nodes(d)
                if all(U.apply_op(nodes, o) == "ok" for o in d["ops"]):
                    cases.append(mk_case(d, ("enum", f"enum-{cls}-n={n}") + tuple(U.op_tags(op))))
    nr = 500 if tier == "quick" else 5000
    for i in range(nr):
        cls = "base" if i % 2 == 0 else "node"
        n = rng.randint(2, 9)
        names = []
        if cls == "node":
            names = [U.NAMES[k % len(U.NAMES)] + ("" if k < len(U.NAMES) else "b") for k in range(n)]
            if rng.random() < 0.5:
                names = [rng.choice(U.NAMES) for _ in range(n)]
        ops = U.accepted_history(rng, cls, n, names, "/", rng.randint(1, 30))
        tags = ["accepted", f"cls={cls}", "n=%d" % n, "ops=%d" % (10 * (len(ops) // 10))] + [t for op in ops for t in U.op_tags(op)]
        cases.append(mk_case(U.mk_data(cls, n, names, "/", ops), tags))
    return cases


def _both(case):
    key = case.line
    if key not in _CACHE:
        if len(_CACHE) > 50000:
            _CACHE.clear()
        _CACHE[key] = (_twoproc.call("on", "props._store_util:worker_eval", case.data),
                       _twoproc.call("off", "props._store_util:worker_eval", case.data))
    return _CACHE[key]


def _store_impl(case):
    on, off = _both(case)
    return "on " + on["trace"] + " || off " + off["trace"]


def _store_oracle(case):
    on, off = _both(case)
    msgs = []
    if " rej " in (" " + on["trace"] + " ") or on["trace"].startswith("rej"):
        return []   # not an accepted history: outside the claim
    if on["trace"] != off["trace"]:
        msgs.append("accepted history gives different stores with the checks off: on=" + on["trace"][-300:] + " off=" + off["trace"][-300:])
    if on["battery"] != off["battery"]:
        import json
        a, b = json.loads(on["battery"]), json.loads(off["battery"])
        diff = [k for k in sorted(set(a) | set(b)) if a.get(k) != b.get(k)]
        msgs.append(f"reader battery differs between the two processes at {diff[:5]}")
    return msgs


def _store_shrink(case):
    for d in U.shrink_history(case.data):
        yield Case(U.mk_line(d), d, case.tags)


register(("base", "node"), _store_gen, _store_impl, _store_oracle, _store_shrink, lambda c: len(c.data["ops"]) >= 3)


def _plugin(case):
    return PLUGINS[case.data["cls"]]


def gen(rng: random.Random, tier: str):
    cases, seen = [], []
    for p in PLUGINS.values():
        if any(p is q for q in seen):
            continue
        seen.append(p)
        cases += list(p["gen"](rng, tier))
    for d in U.drain_unhealthy():   # exploration met a store that is not a forest: let the tie and the oracle see it
        cases.append(mk_case(d, ("explore-unhealthy",)))
    return cases


def rehydrate(case):
    return Case(case.line, case.data)


def impl(case):
    return _plugin(case)["impl"](case)


def oracle(case):
    return _plugin(case)["oracle"](case)


def shrink(case):
    f = _plugin(case)["shrink"]
    return f(case) if f else ()


def nontrivial(case):
    f = _plugin(case)["nontrivial"]
    return f(case) if f else True


def compare(a, b, case=None):
    f = _plugin(case)["compare"] if case is not None else None
    return f(a, b, case) if f else a == b


# BinaryNode and DAGNode plug-ins (props/_plug.py, on top of props/C11.py and props/C10.py)
from props import _plug  # noqa: E402
register(*_plug.c20_binary())
register(*_plug.c20_dag())


NOT_READY = False
LEVEL_TEXT = "Proof (BaseNode/Node, BinaryNode and DAGNode stores). `assertions` is a parameter of every modelled setter. C20.assertions_off_same: an operation accepted with the checks on gives the identical store and outcome with the checks off; assertions_off_same_run: lifted to whole histories (trace and final store); off_only_removes_rejections; guards_pure: decided by the kernel on the guard skeleton that harness/tables.py re-extracts from /repo's source on every run - every `if ASSERTIONS:` block consists only of bare calls whose name contains 'check' (no other statement, no else), ASSERTIONS is read nowhere else in the package, the check functions store to nothing non-local and call no mutator on non-locals, and the guarded sites are exactly the six modelled setters. Tie: the same accepted histories are run in TWO interpreter processes (BIGTREE_CONF_ASSERTIONS unset / empty), outcome and store after every call are compared with each other and with the model at assertions=true/false, then a battery of readers (derived queries, all iterators, go_to, exports, searches) on the final objects of both processes must agree."
LEVEL_NOTE = "'Every library function gives the same result' rests on guards_pure (the flag is read only in pure guard blocks of the six setters) plus the two-process reader battery; the library functions themselves are not re-proved per flag value. With the checks off only guard-accepted arguments are in the domain of the claim."
TECHNIQUE = 'Lean 4 proof on the parameterised setters + kernel-decided obligations over a table regenerated from source + two-process differential run'
RULE = RULE + " Fourth session: refusal probes in the reader battery (prune_tree / get_subtree / find_relative_path / shift_nodes on something missing); failing library calls (op F) inside the accepted histories' candidates are dropped like any refused call."
