"""C12 — derived node queries (ancestors … diameter, go_to) agree with their definitions."""
from __future__ import annotations
import collections, itertools, random
import core
from core import nats
from runner import Case
from props import _d_hist as H

THEOREMS = [
    "C12.ancestors_eq", "C12.descendants_eq", "C12.leaves_eq", "C12.siblings_eq",
    "C12.left_sibling_eq", "C12.right_sibling_eq", "C12.node_path_eq", "C12.root_eq",
    "C12.is_root_iff", "C12.is_leaf_iff", "C12.depth_eq", "C12.max_depth_eq",
    "C12.go_to_eq", "C12.go_to_simple_path", "C12.go_to_other_tree_rej",
    "C12.diameter_eq", "C12.diameter_longest_path",
]
PROOF_IMPORTS = ["BigtreeProofs.Properties.C12"]
RULE = ("(Node, BaseNode and BinaryNode objects) every derived property on every node ('props' lines) and go_to on every ordered pair of nodes ('goto' lines) "
        "of: all ordered trees up to N nodes (Node), all binary shapes with empty slots up to M nodes (BinaryNode), "
        "random trees (<=40 nodes, depth<=10, fan-out<=8, incl. wide nodes whose tallest children come last), "
        "random binary trees, and go_to across two different trees (refused); non-trivial = the tree has >=3 nodes; "
        "distinct = distinct protocol lines; plus HISTORIES: a warm-up read of every property on every node, then re-parenting (also from one tree into another), detach + re-attach, children reordering, refused re-parentings (loop / full BinaryNode, caught by the caller), BinaryNode slot swaps and moves, then the compared reads - the model receives only the final tree(s) (every single re-parenting on all trees with <=4/5 nodes, random scripts of 1-6 edits)")
EXHAUSTIVE = {
    "quick": "all ordered rooted trees with <=6 nodes x every node (all 13 properties) x every ordered pair (go_to); "
             "all BinaryNode shapes with <=5 nodes (empty slots in every position) x every node x every ordered pair",
    "thorough": "all ordered rooted trees with <=8 nodes x every node (all 13 properties) x every ordered pair (go_to); "
                "all BinaryNode shapes with <=6 nodes (empty slots in every position) x every node x every ordered pair",
}
MODELLED = [
    "a node is a root tree plus an address (list of child indices); object identity <-> equality of addresses in one tree, of root ids across trees",
    "generators (ancestors, descendants, leaves) are modelled as the list they yield when driven to exhaustion",
    "BinaryNode: the None entries that `siblings` reports for empty slots are not nodes and are dropped before comparison; "
    "left_sibling/right_sibling of a BinaryNode = the neighbouring slot's node or None",
    "heapq.nlargest(2, l) is modelled as sorted(l, reverse=True)[:2] (its documented meaning)",
]
ASSUMPTIONS = ["trees are well-formed (C01/C11): parent/children links agree, no cycles"]

FIELDS = ["anc", "desc", "leaves", "sib", "ls", "rs", "path", "root", "isroot", "isleaf", "depth", "maxdepth", "diam"]
MULTISET_FIELDS = {"anc", "desc", "leaves", "sib"}


# ---------------------------------------------------------------- case construction
def spec_from_shape(shape):
    return core.label(shape, lambda i, d, k, p: "n%d" % i)


def bsize(s):
    return 0 if s is None else 1 + bsize(s[2]) + bsize(s[3])


def _size(spec, binary):
    return bsize(spec) if binary else core.spec_size(spec)


def _enc(spec, binary, counter):
    if binary:
        return "B " + core.enc_btree(spec, counter)
    return "T " + core.enc_tree(spec, counter)


def _line(d):
    ctr = itertools.count()
    trees = _enc(d["spec"], d["binary"], ctr)
    if d.get("spec2") is not None:
        trees += " " + _enc(d["spec2"], d.get("binary2", False), ctr)
    if d["op"] == "props":
        return f"props node={d['node']} {trees}"
    return f"goto from={d['from']} to={d['to']} {trees}"


def mk_props(spec, node, binary=False, tags=(), cls="node"):
    d = {"op": "props", "spec": spec, "binary": binary, "node": node, "cls": cls}
    return Case(_line(d), d, tags)


def mk_goto(spec, a, b, binary=False, spec2=None, binary2=False, tags=(), cls="node"):
    d = {"op": "goto", "spec": spec, "binary": binary, "from": a, "to": b, "spec2": spec2, "binary2": binary2, "cls": cls}
    return Case(_line(d), d, tags)


def rehydrate(case):
    return Case(case.line, case.data)


def _shape_tags(shape):
    return ("fanout>=4" if core.shape_fanout(shape) >= 4 else "fanout<4",
            "depth>=5" if core.shape_depth(shape) >= 5 else "depth<5")


def wide_tall_last(rng, fan, tall):
    """a node with `fan` children; the last two children carry chains of length tall / tall-1, the first ones are
    leaves or short: the 'diameter only looks at the first three children' mutant is wrong here"""
    def chain(k):
        s = []
        for _ in range(k):
            s = [s]
        return s
    kids = [chain(rng.choice([0, 0, 1])) for _ in range(fan - 2)] + [chain(tall - 1), chain(tall)]
    return kids


def _hist_cases(rng, d0, n, tags, all_pairs):
    out = []
    for v in range(n):
        d = dict(d0, op="props", node=v)
        out.append(Case(_line(d), d, tags + ("props",)))
    pairs = [(a, b) for a in range(n) for b in range(n)]
    if not all_pairs and len(pairs) > 40:
        pairs = rng.sample(pairs, 40)
    for a, b in pairs:
        d = dict(d0, op="goto")
        d["from"], d["to"] = a, b
        out.append(Case(_line(d), d, tags + ("goto",)))
    return out


def _gen_histories(rng, tier):
    quick = tier == "quick"
    out = []
    warm = lambda edits: [([rng.randrange(64) for _ in range(3)] if rng.random() < 0.5 else []) for _ in edits]
    kinds = ("move", "move", "reattach", "reorder", "failmove", "hookmove", "hookkids", "delre")
    # corpus: a refused re-parenting of a LEFT / RIGHT child of a BinaryNode (full target, loop), then all reads
    full = ("1", {}, ("2", {}, ("4", {}, None, None), None), ("3", {}, ("5", {}, None, None), ("6", {}, None, None)))
    for e in (["bfail", 1, 3], ["bfail", 2, 3], ["bfail", 4, 3], ["bfail", 1, 2], ["bfail", 5, 0], ["bfail", 6, 0]):
        d0 = {"spec": full, "binary": True, "spec2": None, "binary2": False, "cls": "node",
              "hist": {"inits": [full], "edits": [e], "warm": [[]]}}
        out += _hist_cases(rng, d0, 6, ("corpus", "hist-refused"), True)
    # systematic: every single re-parenting on all small trees
    for shape in core.all_shapes_upto(4 if quick else 5):
        init = spec_from_shape(shape)
        an = H.from_spec(init)
        n = len(an)
        for a in an[1:]:
            for p in an:
                if p is a.parent or H._in_subtree(a, p):
                    continue
                e = ["move", a.idx, p.idx]
                fs, _o = H.final(init, [e])
                d0 = {"spec": fs, "binary": False, "spec2": None, "binary2": False, "cls": "node",
                      "hist": {"inits": [init], "edits": [e], "warm": [[]]}}
                out += _hist_cases(rng, d0, n, ("hist-single",), not quick)
    # random histories on one tree or across two trees
    for _ in range(40 if quick else 400):
        s1 = spec_from_shape(core.random_shape(rng, rng.randint(2, 16)))
        two = rng.random() < 0.4
        inits = [s1]
        if two:
            inits.append(core.label(core.random_shape(rng, rng.randint(1, 8)), lambda i, dd, k, pp: "m%d" % i))
        edits = H.random_edits(rng, inits, rng.randint(1, 6), [], kinds=kinds, forest=True)
        if not edits:
            continue
        fs, _o = H.final_forest(inits, edits)
        cls = "base" if rng.random() < 0.3 else "node"
        d0 = {"spec": fs[0], "binary": False, "spec2": fs[1] if two else None, "binary2": False, "cls": cls,
              "hist": {"inits": inits, "edits": edits, "warm": warm(edits)}}
        n = sum(core.spec_size(x) for x in fs)
        out += _hist_cases(rng, d0, n, ("hist-random", "cls=" + cls, "two-trees" if two else "one-tree"), False)
    for _ in range(25 if quick else 250):
        init = core.label_bshape(core.random_bshape(rng, rng.randint(2, 12)))
        edits = H.random_bstruct_edits(rng, init, rng.randint(1, 4))
        if not edits:
            continue
        fs, _o = H.bstruct_final(init, edits)
        d0 = {"spec": fs, "binary": True, "spec2": None, "binary2": False, "cls": "node",
              "hist": {"inits": [init], "edits": edits, "warm": warm(edits)}}
        out += _hist_cases(rng, d0, bsize(fs), ("hist-binary",), False)
    return out


def gen(rng: random.Random, tier: str):
    cases = []
    # ---- corpus
    # D5 (fixed): BinaryNode(1) with one child, diameter
    for bs in [("1", {}, ("2", {}, None, None), None), ("1", {}, None, ("2", {}, None, None)),
               ("1", {}, None, ("2", {}, ("3", {}, None, None), None))]:
        for v in range(bsize(bs)):
            cases.append(mk_props(bs, v, binary=True, tags=("corpus", "D5")))
    # diameter mutant 'first three children only': fan-out >= 4, tall children last
    for fan in (4, 5, 8):
        for tall in (2, 3, 5):
            shape = wide_tall_last(rng, fan, tall)
            spec = spec_from_shape(shape)
            for v in range(core.shape_size(shape)):
                cases.append(mk_props(spec, v, tags=("corpus", "wide-tall-last")))
            # the same below the root
            shape2 = [[], shape, []]
            spec2 = spec_from_shape(shape2)
            for v in range(core.shape_size(shape2)):
                cases.append(mk_props(spec2, v, tags=("corpus", "wide-tall-last")))
    # ---- a WIDE parent (70 children, subtrees of different heights among them) and a DEEP chain (120 levels, side leaves)
    wide_shape = [[] for _ in range(30)] + [[[[]]], [[]], [[[[]], []]]] + [[] for _ in range(37)]
    def _chain(k):
        return [] if k == 0 else ([_chain(k - 1), []] if k % 30 == 7 else [_chain(k - 1)])
    for shape, tg in ((wide_shape, "wide"), (_chain(119), "deep")):
        spec = spec_from_shape(shape)
        n = core.shape_size(shape)
        probe = sorted({0, 1, n // 3, n // 2, n - 2, n - 1, 31, 33, 36})
        for v in probe:
            cases.append(mk_props(spec, v, tags=("corpus", tg, "props")))
        for a in probe[:5]:
            for b in probe[2:7]:
                cases.append(mk_goto(spec, a, b, tags=("corpus", tg, "goto")))
    # ---- exhaustive small trees
    nmax = 6 if tier == "quick" else 8
    for shape in core.all_shapes_upto(nmax):
        spec = spec_from_shape(shape)
        n = core.shape_size(shape)
        tg = ("enum", "n=%d" % n) + _shape_tags(shape)
        for v in range(n):
            cases.append(mk_props(spec, v, tags=tg + ("props",)))
        for a in range(n):
            for b in range(n):
                cases.append(mk_goto(spec, a, b, tags=tg + ("goto",)))
    bmax = 5 if tier == "quick" else 6
    for nb in range(1, bmax + 1):
        for bs in core.all_bshapes(nb):
            spec = core.label_bshape(bs)
            tg = ("enum-binary", "nb=%d" % nb)
            for v in range(nb):
                cases.append(mk_props(spec, v, binary=True, tags=tg + ("props",)))
            for a in range(nb):
                for b in range(nb):
                    cases.append(mk_goto(spec, a, b, binary=True, tags=tg + ("goto",)))
    # ---- random large trees
    nr = 60 if tier == "quick" else 500
    for _ in range(nr):
        size = rng.randint(8, 40)
        shape = core.random_shape(rng, size)
        if rng.random() < 0.3:
            # graft a wide node with its tallest children last somewhere
            shape = [shape, wide_tall_last(rng, rng.randint(4, 8), rng.randint(2, 5))] if rng.random() < 0.5 \
                else wide_tall_last(rng, rng.randint(4, 8), rng.randint(2, 4)) + [shape]
            if core.shape_depth(shape) > 10:
                shape = core.random_shape(rng, size)
        spec = spec_from_shape(shape)
        n = core.shape_size(shape)
        cls = "base" if rng.random() < 0.3 else "node"
        tg = ("random", "cls=" + cls) + _shape_tags(shape)
        for v in range(n):
            cases.append(mk_props(spec, v, tags=tg + ("props",), cls=cls))
        pairs = [(a, b) for a in range(n) for b in range(n)]
        if len(pairs) > 120:
            pairs = rng.sample(pairs, 120)
        for a, b in pairs:
            cases.append(mk_goto(spec, a, b, tags=tg + ("goto",), cls=cls))
    for _ in range(30 if tier == "quick" else 300):
        nb = rng.randint(6, 25)
        spec = core.label_bshape(core.random_bshape(rng, nb))
        for v in range(nb):
            cases.append(mk_props(spec, v, binary=True, tags=("random-binary", "props")))
        for _k in range(40):
            cases.append(mk_goto(spec, rng.randrange(nb), rng.randrange(nb), binary=True, tags=("random-binary", "goto")))
    # ---- histories: build -> read everything -> re-parent / reorder (also across two trees) -> compared reads
    cases += _gen_histories(rng, tier)
    # ---- two different trees: go_to must be refused (and still work inside either tree)
    shapes = list(core.all_shapes_upto(4))
    for s1 in shapes:
        for s2 in (shapes if tier == "thorough" else rng.sample(shapes, 6)):
            sp1, sp2 = spec_from_shape(s1), spec_from_shape(s2)
            n1, n2 = core.shape_size(s1), core.shape_size(s2)
            for a in range(n1 + n2):
                for b in range(n1 + n2):
                    if (a < n1) != (b < n1) or rng.random() < 0.15:
                        cases.append(mk_goto(sp1, a, b, spec2=sp2, tags=("two-trees", "cross" if (a < n1) != (b < n1) else "same")))
    for _ in range(40 if tier == "quick" else 400):
        s1 = core.random_shape(rng, rng.randint(2, 20))
        n1 = core.shape_size(s1)
        binary2 = rng.random() < 0.4
        if binary2:
            sp2 = core.label_bshape(core.random_bshape(rng, rng.randint(1, 10)))
        else:
            sp2 = spec_from_shape(core.random_shape(rng, rng.randint(1, 20)))
        n2 = _size(sp2, binary2)
        for _k in range(6):
            a, b = rng.randrange(n1), n1 + rng.randrange(n2)
            if rng.random() < 0.5:
                a, b = b, a
            cases.append(mk_goto(spec_from_shape(s1), a, b, spec2=sp2, binary2=binary2, tags=("two-trees", "cross")))
    return cases


def nontrivial(case):
    d = case.data
    return _size(d["spec"], d["binary"]) >= 3


# ---------------------------------------------------------------- implementation side
def _build_base(spec):
    """the same shape out of plain BaseNode objects (no names)"""
    from bigtree import BaseNode
    nodes = []
    def go(s, parent):
        n = BaseNode()
        nodes.append(n)
        if parent is not None:
            n.parent = parent
        for c in s[2]:
            go(c, n)
        return n
    return go(spec, None), nodes


def _warmup(objs, light=None):
    """read every derived property (and a go_to) on (some of) the nodes, results discarded"""
    todo = objs if light is None else [objs[i % len(objs)] for i in light]
    for n in todo:
        for f in (lambda: (list(n.ancestors), list(n.descendants), list(n.leaves), n.siblings, n.left_sibling,
                           n.right_sibling, n.node_path, n.root, n.is_root, n.is_leaf, n.depth, n.max_depth, n.diameter),
                  lambda: (n.path_name, n.sep),
                  lambda: (n.go_to(n.root), n.root.go_to(n), n.go_to(objs[0]))):
            try:
                f()
            except Exception:  # noqa: BLE001 - BaseNode has no path_name, other tree, ...
                pass


def _build_hist(d):
    """initial tree(s) -> warm-up -> edits with warm-ups in between -> objects in FINAL pre-order"""
    from bigtree import Node, BaseNode
    h = d["hist"]
    if d["binary"]:
        root, objs = core.build_binary_tree(h["inits"][0], cls=H.hooked_bin())
        _fs, final_order = H.bstruct_final(h["inits"][0], h["edits"])
        roots = [root]
        apply = H.bapply_real
    else:
        objs, roots = [], []
        HNode, HBase = H.hooked_classes()     # hooks are no-ops except during the "hook…" edits
        def go(s, parent):
            n = HBase() if d.get("cls") == "base" else HNode(s[0])
            objs.append(n)
            if parent is not None:
                n.parent = parent
            for c in s[2]:
                go(c, n)
            return n
        for sp in h["inits"]:
            roots.append(go(sp, None))
        _fs, final_order = H.final_forest(h["inits"], h["edits"])
        apply = H.apply_real
    _warmup(objs)
    for e, w in zip(h["edits"], h["warm"]):
        apply(objs, e)
        if w:
            _warmup(objs, light=w)
    return roots, [objs[i] for i in final_order]


def _build(d):
    if d.get("hist"):
        return _build_hist(d)
    def one(spec, binary):
        if binary:
            return core.build_binary_tree(spec)
        if d.get("cls") == "base":
            return _build_base(spec)
        return core.build_node_tree(spec)
    root, nodes = one(d["spec"], d["binary"])
    roots = [root]
    if d.get("spec2") is not None:
        r2, n2 = one(d["spec2"], d.get("binary2", False))
        roots.append(r2)
        nodes = nodes + n2
    return roots, nodes


def _real(xs):
    """nodes only: a BinaryNode reports None for an empty slot"""
    return [x for x in xs if x is not None]


def impl(case):
    d = case.data
    _roots, nodes = _build(d)
    ids = core.IdMap(nodes)
    if d["op"] == "props":
        n = nodes[d["node"]]
        top = nodes[0]
        def live(get):
            """the iteration is consumed while ANOTHER iteration of the same kind (over the whole first tree) is alive and
            advanced in between, as in a nested loop or a zip: the two must not share their position"""
            other = iter(get(top))
            next(other, None)
            out_ = []
            for x in get(n):
                out_.append(x)
                next(other, None)
            return out_
        out = {
            "anc": ids.list(live(lambda x: x.ancestors)), "desc": ids.list(live(lambda x: x.descendants)),
            "leaves": ids.list(live(lambda x: x.leaves)),
            "sib": ids.list(_real(n.siblings)), "ls": str(ids(n.left_sibling)), "rs": str(ids(n.right_sibling)),
            "path": ids.list(n.node_path), "root": str(ids(n.root)),
            "isroot": "1" if n.is_root is True else ("0" if n.is_root is False else "?"),
            "isleaf": "1" if n.is_leaf is True else ("0" if n.is_leaf is False else "?"),
            "depth": str(int(n.depth)), "maxdepth": str(int(n.max_depth)), "diam": str(int(n.diameter)),
        }
        return " ".join(f"{k}={out[k]}" for k in FIELDS)
    a, b = nodes[d["from"]], nodes[d["to"]]
    try:
        p = a.go_to(b)
    except Exception:
        return "rej"
    return "ok " + ids.list(p)


def worker_impl(d):
    """executed in a worker interpreter (props/_twoproc.py): the outcome line of one case"""
    return impl(Case("", d, ()))


def _fields(line):
    return dict(tok.split("=", 1) for tok in line.split(" ") if "=" in tok)


def compare(a, b, case):
    if case.data["op"] != "props":
        return a == b
    fa, fb = _fields(a), _fields(b)
    if set(fa) != set(FIELDS) or set(fb) != set(FIELDS):
        return False
    for k in FIELDS:
        if k in MULTISET_FIELDS:
            if sorted(fa[k].split(",")) != sorted(fb[k].split(",")):
                return False
        elif fa[k] != fb[k]:
            return False
    return True


# ---------------------------------------------------------------- oracle (model-free)
def _kids(n):
    return [c for c in n.children if c is not None]


def _parent_chain(n):
    out = []
    p = n.parent
    while p is not None:
        out.append(p)
        p = p.parent
    return out


def _subtree(n):
    out = [n]
    for c in _kids(n):
        out += _subtree(c)
    return out


def _bfs_ecc(start, inside):
    """eccentricity of `start` in the undirected graph on the node set `inside` (ids of python objects)"""
    dist = {id(start): 0}
    q = collections.deque([start])
    far = 0
    while q:
        x = q.popleft()
        nb = list(_kids(x))
        if x.parent is not None:
            nb.append(x.parent)
        for y in nb:
            if id(y) in inside and id(y) not in dist:
                dist[id(y)] = dist[id(x)] + 1
                far = max(far, dist[id(y)])
                q.append(y)
    return far


def oracle(case):
    """never raises: a derived query that blows up on a tree reached through the public API is a failure"""
    try:
        return _oracle(case)
    except Exception as e:  # noqa: BLE001
        return [f"a derived query raised {type(e).__name__}: {str(e)[:120]}"]


def _oracle(case):
    d = case.data
    _roots, nodes = _build(d)
    ids = core.IdMap(nodes)
    msgs = []
    same = lambda xs, ys: collections.Counter(id(x) for x in xs) == collections.Counter(id(y) for y in ys)
    if d["op"] == "props":
        n = nodes[d["node"]]
        chain = _parent_chain(n)
        top = chain[-1] if chain else n
        sub = _subtree(n)
        got = list(n.ancestors)
        if not same(got, chain):
            msgs.append(f"ancestors {ids.list(got)} != parent chain {ids.list(chain)}")
        # a nested loop: while the outer iteration is suspended, an inner one of the same kind runs to its end
        got = []
        for x in n.descendants:
            got.append(x)
            _ = list(x.descendants), list(x.leaves)
        if not same(got, sub[1:]):
            msgs.append(f"descendants {ids.list(got)} != nodes below {ids.list(sub[1:])}")
        got = list(n.leaves)
        want = [x for x in sub if not _kids(x)]
        if not same(got, want):
            msgs.append(f"leaves {ids.list(got)} != childless nodes of the subtree {ids.list(want)}")
        got = _real(n.siblings)
        want = [] if n.parent is None else [c for c in _kids(n.parent) if c is not n]
        if not same(got, want):
            msgs.append(f"siblings {ids.list(got)} != other children of the parent {ids.list(want)}")
        # neighbours in the parent's child list
        lw = rw = None
        if n.parent is not None:
            slots = list(n.parent.children)
            k = [i for i, c in enumerate(slots) if c is n]
            if len(k) != 1:
                msgs.append("node occurs %d times in its parent's children" % len(k))
            else:
                lw = slots[k[0] - 1] if k[0] > 0 else None
                rw = slots[k[0] + 1] if k[0] + 1 < len(slots) else None
        if n.left_sibling is not lw:
            msgs.append(f"left_sibling {ids(n.left_sibling)} != {ids(lw)}")
        if n.right_sibling is not rw:
            msgs.append(f"right_sibling {ids(n.right_sibling)} != {ids(rw)}")
        got = list(n.node_path)
        want = chain[::-1] + [n]
        if [id(x) for x in got] != [id(x) for x in want]:
            msgs.append(f"node_path {ids.list(got)} != {ids.list(want)}")
        if n.root is not top:
            msgs.append(f"root {ids(n.root)} != {ids(top)}")
        if n.is_root is not (n.parent is None):
            msgs.append(f"is_root {n.is_root}")
        if n.is_leaf is not (len(_kids(n)) == 0):
            msgs.append(f"is_leaf {n.is_leaf}")
        if n.depth != 1 + len(chain):
            msgs.append(f"depth {n.depth} != 1 + {len(chain)} ancestors")
        whole = _subtree(top)
        want = max(1 + len(_parent_chain(x)) for x in whole)
        if n.max_depth != want:
            msgs.append(f"max_depth {n.max_depth} != {want}")
        inside = {id(x) for x in sub}
        want = max(_bfs_ecc(x, inside) for x in sub)
        if n.diameter != want:
            msgs.append(f"diameter {n.diameter} != longest path in the subtree {want}")
        return msgs
    a, b = nodes[d["from"]], nodes[d["to"]]
    ta = (_parent_chain(a) or [a])[-1]
    tb = (_parent_chain(b) or [b])[-1]
    try:
        p = list(a.go_to(b))
    except Exception as e:
        if ta is tb:
            msgs.append(f"go_to refused two nodes of one tree: {type(e).__name__}")
        elif not d.get("hist"):
            # "nodes of different trees are refused" is not one of the optional type / loop checks: the same call in an
            # interpreter started with BIGTREE_CONF_ASSERTIONS="" must be refused as well
            from props import _twoproc
            off = _twoproc.refusal_differs_off("props.C12:worker_impl", d, "rej", case.line, every=3)
            if off is not None:
                msgs.append(f"with BIGTREE_CONF_ASSERTIONS switched off go_to across two trees answers {off[:120]}")
        return msgs
    if ta is not tb:
        msgs.append(f"go_to accepted nodes of different trees: {ids.list(p)}")
        return msgs
    # explicit lowest common ancestor on parent links
    up_a = [a] + _parent_chain(a)
    up_b = [b] + _parent_chain(b)
    in_b = {id(x) for x in up_b}
    lca = next(x for x in up_a if id(x) in in_b)
    want = up_a[:[id(x) for x in up_a].index(id(lca))] + [lca] + up_b[:[id(x) for x in up_b].index(id(lca))][::-1]
    if [id(x) for x in p] != [id(x) for x in want]:
        msgs.append(f"go_to {ids.list(p)} != path through the lowest common ancestor {ids.list(want)}")
    if len({id(x) for x in p}) != len(p):
        msgs.append(f"go_to repeats a node: {ids.list(p)}")
    if not p or p[0] is not a or p[-1] is not b:
        msgs.append(f"go_to end points wrong: {ids.list(p)}")
    for x, y in zip(p, p[1:]):
        if x.parent is not y and y.parent is not x:
            msgs.append(f"go_to step {ids(x)}->{ids(y)} is not a parent/child link")
    return msgs


# ---------------------------------------------------------------- shrinking
def shrink(case):
    d = case.data
    if d["binary"] or d.get("spec2") is not None or d.get("hist"):
        return
    spec = d["spec"]
    keep = {d["node"]} if d["op"] == "props" else {d["from"], d["to"]}
    nodes = core.spec_nodes(spec)
    for idx in range(len(nodes) - 1, 0, -1):
        addr, s = nodes[idx]
        if s[2] or idx in keep:
            continue
        def remove(t, a):
            if len(a) == 1:
                return (t[0], t[1], t[2][:a[0]] + t[2][a[0] + 1:])
            return (t[0], t[1], [remove(c, a[1:]) if k == a[0] else c for k, c in enumerate(t[2])])
        ns = remove(spec, addr)
        ren = lambda x: x - 1 if x > idx else x
        nd = dict(d, spec=ns)
        for key in ("node", "from", "to"):
            if key in nd and nd[key] is not None:
                nd[key] = ren(nd[key])
        yield Case(_line(nd), nd, case.tags)


NOT_READY = False
TECHNIQUE = ("Lean 4 proof (fuel / structural induction on addresses and rose trees: each query as written = its definition) "
             "+ correspondence check of every property on every node and go_to on every ordered pair against the real classes")
LEVEL_TEXT = ("Proof. Lean 4 theorems (C12.*) show, for every tree and every node (a node = root tree + address), that the models "
              "written the way basenode.py / binarynode.py are written equal their first-principles definitions: ancestors = proper "
              "prefixes of the address, nearest first; descendants = pre-order of the subtree minus the node; leaves = its childless "
              "nodes; siblings / left_sibling / right_sibling = the other / neighbouring children of the parent; node_path = all "
              "prefixes root first; root = the empty address; is_root, is_leaf (BinaryNode: both slots empty); depth = |address| + 1 = "
              "1 + number of ancestors; max_depth = height of the whole tree = largest node depth; go_to (the self_path / node_path / "
              "common-node / min-index computation) = up to the lowest common ancestor then down, it starts and ends at the given nodes, "
              "repeats no node, every step is a parent/child link and it has dist(a,b) edges; nodes of different trees are refused; "
              "diameter (the nonlocal-maximum recursion with heapq.nlargest(2, ...), and the BinaryNode variant that skips empty slots) "
              "= the maximum over the nodes of the subtree of the sum of the two largest child heights, and (diameter_longest_path) = the "
              "largest number of edges between two nodes of the subtree, attained by some pair. The model is tied to /repo on every run "
              "by differential testing: all 13 properties on every node and go_to on every ordered pair of all ordered trees with <=6 "
              "(quick) / <=8 (thorough) nodes and all BinaryNode shapes with holes up to 5 / 6 nodes, random trees to 40 nodes, depth 10, "
              "fan-out 8 (incl. wide nodes whose tallest children come last), go_to across two trees; a model-free oracle (parent-chain "
              "walks, own DFS, BFS eccentricities for the diameter, explicit LCA for go_to) re-derives every value from the real objects. History-built trees (warm-up reads, re-parentings incl. across trees, reorderings, refused edits, then the compared reads against the model of the final tree) make stale cached depth / root / ancestors or broken roll-backs visible.")
LEVEL_NOTE = ("Trusted: Lean kernel, axioms <= {propext, Classical.choice, Quot.sound} (audited each run), the hand-written model's "
              "correspondence to basenode.py / binarynode.py as established by the tie (not proved), CPython. Object identity is modelled "
              "by addresses (root ids across trees); generators by the lists they yield; heapq.nlargest(2, l) by sorted(l, reverse=True)[:2]; "
              "the None entries a BinaryNode reports in `siblings` for empty slots are dropped before comparison. ancestors / descendants / "
              "leaves / siblings are compared as multisets by the tie (the theorems prove the exact order); node_path and go_to exactly.")
RULE = RULE + ' Fourth session: BinaryNode moves of the histories also through the stealing left / right / children setters of the new parent.'
RULE = RULE + ' Fifth session: go_to across two trees compared with the checks-off interpreter; descendants / leaves / ancestors consumed while another iteration of the same kind is alive, and inside a nested loop.'
