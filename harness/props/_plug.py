"""Plug the BinaryNode (props/C11.py) and DAGNode (props/C10.py) classes into C02 and C20.

C02: rejected / failing assignments change nothing — the class modules already provide history
generators with faults, adapters and the snapshot oracle (`oracle_c02`).
C20: the same accepted histories in two interpreter processes (checks on / off), compared with each
other, with the model at asrt=1 / asrt=0, plus a battery of readers on the final objects.
"""
from __future__ import annotations
import json
from runner import Case


# ------------------------------------------------------------------ C02
def c02_binary():
    from props import C11 as B
    return (("binary",), B.gen_c02, B.impl, B.oracle_c02_case, B.shrink, B.nontrivial_c02, None)


def c02_dag():
    from props import C10 as D

    def gen(rng, tier):
        out = []
        for d, tags in D.gen_histories(rng, tier, fault_rate=0.5, asrt=1, exhaustive=True):
            out.append(D.mk_case(d, ("dag",) + tuple(tags)))
        return out

    def oracle(case):
        return D.oracle_c02(case.data)

    return (("dag",), gen, D.impl, oracle, D.shrink, D.nontrivial, D.compare)


# ------------------------------------------------------------------ C20 workers (run inside the two processes)
def _binary_battery(nodes):
    import bigtree
    out = {}
    roots = [x for x in nodes if x.parent is None]
    for r in roots:
        k = r.node_name
        out[k + ".pre"] = [n.node_name for n in bigtree.preorder_iter(r)]
        out[k + ".in"] = [n.node_name for n in bigtree.inorder_iter(r)]
        out[k + ".lvl"] = [[n.node_name for n in g] for g in bigtree.levelordergroup_iter(r)]
        out[k + ".dict"] = bigtree.tree_to_dict(r, all_attrs=True)
        out[k + ".nested"] = bigtree.tree_to_nested_dict(r, all_attrs=True)
        out[k + ".print"] = [a + b + n.node_name for a, b, n in bigtree.yield_tree(r)]
        out[k + ".diam"] = r.diameter
        out[k + ".maxd"] = r.max_depth
        out[k + ".leaves"] = [n.node_name for n in r.leaves]
        out[k + ".find"] = [n.path_name for n in bigtree.findall(r, lambda n: n.is_leaf)]
    for x in nodes:
        out[x.node_name + ".q"] = [x.depth, x.path_name, x.is_leaf, x.is_root,
                                   [s.node_name if s else None for s in (x.siblings or ())]]
    return out


def worker_binary(d):
    """history on real BinaryNode objects with this process's setting of the switch"""
    from props import C11 as B
    parts = []
    w = B.World(d["n"], inter=d.get("inter"))
    try:
        with B._Watchdog():
            for op in d["ops"]:
                ok = w.apply(op)
                parts.append(("ok " if ok else "rej ") + w.dump())
    except B.Hang:
        parts.append("hang")
        return {"trace": " ; ".join(parts), "battery": json.dumps({"hang": True})}
    try:
        bat = json.dumps(_binary_battery(w.nodes), sort_keys=True, default=str)
    except Exception as e:  # noqa: BLE001
        bat = json.dumps({"reader-raised": type(e).__name__ + ":" + str(e)[:80]})
    return {"trace": " ; ".join(parts) if parts else "-", "battery": bat}


def _dag_battery(reg):
    import bigtree
    out = {}
    for x in reg:
        k = x.node_name
        out[k + ".anc"] = sorted(n.node_name for n in x.ancestors)
        out[k + ".desc"] = sorted(n.node_name for n in x.descendants)
        out[k + ".sib"] = sorted(n.node_name for n in x.siblings)
        out[k + ".iter"] = sorted((p.node_name, c.node_name) for p, c in bigtree.dag_iterator(x))
        try:
            out[k + ".list"] = sorted(map(tuple, bigtree.dag_to_list(x)))
            out[k + ".dict"] = bigtree.dag_to_dict(x, all_attrs=True)
        except Exception as e:  # noqa: BLE001
            out[k + ".export"] = type(e).__name__
    for a in reg:
        for b in reg:
            try:
                out[a.node_name + ">" + b.node_name] = sorted([n.node_name for n in p] for p in a.go_to(b))
            except Exception as e:  # noqa: BLE001
                out[a.node_name + ">" + b.node_name] = type(e).__name__
    return out


def worker_dag(d):
    from props import C10 as D
    import bigtree.node.dagnode as dn
    tr = D.run_real(d, assertions=dn.ASSERTIONS, with_anc=False)
    trace = " ; ".join(f"{o} {D._fmt_snap(s)}" for o, s, _ in tr[1:])
    # rebuild the final objects for the reader battery (run_real memoises traces, not objects)
    w = D.World(d["names"])
    try:
        for op in d["ops"]:
            w.apply(op)
        names = [x.node_name for x in w.reg]
        if len(set(names)) == len(names):
            bat = json.dumps(_dag_battery(w.reg), sort_keys=True, default=str)
        else:
            bat = json.dumps({"duplicate-names": True})
    except Exception as e:  # noqa: BLE001
        bat = json.dumps({"reader-raised": type(e).__name__ + ":" + str(e)[:80]})
    return {"trace": trace if trace else "-", "battery": bat}


# ------------------------------------------------------------------ C20 plug-ins
_CACHE: dict = {}


def _both(case, fn):
    from props import _twoproc
    key = case.line
    if key not in _CACHE:
        if len(_CACHE) > 50000:
            _CACHE.clear()
        _CACHE[key] = (_twoproc.call("on", fn, case.data), _twoproc.call("off", fn, case.data))
    return _CACHE[key]


def _c20_oracle(case, fn):
    on, off = _both(case, fn)
    msgs = []
    heads = [p.split(" ", 1)[0] for p in on["trace"].split(" ; ")]
    if any(h != "ok" for h in heads if h != "-"):
        return []   # not an accepted history: outside the claim
    if on["trace"] != off["trace"]:
        msgs.append("accepted history gives different stores with the checks off: on=" + on["trace"][-300:] + " off=" + off["trace"][-300:])
    if on["battery"] != off["battery"]:
        a, b = json.loads(on["battery"]), json.loads(off["battery"])
        diff = [k for k in sorted(set(a) | set(b)) if a.get(k) != b.get(k)]
        msgs.append(f"reader battery differs between the two processes at {diff[:5]}")
    return msgs


def c20_binary():
    from props import C11 as B
    fn = "props._plug:worker_binary"

    def gen(rng, tier):
        cases, seen = [], set()
        pool = list(B.corpus()) + [d for d, _t in B.gen_exhaustive(3)] + B.gen_histories(rng, tier, 0.0)
        for d in pool:
            d = dict(d, ops=[list(o[:3]) + ["none"] if len(o) == 4 else list(o) for o in d["ops"]])
            acc = B.accepted_subhistory(d)
            if not acc["ops"]:
                continue
            c = B.mk_case(acc, ("binary", "accepted", "n=%d" % acc["n"], "ops=%d" % (10 * (len(acc["ops"]) // 10))))
            if c.line not in seen:
                seen.add(c.line)
                cases.append(c)
        return cases

    def impl(case):
        on, off = _both(case, fn)
        return "on " + on["trace"] + " || off " + off["trace"]

    return (("binary",), gen, impl, lambda c: _c20_oracle(c, fn), B.shrink, lambda c: len(c.data["ops"]) >= 3, None)


def c20_dag():
    from props import C10 as D
    fn = "props._plug:worker_dag"

    def gen(rng, tier):
        cases, seen = [], set()
        for d, tags in D.gen_histories(rng, tier, fault_rate=0.0, asrt=1, exhaustive=(tier == "thorough")):
            tr = D.run_real(d, assertions=True, with_anc=False)
            k = 0
            for o, _s, _a in tr[1:]:
                if o != "ok":
                    break
                k += 1
            if k == 0:
                continue
            acc = dict(d, ops=d["ops"][:k])
            c = D.mk_case(acc, ("dag", "accepted", "n=%d" % acc["n"], "ops=%d" % (10 * (k // 10))))
            if c.line not in seen:
                seen.add(c.line)
                cases.append(c)
        return cases

    def impl(case):
        on, off = _both(case, fn)
        return "on " + on["trace"] + " || off " + off["trace"]

    def compare(a, b, case=None):
        if a == b:
            return True
        try:
            a1, a2 = a[3:].split(" || off ")
            b1, b2 = b[3:].split(" || off ")
        except ValueError:
            return False
        return D.compare(a1, b1, case) and D.compare(a2, b2, case)

    return (("dag",), gen, impl, lambda c: _c20_oracle(c, fn), D.shrink, lambda c: len(c.data["ops"]) >= 3, compare)
