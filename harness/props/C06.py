"""C06 — exports are complete; export o import = identity.

Formats: dict, nested dict, pandas DataFrame, polars DataFrame (one model: `rows`), Newick, and the
printed tree (real `print_tree` -> real `str_to_tree`; its model and theorem belong to C18, the
model side of the tie is the specification "the same tree").

Protocol (handler `Drv/C06.lean`):
  fmt=<dict|rows|nested|newick|print> op=<exp|rt|parse> <options> start=<k> T <tree>
Output: the canonical exported object (`exp`), the tree rebuilt by the matching constructor (`rt`),
or the tree parsed from a literal Newick string (`parse`); `rej` for any exception.
"""
from __future__ import annotations
import io, contextlib, itertools, math, random, re, zlib
import core
from core import hx
from runner import Case
from props import _d_hist as H

THEOREMS = [
    "C06.record_exact", "C06.record_exact_all", "C06.rows_complete", "C06.dict_complete_assign", "C06.dict_complete", "C06.paths_distinct",
    "C06.nested_complete", "C06.nested_empty", "C06.dict_roundtrip", "C06.nested_roundtrip",
    "C06.rows_roundtrip", "C06.rows_roundtrip_attrs",
    "C06.newick_table_ok", "C06.newick_table_is_generated", "C06.newick_stack_invariant", "C06.newick_roundtrip",
    "C06.newick_quoting", "C06.newick_roundtrip_attrs",
]
PROOF_IMPORTS = ["BigtreeProofs.Properties.C06"]

RULE = ("trees: all ordered shapes up to N nodes x every start node x the gate grid (max_depth, skip_depth, leaf_only) "
        "+ random trees (6-30 nodes) + LARGE trees (101-400 nodes: a node with >=100 children / depth 40-60 / mixed) with sparse, "
        "late-appearing attributes and attributes whose type changes after row 100 (None..int, int..str) for dict/pandas/polars "
        "+ Newick attribute values that are == but of different types (True/1/1.0, False/0/0.0, 2/2.0) in one tree and across "
        "consecutive cases + a 'renamed' history (tree built under placeholder names, every path read, nodes renamed through the "
        "public name attribute, then exported) on ~30% of the small and random dict/DataFrame/nested cases with sibling-unique names from per-format hostile alphabets (Newick specials, blanks, "
        "double quotes, dots, digits, non-ASCII; never the separator, never ' in the valid stream), attribute maps with "
        "ints/strings/None; options name_key/name_col, parent_key/parent_col, path_col, attr_dict, all_attrs, separator, "
        "start node != root; pandas and polars through the real libraries; a malformed Newick stream (all short strings "
        "over the special characters + mutated valid strings). A case is non-trivial when the exported subtree has >= 3 "
        "nodes (parse: the string has >= 3 characters); distinct = distinct protocol lines")
EXHAUSTIVE = {
    "quick": "tree_to_dict: all ordered trees <= 5 nodes x every start node x max_depth 0..3 x skip_depth 0..2 x leaf_only; "
             "newick_to_tree: every string of length <= 3 over the 10 characters ( ) , : ' [ ] = A 1",
    "thorough": "tree_to_dict / tree_to_dataframe / tree_to_polars: all ordered trees <= 6 nodes x every start node x "
                "max_depth 0..4 x skip_depth 0..3 x leaf_only; newick_to_tree: every string of length <= 4 over the 10 "
                "characters ( ) , : ' [ ] = A 1",
}
MODELLED = [
    "a DataFrame is modelled as the list of record dicts handed to pd.DataFrame / pl.DataFrame plus the column "
    "normalisation (columns in order of first appearance, missing -> null); row order kept by to_dict/to_dicts",
    "a Python dict is an insertion-ordered association list; node attributes are null | int | str",
    "the separator is one character; every exception is modelled as 'rejected'",
    "floats occur only as Newick attribute values and are presented to the model as their str() text (0.0 as the falsy int 0): "
    "the writer formats only truthy values and never quotes numbers",
    "float() in newick_to_tree is modelled only for blank-padded ASCII digit strings (the generated alphabets contain no other float syntax)",
    "assert_dataframe_no_duplicate_attribute is not modelled (exported frames have distinct paths)",
    "the printed-tree round trip is tied real-to-real (print_tree -> str_to_tree) against the specification 'same tree'; its model is C18's",
]
ASSUMPTIONS = [
    "pandas up-casts an int column with missing values to float and reads missing values back as NaN; values are compared numerically, NaN/None as null",
    "polars columns are typed: a column holding both ints and strings becomes a string column (ints as decimal text); the tie "
    "models this coercion, the oracle accepts it, the theorems are about type-homogeneous columns",
    "names are non-empty, sibling-unique, free of the separator (and of ' for Newick; of leading blanks and style glyphs for print)",
    "attribute keys are not Node property/method names",
]

SEPS = ["/", "/", "/", ".", "|", "\\"]
GENERAL_NAMES = ["a", "b", "c", "ab", "ba", "a b", "a.b", "b.", "0", "1", "10", 'x"y', "(", ")", "[z]", "=", ":", ",",
                 "a:b", "(a,b)", "é", "名", "a-b", "A", "_u", " a", "a ", "a|b", "a\\b", "a/b", "name"]
NEWICK_NAMES = ["a", "b", "ab", "a b", "a.b", "0", "1", "10", "007", 'x"y', "(", ")", "[", "]", "=", ":", ",", "a:b",
                "(a,b)", "[k=v]", "a=b", ")(", "::", " a", "a ", "node0", "&&NHX:", "B", "C d", " (a", "b: ", " , ", "a\tb", "x[ "]
SIMPLE_NAMES = ["a", "b", "c", "d", "e", "f", "g", "h"]
PRINT_NAMES = ["a", "b", "c", "ab", "a b", "a.b", "0", "10", "x(y", "a:b", "[z]", "A", "q,r", "a=b", "b c d"]
KEYS = ["A", "B", "K1", "C c", "Z.z", "_h", "names", "name_2"]
NEWICK_KEYS = ["A", "B", "K1", "C D", "K=", "(X)"]
STR_VALS = ["x", "y z", "q:r", "", "1", "U,V", "[w]", "a=b", '"']
COLNAMES = ["AGE", "col b", "Q", "name", "A", "path"]


# ---------------------------------------------------------------- value canonicalisation
def cval(v) -> str:
    if hasattr(v, "item") and not isinstance(v, (str, bytes)):
        try:
            v = v.item()
        except Exception:
            pass
    if v is None:
        return "n"
    if isinstance(v, bool):
        return "t" if v else "f"
    if isinstance(v, int):
        return "i%d" % v
    if isinstance(v, float):
        if math.isnan(v):
            return "n"
        if v == int(v):
            return "i%d" % int(v)
        return "F%r" % v
    if isinstance(v, str):
        return "s" + hx(v)
    try:
        import pandas as pd
        if pd.isna(v):
            return "n"
    except Exception:
        pass
    return "U" + type(v).__name__


def crec(items) -> str:
    items = list(items)
    if not items:
        return "-"
    return ",".join(hx(str(k)) + ":" + cval(v) for k, v in items)


def cbuilt(node) -> str:
    attrs = node.describe(exclude_attributes=["name"], exclude_prefix="_")
    return " ".join(["(", hx(node.node_name), crec(attrs)] + [cbuilt(c) for c in node.children] + [")"])


def cnames(node) -> str:
    return " ".join(["(", hx(node.node_name), "-"] + [cnames(c) for c in node.children] + [")"])


# ---------------------------------------------------------------- protocol line
def _line(d) -> str:
    fmt, op = d["fmt"], d["op"]
    if fmt == "newick" and op == "parse":
        return f"fmt=newick op=parse s={hx(d['s'])} la={hx(d.get('la', 'length'))} ap={hx(d.get('ap', '&&NHX:'))}"
    parts = [f"fmt={'rows' if fmt in ('pandas', 'polars') else fmt}", f"op={op}"]
    if fmt in ("pandas", "polars"):
        parts.append("lib=" + fmt)
    parts.append("sep=" + hx(d.get("sep", "/")))
    if fmt == "print":
        parts.append("style=" + d["style"])
    elif fmt == "newick":
        parts += [f"inn={int(d['inn'])}", "la=" + hx(d["la"]), "ls=" + hx(d["ls"]),
                  "al=" + (",".join(hx(k) for k in d["al"]) or "-"), "ap=" + hx(d["ap"]), "as=" + hx(d["as"])]
    else:
        parts += ["pc=" + hx(d.get("pc", "")), "nk=" + hx(d["nk"]), "pk=" + hx(d.get("pk", "")),
                  "ad=" + (",".join(hx(k) + ":" + hx(v) for k, v in d["ad"]) or "-"),
                  f"all={int(d['all'])}", f"md={d['md']}", f"sd={d.get('sd', 0)}", f"lo={int(d.get('lo', False))}"]
    parts.append(f"start={d['start']}")
    return " ".join(parts) + " T " + enc_tree_f(d["spec"])


def _enc_val_f(v) -> str:
    """Floats occur only in Newick attribute values. The writer formats a value only when it is
    truthy and never quotes a number, so a float is presented to the model as its `str()` text
    (a string without special characters) and 0.0 as the (falsy, never formatted) integer 0."""
    if isinstance(v, float):
        return core.enc_val(0) if v == 0.0 else core.enc_val(repr(v))
    return core.enc_val(v)


def enc_tree_f(t, counter=None) -> str:
    if counter is None:
        counter = itertools.count()
    name, attrs, kids = t
    i = next(counter)
    at = ",".join(hx(k) + ":" + _enc_val_f(v) for k, v in attrs.items()) if attrs else "-"
    parts = ["(", str(i), hx(name), at]
    for k in kids:
        parts.append(enc_tree_f(k, counter))
    parts.append(")")
    return " ".join(parts)


def mk(d, tags=()):
    return Case(_line(d), d, tags)


def rehydrate(case):
    return Case(case.line, case.data)


# ---------------------------------------------------------------- generators
def _names_for(fmt, sep):
    pool = {"newick": NEWICK_NAMES, "print": PRINT_NAMES}.get(fmt, GENERAL_NAMES)
    return [n for n in pool if sep not in n]


def _attr_plan(rng, keys, homogeneous):
    """key -> 'int' | 'str' | 'mixed'"""
    return {k: (rng.choice(["int", "str"]) if homogeneous or rng.random() < 0.8 else "mixed") for k in keys}


def _rand_val(rng, kind):
    if kind == "mixed":
        kind = rng.choice(["int", "str"])
    r = rng.random()
    if r < 0.15:
        return None
    if kind == "int":
        return rng.choice([0, 1, 2, 7, 30, 90, -3, 120])
    return rng.choice(STR_VALS)


def with_attrs(spec, rng, keys, plan, p=0.6):
    name, _a, kids = spec
    attrs = {}
    ks = list(keys)
    rng.shuffle(ks)
    for k in ks:
        if rng.random() < p:
            attrs[k] = _rand_val(rng, plan[k])
    return [name, attrs, [with_attrs(c, rng, keys, plan, p) for c in kids]]


def make_tree(rng, shape, fmt, sep, keys=None, simple=False, homogeneous=False):
    names = SIMPLE_NAMES if simple else _names_for(fmt, sep)
    spec = core.label_sibling_unique(shape, rng, names)
    keys = KEYS[: rng.randint(0, len(KEYS))] if keys is None else keys
    plan = _attr_plan(rng, keys, homogeneous)
    return with_attrs(spec, rng, keys, plan), keys


def depth_of(spec, start):
    for i, (addr, _s) in enumerate(core.spec_nodes(spec)):
        if i == start:
            return len(addr) + 1
    raise IndexError(start)


def flat_opts(rng, fmt, keys, spec, rt):
    """options of the dict / dataframe exporters; rt=True keeps them importable"""
    d = {}
    d["nk"] = rng.choice(["name", "name", "name", "", "NAME", "n k"])
    d["pk"] = "" if rt and rng.random() < 0.7 else rng.choice(["", "PAR", "p p"] if rt else ["", "parent", "PAR"])
    if fmt != "dict":
        d["pc"] = rng.choice(["path", "path", "P"] if rt else ["path", "path", "P", ""])
        if not d["pc"] and not d["nk"]:
            d["nk"] = "name"
    mode = rng.random()
    d["all"] = mode < 0.45
    ad = []
    if mode >= 0.3:
        cand = list(keys) + ["ZZ"]
        rng.shuffle(cand)
        cols = COLNAMES[:]
        rng.shuffle(cols)
        for k in cand[: rng.randint(0, min(3, len(cand)))]:
            col = cols.pop() if rng.random() < 0.7 else k
            if rt and col in ("name", "path"):
                col = k
            ad.append([k, col])
    d["ad"] = ad
    return d


def gates(rng, depth):
    return {"md": rng.choice([0, 0, 1, 2, 3, depth, depth + 1]), "sd": rng.choice([0, 0, 1, 2, 3]),
            "lo": rng.random() < 0.3}


def newick_opts(rng, keys):
    return {"inn": rng.random() < 0.85, "la": rng.choice(["", "", "L"]), "ls": rng.choice([":", ":", ":", ";"]),
            "al": [k for k in keys if rng.random() < 0.6] if rng.random() < 0.6 else [],
            "ap": rng.choice(["&&NHX:", "&&NHX:", "", "X"]), "as": rng.choice([":", ":", ":", "|"])}


COLLIDING = [True, 1, 1.0, False, 0, 0.0, 2, 2.0, "1", "True", "2.0", 25, -3.0]


def newick_tree(rng, shape, quote=False, collide=None, rot=0):
    """collide: None | True — attribute values drawn from ==-equal values of different types
    (True/1/1.0, False/0/0.0, 2/2.0, and their texts); `rot` rotates the pool so that consecutive
    cases assign different types to the same positions"""
    names = NEWICK_NAMES + (["a'b", "'", "it's"] if quote else [])
    spec = core.label_sibling_unique(shape, rng, names)
    keys = NEWICK_KEYS[: rng.randint(1 if collide else 0, len(NEWICK_KEYS))]
    lmode = rng.random()
    ctr = itertools.count(rot)

    def go(s):
        name, _a, kids = s
        attrs = {}
        for k in keys:
            if collide:
                if rng.random() < 0.85:
                    attrs[k] = COLLIDING[next(ctr) % len(COLLIDING)] if rng.random() < 0.7 else rng.choice(COLLIDING)
            elif rng.random() < 0.6:
                attrs[k] = rng.choice([1, 0, 25, "x", "y z", "q:r", "", "[w]", "U,V", "a=b", None, '"', True, False])
        r = rng.random()
        if lmode < 0.8 or r < 0.9:
            attrs["L"] = rng.choice([1, 2, 35, 100, "12", "007"])
        elif r < 0.95:
            attrs["L"] = rng.choice([0, None, ""])
        return [name, attrs, [go(c) for c in kids]]
    return go(spec), keys


def simple_writer(spec, with_len, with_attr):
    """generator-side Newick writer used only to seed the malformed stream"""
    name, attrs, kids = spec
    s = name
    if with_len and "L" in attrs:
        s += ":" + str(attrs["L"])
    if with_attr:
        items = [f"{k}={v}" for k, v in attrs.items() if k != "L" and v]
        if items:
            s += "[&&NHX:" + ":".join(items) + "]"
    if kids:
        s = "(" + ",".join(simple_writer(k, with_len, with_attr) for k in kids) + ")" + s
    return s


MAL_NAMES = ["A", "B", "C", "X", "A B", "1", "12", 'A"', "AB", "B 2", " 7", "'A(B'", "'X,'"]
MAL_CHARS = "()[]=:,'AB1 "


def malformed_strings(rng, n):
    out = []
    for _ in range(n):
        shape = core.random_shape(rng, rng.randint(1, 8))
        spec = core.label_sibling_unique(shape, rng, MAL_NAMES)

        def go(s):
            attrs = {}
            if rng.random() < 0.5:
                attrs["L"] = rng.choice([1, 5, 12, 30])
            if rng.random() < 0.4:
                attrs[rng.choice(["K", "W2"])] = rng.choice(["V", "V W", "3", "'Q:R'"])
            if rng.random() < 0.15:
                attrs["M"] = rng.choice(["U", "9"])
            return [s[0], attrs, [go(c) for c in s[2]]]
        s = simple_writer(go(spec), rng.random() < 0.7, rng.random() < 0.7)
        k = rng.choice([0, 1, 1, 1, 2, 3])
        for _m in range(k):
            r = rng.random()
            pos = rng.randrange(len(s) + 1)
            if r < 0.35 and s:
                pos = min(pos, len(s) - 1)
                s = s[:pos] + s[pos + 1:]
            elif r < 0.75:
                s = s[:pos] + rng.choice(MAL_CHARS) + s[pos:]
            elif r < 0.85 and len(s) >= 2:
                pos = min(pos, len(s) - 2)
                s = s[:pos] + s[pos + 1] + s[pos] + s[pos + 2:]
            elif r < 0.93:
                s = s[:pos]
            else:
                q = rng.randrange(len(s) + 1)
                a, b = min(pos, q), max(pos, q)
                s = s[:b] + s[a:b] + s[b:]
        out.append(s)
    return out


def shape_from_parents(parents):
    kids = [[] for _ in parents]
    for v in range(1, len(parents)):
        kids[parents[v]].append(v)
    def build(u):
        return [build(c) for c in kids[u]]
    return build(0)


def large_shape(rng, n, style):
    """101..400 nodes: 'wide' (a node with >= 100 children), 'deep' (depth 40-60), 'mixed'"""
    parents = [0] * n
    depth = [1] * n
    if style == "wide":
        k = rng.randint(100, min(n - 1, 300))
        for v in range(1, n):
            parents[v] = 0 if v <= k else rng.randrange(1, v)
            depth[v] = depth[parents[v]] + 1
    elif style == "deep":
        for v in range(1, n):
            p = v - 1 if rng.random() < 0.75 else rng.randrange(v)
            if depth[p] >= 55:
                p = rng.randrange(max(1, v // 2))
            parents[v] = p
            depth[v] = depth[p] + 1
    else:
        for v in range(1, n):
            p = rng.randrange(max(0, v - 12), v) if rng.random() < 0.6 else rng.randrange(v)
            if depth[p] >= 40:
                p = 0
            parents[v] = p
            depth[v] = depth[p] + 1
    return shape_from_parents(parents)


LARGE_KEYS = ["late", "N2I", "I2S", "SP", "LI", "S"]


def large_tree(rng, n, style):
    """sparse / late-appearing attributes and attributes whose type changes after row 100
    (None... then int, int... then str), by pre-order index = export row"""
    shape = large_shape(rng, n, style)
    keys = [k for k in LARGE_KEYS if rng.random() < 0.7] or ["late"]
    t0 = {k: rng.randint(min(101, n - 1), n - 1) for k in keys}

    def attrer(i):
        a = {}
        for k in keys:
            t = t0[k]
            if k == "late":
                if i == t:
                    a[k] = "v"
            elif k == "N2I":
                a[k] = None if i < t else i
            elif k == "I2S":
                if rng.random() < 0.8:
                    a[k] = i if i < t else "s%d" % i
            elif k == "SP":
                if rng.random() < 0.03:
                    a[k] = rng.choice([0, 7, 30])
            elif k == "LI":
                if i >= t and rng.random() < 0.5:
                    a[k] = i
            elif k == "S":
                if rng.random() < 0.5:
                    a[k] = rng.choice(["x", "y z", "", "1"])
        return a
    spec = core.label(shape, lambda i, d, k, p: "n%d" % i, attrer)
    def tolist(t):
        return [t[0], t[1], [tolist(c) for c in t[2]]]
    return tolist(spec), keys


def d10_witness():
    return ["r", {}, [["c%d" % i, ({"late": "v"} if i == 120 else {}), []] for i in range(150)]]


def gen(rng: random.Random, tier: str):
    cases = []
    quick = tier == "quick"
    add = cases.append

    # ---- corpus: skip_depth on nodes deeper than 4 (mutant of the property text), deep chains with side branches
    deep_shapes = [
        [[[[[[]]]]]],
        [[[[[[], []], []]], []], []],
        [[], [[[[[[[]]]], []]]]],
        [[[[[[[[]]]]]]]],
    ]
    for shape in deep_shapes:
        for sd in (1, 2, 3, 4, 5, 6):
            for fmt in ("dict", "pandas", "polars"):
                spec, keys = make_tree(rng, shape, fmt, "/", simple=True, homogeneous=True)
                d = {"fmt": fmt, "op": "exp", "spec": spec, "start": 0, "sep": "/", "nk": "name", "pk": "parent",
                     "ad": [[k, k] for k in keys[:2]], "all": False, "md": rng.choice([0, 0, 6, 7]), "sd": sd, "lo": False}
                if fmt != "dict":
                    d["pc"] = "path"
                add(mk(d, ("corpus", "skip_depth>0,depth>=5", fmt)))
    # ---- corpus: D10 (tree_to_polars inferred the schema from the first 100 rows only)
    for fmt in ("dict", "pandas", "polars"):
        for op in ("exp", "rt"):
            for allattrs in (False, True):
                d = {"fmt": fmt, "op": op, "spec": d10_witness(), "start": 0, "sep": "/", "nk": "name", "pk": "",
                     "ad": [] if allattrs else [["late", "late"]], "all": allattrs, "md": 0, "sd": 0, "lo": False}
                if fmt != "dict":
                    d["pc"] = "path"
                if allattrs:
                    d["full"] = True
                add(mk(d, ("corpus", "D10-late-attribute", fmt, op)))
    # ---- large trees (101-400 nodes) with sparse / late attributes, late type changes
    for k in range(9 if quick else 90):
        style = ["wide", "deep", "mixed"][k % 3]
        n = rng.randint(101, 400) if k else rng.randint(1001, 1200)     # one tree beyond 1000 rows
        spec, keys = large_tree(rng, n, style)
        depth = max(len(a) for a, _s in core.spec_nodes(spec)) + 1
        for fmt in ("dict", "pandas", "polars"):
            for op in ("exp", "rt"):
                full = op == "rt" and rng.random() < 0.6
                d = {"fmt": fmt, "op": op, "spec": spec, "sep": "/", "start": 0 if full or rng.random() < 0.7 else rng.randrange(n)}
                if full:
                    d.update({"nk": "name", "pk": "", "ad": [], "all": True, "md": 0, "sd": 0, "lo": False, "full": True})
                else:
                    allattrs = rng.random() < 0.5
                    d.update({"nk": rng.choice(["name", "NAME"]), "pk": "" if op == "rt" else rng.choice(["", "PAR"]),
                              "all": allattrs, "ad": [] if allattrs else [[kk, kk.upper() + "_"] for kk in keys if rng.random() < 0.7],
                              "md": rng.choice([0, 0, 0, 2, depth - 1]), "sd": rng.choice([0, 0, 1]), "lo": rng.random() < 0.2})
                if fmt != "dict":
                    d["pc"] = "path"
                add(mk(d, ("large", style, fmt, op, "nodes>100")))
    # ---- Newick: attribute values that are == but of different types (True/1/1.0, False/0/0.0, 2/2.0),
    #      in one tree and across consecutive cases of the run
    for k, shape in enumerate(list(core.all_shapes_upto(4 if quick else 5)) +
                              [core.random_shape(rng, rng.randint(5, 20)) for _ in range(60 if quick else 600)]):
        for rot in (0, 1, 2):
            spec, keys = newick_tree(rng, shape, collide=True, rot=rot + k)
            d = {"fmt": "newick", "op": ["exp", "rt", "exp"][rot], "spec": spec, "sep": "/", "start": 0,
                 "inn": True, "la": rng.choice(["", "", "L"]), "ls": ":", "al": list(keys), "ap": rng.choice(["&&NHX:", ""]),
                 "as": ":", "full": True}
            add(mk(d, ("collide", "newick", d["op"])))
    # ---- exhaustive gate grid
    nmax_dict = 5 if quick else 6
    nmax_rows = 4 if quick else 6
    md_grid = [0, 1, 2, 3] if quick else [0, 1, 2, 3, 4]
    sd_grid = [0, 1, 2] if quick else [0, 1, 2, 3]
    for shape in core.all_shapes_upto(nmax_dict):
        n = core.shape_size(shape)
        for fmt in ("dict", "pandas", "polars"):
            if fmt != "dict" and n > nmax_rows:
                continue
            spec, keys = make_tree(rng, shape, fmt, "/", simple=(rng.random() < 0.5), homogeneous=True)
            for start in range(n):
                for md in md_grid:
                    for sd in sd_grid:
                        for lo in (False, True):
                            d = {"fmt": fmt, "op": "exp", "spec": spec, "start": start, "sep": "/"}
                            d.update(flat_opts(rng, fmt, keys, spec, False))
                            d.update({"md": md, "sd": sd, "lo": lo})
                            add(mk(d, ("grid", fmt, "exp", "n=%d" % n)))
        # nested: max_depth only, never below the start node's depth
        spec, keys = make_tree(rng, shape, "nested", "/")
        for start in range(n):
            dep = depth_of(spec, start)
            for md in [0] + [m for m in range(1, 6) if m >= dep]:
                d = {"fmt": "nested", "op": rng.choice(["exp", "exp", "rt"]), "spec": spec, "start": start, "sep": "/",
                     "nk": rng.choice(["name", "name", "NAME", ""]), "ck": rng.choice(["children", "KIDS"]), "md": md}
                o = flat_opts(rng, "dict", keys, spec, d["op"] == "rt")
                d.update({"ad": o["ad"], "all": o["all"]})
                add(mk(d, ("grid", "nested", d["op"], "n=%d" % n)))
    # ---- round trips on all small shapes, full exports and gated / partial ones
    reps = 2 if quick else 6
    for shape in core.all_shapes_upto(5 if quick else 6):
        n = core.shape_size(shape)
        for _ in range(reps):
            for fmt in ("dict", "nested", "pandas", "polars"):
                sep = rng.choice(SEPS)
                spec, keys = make_tree(rng, shape, fmt, sep, homogeneous=(fmt == "polars" or rng.random() < 0.5))
                full = rng.random() < 0.6
                d = {"fmt": fmt, "op": "rt", "spec": spec, "sep": sep, "start": 0 if full else rng.randrange(n)}
                if full:
                    d.update({"nk": "name", "pk": "", "ad": [], "all": True, "md": 0, "sd": 0, "lo": False, "full": True})
                    if fmt in ("pandas", "polars"):
                        d["pc"] = rng.choice(["path", "P"])
                else:
                    d.update(flat_opts(rng, fmt, keys, spec, True))
                    d.update(gates(rng, core.shape_depth(shape)))
                if fmt == "nested":
                    d["ck"] = "children"
                    d["sd"], d["lo"] = 0, False
                    d.pop("pk", None); d.pop("pc", None)
                    dep = depth_of(spec, d["start"])
                    if d["md"] and d["md"] < dep:
                        d["md"] = dep
                if rng.random() < 0.3:
                    d["hist"] = "rename"
                add(mk(d, ("small-rt", fmt, "full" if full else "partial") + (("renamed",) if d.get("hist") else ())))
            # print
            spec, _k = make_tree(rng, shape, "print", "/", keys=[])
            for style in (["const", "ansi"] if quick else ["ansi", "ascii", "const", "const_bold", "rounded", "double"]):
                add(mk({"fmt": "print", "op": "rt", "spec": spec, "sep": "/", "start": rng.choice([0, 0, rng.randrange(n)]),
                        "style": style}, ("small-rt", "print", style)))
            # newick
            for _j in range(2 if quick else 4):
                spec, keys = newick_tree(rng, shape)
                full = rng.random() < 0.5
                d = {"fmt": "newick", "op": rng.choice(["rt", "rt", "exp"]), "spec": spec, "sep": "/",
                     "start": 0 if full else rng.randrange(n)}
                if full:
                    d.update({"inn": True, "la": rng.choice(["", "L"]), "ls": ":", "al": [k for k in keys if rng.random() < 0.7],
                              "ap": "&&NHX:", "as": ":", "full": True})
                else:
                    d.update(newick_opts(rng, keys))
                add(mk(d, ("small", "newick", d["op"], "full" if full else "opts")))
    # ---- random larger trees
    nr = 120 if quick else 1200
    for _ in range(nr):
        size = rng.randint(6, 30)
        shape = core.random_shape(rng, size)
        depth = core.shape_depth(shape)
        for fmt in ("dict", "nested", "pandas", "polars"):
            sep = rng.choice(SEPS)
            spec, keys = make_tree(rng, shape, fmt, sep, homogeneous=(fmt == "polars" or rng.random() < 0.5))
            for op in ("exp", "rt"):
                full = op == "rt" and rng.random() < 0.5
                d = {"fmt": fmt, "op": op, "spec": spec, "sep": sep, "start": 0 if full else rng.choice([0, rng.randrange(size)])}
                if full:
                    d.update({"nk": "name", "pk": "", "ad": [], "all": True, "md": 0, "sd": 0, "lo": False, "full": True})
                    if fmt in ("pandas", "polars"):
                        d["pc"] = "path"
                else:
                    d.update(flat_opts(rng, fmt, keys, spec, op == "rt"))
                    d.update(gates(rng, depth))
                if fmt == "nested":
                    d["ck"] = "children"
                    d["sd"], d["lo"] = 0, False
                    d.pop("pk", None); d.pop("pc", None)
                    dep = depth_of(spec, d["start"])
                    if d["md"] and d["md"] < dep:
                        d["md"] = dep
                if rng.random() < 0.3:
                    d["hist"] = "rename"
                add(mk(d, ("random", fmt, op, "depth>=5" if depth >= 5 else "depth<5",
                           "full" if full else "opts", "start!=root" if d["start"] else "start=root")
                       + (("renamed",) if d.get("hist") else ())))
        spec, keys = newick_tree(rng, shape, quote=(rng.random() < 0.1))
        for op in ("exp", "rt", "rt"):
            full = op == "rt" and rng.random() < 0.5
            d = {"fmt": "newick", "op": op, "spec": spec, "sep": "/", "start": 0 if full else rng.choice([0, rng.randrange(size)])}
            if full:
                d.update({"inn": True, "la": rng.choice(["", "L"]), "ls": ":", "al": [k for k in keys if rng.random() < 0.7],
                          "ap": "&&NHX:", "as": ":", "full": True})
            else:
                d.update(newick_opts(rng, keys))
            add(mk(d, ("random", "newick", op, "full" if full else "opts")))
        spec, _k = make_tree(rng, shape, "print", "/", keys=[])
        add(mk({"fmt": "print", "op": "rt", "spec": spec, "sep": "/", "start": rng.choice([0, 0, rng.randrange(size)]),
                "style": rng.choice(["ansi", "ascii", "const", "const_bold", "rounded", "double"])}, ("random", "print")))
    # ---- malformed Newick stream
    alpha = "(),:'[]=A1"
    for L in range(1, (3 if quick else 4) + 1):
        for tup in itertools.product(alpha, repeat=L):
            add(mk({"fmt": "newick", "op": "parse", "s": "".join(tup)}, ("parse", "allstrings", "len=%d" % L)))
    for s in malformed_strings(rng, 2500 if quick else 30000):
        if s:
            add(mk({"fmt": "newick", "op": "parse", "s": s, "la": rng.choice(["length", "L"]),
                    "ap": rng.choice(["&&NHX:", "&&NHX:", ""])}, ("parse", "mutated")))
    # ---- the same requests on history-built trees (depth / path memos of an implementation must not survive the edits)
    extra = []
    for c in cases:
        if "corpus" in c.tags or "large" in " ".join(c.tags):
            continue
        if c.data["fmt"] in ("dict", "nested", "pandas", "polars", "print") and rng.random() < 0.2:
            h = with_edit_history(rng, c)
            if h is not None:
                extra.append(h)
    cases += extra
    return cases


def nontrivial(case):
    d = case.data
    if d["op"] == "parse":
        return len(d["s"]) >= 3
    nodes = core.spec_nodes(d["spec"])
    return core.spec_size(nodes[d["start"]][1]) >= 3


# ---------------------------------------------------------------- implementation side
def _build(d):
    """hist='rename': the tree is built under placeholder names, something reads every node's
    path, then the nodes are renamed through the public `name` attribute (no structural change
    afterwards) - the final tree is the same, reached by a different history"""
    if d.get("hist") == "rename":
        ctr = itertools.count()
        def tmp(t):
            i = next(ctr)
            return ["t%d_" % i, t[1], [tmp(c) for c in t[2]]]
        root, nodes = core.build_node_tree(tmp(d["spec"]), sep=d.get("sep", "/"))
        _paths = [n.path_name for n in nodes]
        _reprs = [repr(n) for n in nodes[:3]]
        for n, (_a, sp) in zip(nodes, core.spec_nodes(d["spec"])):
            n.name = sp[0]
        return root, nodes, nodes[d["start"]]
    if d.get("hist") == "edits":
        # the tree reaches d["spec"] through a history: built as hinit, every derived property read (depth, max_depth,
        # path_name, a depth-bounded iteration), then moved / re-attached / re-ordered / emptied-and-refilled
        import bigtree
        root, objs = core.build_node_tree(d["hinit"], sep=d.get("sep", "/"))
        for n in objs:
            _ = (n.depth, n.max_depth, n.path_name, n.is_leaf, n.get_attr("depth"))
        _ = list(bigtree.preorder_iter(root, max_depth=2)), list(bigtree.levelorder_iter(root, max_depth=3))
        for e in d["hedits"]:
            H.apply_real(objs, e)
            if e[0] in ("move", "delre"):
                _ = [n.depth for n in objs[:3]]
        _f, order = H.final(d["hinit"], d["hedits"])
        nodes = [objs[i] for i in order]
        return root, nodes, nodes[d["start"]]
    root, nodes = core.build_node_tree(d["spec"], cls=_prop_class(d), sep=d.get("sep", "/"))
    return root, nodes, nodes[d["start"]]


_PROP = {}


def _prop_class(d):
    """Requested attributes are read with node.get_attr(key), i.e. getattr: a user subclass may supply them through a
    read-only property (or a class-level default) instead of the instance dictionary.  For a third of the
    attr_dict requests (a function of the case) the requested keys live in private fields `_p_<key>` behind
    properties; the record must carry the same values.  None (= plain Node) otherwise."""
    if d.get("all") or not d.get("ad") or d["fmt"] not in ("dict", "nested", "pandas", "polars"):
        return None
    keys = tuple(sorted({k for k, _c in d["ad"]}))
    if zlib.crc32(repr((d["fmt"], keys, d["spec"])).encode()) % 3 != 0:
        return None
    if keys not in _PROP:
        from bigtree import Node
        ns = {k: property(lambda self, _k=k: self.__dict__.get("_p_" + _k)) for k in keys}

        def __init__(self, name, **kw):
            Node.__init__(self, name, **{("_p_" + k if k in keys else k): v for k, v in kw.items()})
        ns["__init__"] = __init__
        _PROP[keys] = type("PropNode", (Node,), ns)
    return _PROP[keys]


def _tolist(t):
    return [t[0], dict(t[1]), [_tolist(c) for c in t[2]]]


def with_edit_history(rng, case):
    """the same request on a tree that reaches its shape through a history of structural edits (None if unsuitable)"""
    d = case.data
    if d.get("hist") or d["fmt"] not in ("dict", "nested", "pandas", "polars", "print") or d.get("full") and False:
        return None
    init = d["spec"]
    if core.spec_size(init) < 3:
        return None
    edits = H.random_edits(rng, init, rng.randint(1, 4), [], kinds=("move", "move", "move", "reattach", "reorder", "delre"))
    if not edits:
        return None
    final, _order = H.final(init, edits)
    nd = dict(d, spec=_tolist(final), hist="edits", hinit=init, hedits=edits)
    n = core.spec_size(nd["spec"])
    nd["start"] = 0 if d.get("full") or d["start"] == 0 else rng.randrange(n)
    if d["fmt"] == "nested":
        dep = depth_of(nd["spec"], nd["start"])
        if nd.get("md") and nd["md"] < dep:
            nd["md"] = dep
    return mk(nd, tuple(case.tags) + ("edit-history",))


def _flat_kwargs(d):
    return dict(attr_dict=_keep({k: v for k, v in d["ad"]}), all_attrs=d["all"], max_depth=d["md"],
                skip_depth=d.get("sd", 0), leaf_only=d.get("lo", False))


def _export(d, start):
    """the export call; the containers handed to it (attr_dict, attr_list) belong to the caller and must come back as
    they went in"""
    res = _export0(d, start)
    for kept, want in _KEPT:
        if kept != want:
            _KEPT.clear()
            raise RuntimeError(f"the exporter modified a container of the caller: {kept!r} (was {want!r})")
    _KEPT.clear()
    return res


_KEPT = []


def _keep(x):
    import copy
    _KEPT.append((x, copy.deepcopy(x)))
    return x


def _export0(d, start):
    import bigtree
    fmt = d["fmt"]
    if fmt == "dict":
        return bigtree.tree_to_dict(start, name_key=d["nk"], parent_key=d["pk"], **_flat_kwargs(d))
    if fmt == "pandas":
        return bigtree.tree_to_dataframe(start, path_col=d["pc"], name_col=d["nk"], parent_col=d["pk"], **_flat_kwargs(d))
    if fmt == "polars":
        return bigtree.tree_to_polars(start, path_col=d["pc"], name_col=d["nk"], parent_col=d["pk"], **_flat_kwargs(d))
    if fmt == "nested":
        return bigtree.tree_to_nested_dict(start, name_key=d["nk"], child_key=d["ck"], attr_dict=_keep({k: v for k, v in d["ad"]}),
                                           all_attrs=d["all"], max_depth=d["md"])
    if fmt == "newick":
        return bigtree.tree_to_newick(start, intermediate_node_name=d["inn"], length_attr=d["la"], length_sep=d["ls"],
                                      attr_list=_keep(list(d["al"])), attr_prefix=d["ap"], attr_sep=d["as"])
    if fmt == "print":
        buf = io.StringIO()
        with contextlib.redirect_stdout(buf):
            bigtree.print_tree(start, style=d["style"])
        return buf.getvalue()
    raise ValueError(fmt)


def _prefix_list(style):
    from bigtree.utils.constants import ExportConstants
    _stem, branch, final = ExportConstants.PRINT_STYLES[style]
    return [re.escape(branch), re.escape(final)]


def _import(d, exported):
    import bigtree
    fmt = d["fmt"]
    sep = d.get("sep", "/")
    if fmt == "dict":
        return bigtree.dict_to_tree(exported, sep=sep)
    if fmt == "pandas":
        return bigtree.dataframe_to_tree(exported, sep=sep)
    if fmt == "polars":
        return bigtree.polars_to_tree(exported, sep=sep)
    if fmt == "nested":
        return bigtree.nested_dict_to_tree(exported, name_key=d["nk"], child_key=d["ck"])
    if fmt == "newick":
        return bigtree.newick_to_tree(exported, length_attr=d["la"] or "length", attr_prefix=d["ap"])
    if fmt == "print":
        return bigtree.str_to_tree(exported, tree_prefix_list=_prefix_list(d["style"]))
    raise ValueError(fmt)


def frame_parts(fmt, df):
    """(columns, rows as lists of python values) of a real DataFrame"""
    if fmt == "pandas":
        cols = [str(c) for c in df.columns]
        rows = [list(r) for r in df.itertuples(index=False, name=None)] if len(cols) else []
    else:
        cols = list(df.columns)
        rows = [list(r) for r in df.rows()]
    return cols, rows


def _canon_export(d, ex):
    fmt = d["fmt"]
    if fmt == "dict":
        if not ex:
            return "empty"
        return " ".join(hx(p) + ">" + crec(r.items()) for p, r in ex.items())
    if fmt in ("pandas", "polars"):
        cols, rows = frame_parts(fmt, ex)
        return "cols=" + (",".join(hx(c) for c in cols) or "-") + " rows=" + (
            ";".join(",".join(cval(v) for v in r) for r in rows) if rows else "-")
    if fmt == "nested":
        ck = d["ck"]
        def go(x):
            return " ".join(["(", crec((k, v) for k, v in x.items() if k != ck)] + [go(c) for c in x.get(ck, [])] + [")"])
        return go(ex)
    if fmt == "newick":
        return hx(ex)
    raise ValueError(fmt)


def impl(case):
    d = case.data
    import bigtree
    try:
        if d["op"] == "parse":
            t = bigtree.newick_to_tree(d["s"], length_attr=d.get("la", "length"), attr_prefix=d.get("ap", "&&NHX:"))
            return cbuilt(t)
        _root, _nodes, start = _build(d)
        ex = _export(d, start)
        if d["op"] == "exp":
            return _canon_export(d, ex)
        t = _import(d, ex)
        return cnames(t) if d["fmt"] == "print" else cbuilt(t)
    except Exception:
        return "rej"


# ---------------------------------------------------------------- oracle (model-free)
def _pre(n):
    out = [n]
    for c in n.children:
        out += _pre(c)
    return out


def _depth(n):
    k = 1
    while n.parent is not None:
        n = n.parent
        k += 1
    return k


def _path(n, sep):
    names = []
    while n is not None:
        names.append(n.node_name)
        n = n.parent
    return sep + sep.join(reversed(names))


def _public(n):
    return {k: v for k, v in vars(n).items() if not k.startswith("_") and k != "name"}


def _same(a, b):
    """numeric / null-aware equality of two attribute values"""
    return cval(a) == cval(b)


def _expected_attrs(d, n):
    """ordered (key, value) pairs the record must carry beyond name/path/parent"""
    if d["all"]:
        return sorted(_public(n).items())
    return [(col, vars(n).get(k, vars(n).get("_p_" + k))) for k, col in d["ad"]]


def _mixed_keys(records):
    """keys under which both an int and a str occur (polars turns such a column into strings)"""
    kinds = {}
    for r in records:
        for k, v in r.items():
            if isinstance(v, bool) or v is None:
                continue
            if isinstance(v, (int, str)):
                kinds.setdefault(k, set()).add(type(v).__name__)
    return {k for k, t in kinds.items() if t == {"int", "str"}}


def _want_record(d, n, sep, tabular):
    want = {}
    if tabular and d.get("pc"):
        want[d["pc"]] = _path(n, sep)
    if d["nk"] or d["fmt"] == "nested":
        want[d["nk"]] = n.node_name
    if d.get("pk"):
        want[d["pk"]] = n.parent.node_name if n.parent is not None else None
    for k, v in _expected_attrs(d, n):
        want[k] = v
    return want


def _check_record(d, n, sep, rec, where, msgs, tabular, coerced=()):
    """rec: mapping of the record; the property: exact name, path, parent name, requested attribute values"""
    want = _want_record(d, n, sep, tabular)
    for k in coerced:
        if k in want and isinstance(want[k], int) and not isinstance(want[k], bool):
            want[k] = str(want[k])
    return _check_want(want, n, sep, rec, where, msgs, tabular)


def _check_want(want, n, sep, rec, where, msgs, tabular):
    for k, v in want.items():
        if k not in rec:
            if tabular and v is None:
                continue
            msgs.append(f"{where}: record of {_path(n, sep)} lacks {k!r}")
        elif not _same(rec[k], v):
            msgs.append(f"{where}: record of {_path(n, sep)} has {k!r}={rec[k]!r}, expected {v!r}")
    for k, v in rec.items():
        if k not in want and not (tabular and cval(v) == "n"):
            msgs.append(f"{where}: record of {_path(n, sep)} carries unexpected {k!r}={v!r}")


def _tree_sig(n, attrs_of):
    return (n.node_name, attrs_of(n), tuple(_tree_sig(c, attrs_of) for c in n.children))


def oracle(case):
    d = case.data
    import bigtree
    msgs = []
    if d["op"] == "parse":
        return msgs
    fmt = d["fmt"]
    sep = d.get("sep", "/")
    _root, _nodes, start = _build(d)
    before = _tree_sig(_root, lambda n: tuple(sorted((k, cval(v)) for k, v in _public(n).items())))
    try:
        ex = _export(d, start)
    except Exception as e:
        if fmt == "newick" and d["la"]:
            # documented refusal: a non-root node without a (truthy) length attribute
            bad = [n for n in _pre(start) if n.parent is not None and not vars(n).get(d["la"])]
            if bad:
                return msgs
        return [f"{fmt}: export raised {type(e).__name__}: {e}"]
    if fmt in ("dict", "pandas", "polars"):
        md, sd, lo = d["md"], d.get("sd", 0), d.get("lo", False)
        sel = [n for n in _pre(start) if (md == 0 or _depth(n) <= md) and (sd == 0 or _depth(n) > sd)
               and (not lo or len(n.children) == 0)]
        if fmt == "dict":
            keys = list(ex.keys())
            want = [_path(n, sep) for n in sel]
            if keys != want:
                msgs.append(f"dict: keys {keys} != selected nodes in pre-order {want}")
            else:
                for n in sel:
                    _check_record(d, n, sep, ex[_path(n, sep)], "dict", msgs, False)
        else:
            cols, rows = frame_parts(fmt, ex)
            if len(rows) != len(sel):
                msgs.append(f"{fmt}: {len(rows)} rows for {len(sel)} selected nodes")
            else:
                coerced = _mixed_keys([_want_record(d, n, sep, True) for n in sel]) if fmt == "polars" else ()
                for n, r in zip(sel, rows):
                    _check_record(d, n, sep, dict(zip(cols, r)), fmt, msgs, True, coerced)
    elif fmt == "nested":
        md = d["md"]
        ck = d["ck"]
        def walk(n, x):
            rec = {k: v for k, v in x.items() if k != ck}
            _check_record(d, n, sep, rec, "nested", msgs, False)
            kids = [c for c in n.children if md == 0 or _depth(c) <= md]
            got = x.get(ck, [])
            if len(got) != len(kids):
                msgs.append(f"nested: {_path(n, sep)} has {len(got)} nested children, expected {len(kids)}")
                return
            if not kids and ck in x:
                msgs.append(f"nested: {_path(n, sep)} carries an empty child list")
            for c, y in zip(kids, got):
                walk(c, y)
        walk(start, ex)
    # the exporter is a reader: the input tree is unchanged
    after = _tree_sig(_root, lambda n: tuple(sorted((k, cval(v)) for k, v in _public(n).items())))
    if after != before:
        msgs.append(f"{fmt}: the export changed the input tree")
    # round trip of a FULL export: equal in names, shape, sibling order and exported attributes
    in_alphabet = all("'" not in n.node_name for n in _pre(start)) if fmt == "newick" else True
    newick_std = fmt == "newick" and d["inn"] and d["ls"] == ":" and d["as"] == ":"
    if ((d.get("full") and d["op"] == "rt") or newick_std) and in_alphabet:
        try:
            t2 = _import(d, ex)
        except Exception as e:
            return msgs + [f"{fmt}: importing the full export raised {type(e).__name__}: {e}"]
        if fmt in ("dict", "nested"):
            attrs_of = lambda n: tuple(sorted((k, cval(v)) for k, v in _public(n).items()))
            a, b = _tree_sig(start, attrs_of), _tree_sig(t2, attrs_of)
        elif fmt in ("pandas", "polars"):
            attrs_of = lambda n: tuple(sorted((k, cval(v)) for k, v in _public(n).items() if cval(v) != "n"))
            coerced = _mixed_keys([_public(n) for n in _pre(start)]) if fmt == "polars" else ()
            orig_of = lambda n: tuple(sorted((k, cval(str(v) if k in coerced and isinstance(v, int) and not isinstance(v, bool) else v))
                                             for k, v in _public(n).items() if cval(v) != "n"))
            a, b = _tree_sig(start, orig_of), _tree_sig(t2, attrs_of)
        else:  # newick: listed truthy attributes as text, length numerically
            la = d["la"]
            def orig(n):
                out = [(k, str(vars(n).get(k))) for k in d["al"] if vars(n).get(k)]
                if la and n is not start_root and vars(n).get(la):
                    out.append((la, str(int(vars(n)[la]))))
                return tuple(sorted(out))
            def back(n):
                out = []
                for k, v in _public(n).items():
                    out.append((k, str(int(v)) if k == (la or "length") and not isinstance(v, str) else str(v)))
                return tuple(sorted(out))
            start_root = start if start.parent is None else None
            a, b = _tree_sig(start, orig), _tree_sig(t2, back)
        if a != b:
            msgs.append(f"{fmt}: import(export(t)) differs from t: {b} != {a}")
    if fmt == "print":
        try:
            t2 = _import(d, ex)
            a, b = _tree_sig(start, lambda n: ()), _tree_sig(t2, lambda n: ())
            if a != b:
                msgs.append(f"print[{d['style']}]: str_to_tree(print_tree(t)) differs from t: {b} != {a}")
        except Exception as e:
            msgs.append(f"print[{d['style']}]: str_to_tree raised {type(e).__name__}: {e}")
        # the requested attribute values of the tree as it is NOW: printed twice with an attribute update in between
        # (names, shape and order untouched), every line must end with the value current at that moment
        import bigtree
        sub = list(bigtree.preorder_iter(start))
        try:
            for stamp in (1, 2):
                for n in sub:
                    n.set_attrs({"zz9": stamp})
                buf = io.StringIO()
                with contextlib.redirect_stdout(buf):
                    bigtree.print_tree(start, attr_list=["zz9"], style=d["style"])
                bad = [ln for ln in buf.getvalue().splitlines() if not ln.endswith("[zz9=%d]" % stamp)]
                if bad or len(buf.getvalue().splitlines()) != len(sub):
                    msgs.append(f"print[{d['style']}] with attr_list: after the attribute was set to {stamp} a printed line reads {bad[:1]}")
                    break
        finally:
            for n in sub:
                n.__dict__.pop("zz9", None)
    return msgs


# ---------------------------------------------------------------- shrinking
def shrink(case):
    d = case.data
    if d["op"] == "parse":
        s = d["s"]
        for i in range(len(s)):
            nd = dict(d, s=s[:i] + s[i + 1:])
            if nd["s"]:
                yield mk(nd, case.tags)
        return
    if d.get("hist") == "edits":
        yield mk({k: v for k, v in d.items() if k not in ("hist", "hinit", "hedits")}, case.tags)   # without the history
        for k in range(len(d["hedits"])):       # shorter histories (the final tree changes with them)
            ed = d["hedits"][:k] + d["hedits"][k + 1:]
            try:
                fin, _o = H.final(d["hinit"], ed)
            except Exception:  # noqa: BLE001 - an edit that depended on the dropped one
                continue
            nd = dict(d, hedits=ed, spec=_tolist(fin))
            if nd["start"] < core.spec_size(nd["spec"]):
                yield mk(nd, case.tags)
    for key, val in (("md", 0), ("sd", 0), ("lo", False), ("pk", ""), ("ad", []), ("al", []), ("la", ""), ("start", 0)):
        if key in d and d[key] != val and not d.get("full"):
            nd = dict(d); nd[key] = val
            yield mk(nd, case.tags)
    if d.get("hist") == "edits":
        return
    spec = d["spec"]
    nodes = core.spec_nodes(spec)
    for idx in range(len(nodes) - 1, 0, -1):
        addr, s = nodes[idx]
        if s[2] or idx == d["start"]:
            continue
        def remove(t, a):
            if len(a) == 1:
                return [t[0], t[1], t[2][:a[0]] + t[2][a[0] + 1:]]
            return [t[0], t[1], [remove(c, a[1:]) if k == a[0] else c for k, c in enumerate(t[2])]]
        nd = dict(d, spec=remove(spec, addr), start=d["start"] - 1 if d["start"] > idx else d["start"])
        yield mk(nd, case.tags)
    # drop attributes
    def strip(t):
        return [t[0], {}, [strip(c) for c in t[2]]]
    if any(s[1] for _a, s in nodes) and not d.get("la"):
        yield mk(dict(d, spec=strip(spec)), case.tags)


NOT_READY = False
LEVEL_TEXT = ("Proof. Lean 4 theorems (C06.*) about hand-written models of the exporters and constructors, for ALL trees, start "
              "nodes and option values: rows_complete / dict_complete / nested_complete (the accumulator-style recursive append of "
              "tree_to_dataframe, tree_to_polars, tree_to_dict emits exactly one record - path, name, parent name, requested "
              "attributes - per node admitted by max_depth / skip_depth / leaf_only, in pre-order; the nested dict mirrors the tree "
              "cut at max_depth; distinct nodes get distinct paths); dict_roundtrip, nested_roundtrip, rows_roundtrip(+_attrs) "
              "(constructor(full export t) = t in names, shape, sibling order and public attributes, for non-empty, sibling-unique, "
              "separator-free names; a DataFrame drops null attributes); newick_stack_invariant and newick_roundtrip (the parser "
              "state machine reads tree_to_newick(t) back to t in names, shape and order for all names without ', names containing "
              "any of the other special characters being quoted; side conditions on the 8 NewickCharacter constants are discharged "
              "by `decide` on a table regenerated from constants.py on every run). The models are tied to /repo on every run by "
              "differential testing of the real exporters/constructors (pandas and polars through the real libraries) against the "
              "compiled model, incl. an exhaustive malformed-Newick stream; a model-free oracle re-reads the property on the real "
              "objects. newick_roundtrip_attrs extends the Newick round trip to the length attribute (positive integers) and attribute "
              "lists (quote-free string values; keys/values with other specials are quoted). Resting on the tie only: the other "
              "writer options (intermediate_node_name=False, non-default separators), the parser's rejection branches, and the "
              "printed-tree round trip (model and theorem owned by C18).")
LEVEL_NOTE = ("Trusted: Lean kernel, axioms <= {propext, Classical.choice, Quot.sound} (audited each run), the hand-written models' "
              "correspondence to export.py / construct.py as established by the tie (not proved), harness/tables.py, CPython, pandas, "
              "polars. A DataFrame is modelled as a list of records plus column normalisation; attribute values are null|int|str; one-"
              "character separators; exceptions are 'rejected'.")
TECHNIQUE = "Lean 4 proof (structural induction; parser stack invariant; generated-table side conditions by decide) + correspondence check against the real exporters/constructors"
RULE = RULE + ' Fourth session: for a third of the attr_dict requests the requested attributes are read-only properties of a user subclass (backed by private fields); one tree beyond 1000 nodes.'
RULE = RULE + ' Fifth session: print_tree(attr_list=...) twice with an attribute update in between: every line carries the value current at that moment.'
