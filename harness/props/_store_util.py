"""Shared code of the pointer-store properties on BaseNode/Node (C01, C03 and the base/node parts of
C02 and C20): hook-raising user subclasses, op tokens, history runner on the REAL objects,
snapshots, model-free oracles, generators (exhaustive successor enumeration + random histories).

An op is a JSON-able list:
  ["P", v, np|None, f]   v.parent = np            ["C", v, [ids], f]     v.children = [...]
  ["K", v, f]            v.children = 5           ["D", v]               del v.children
  ["A", p, c, f]         p.append(c)              ["E", p, [ids], f, k]  p.extend([...]), hook fault at element k
  ["R", p, c, f]         p >> c                   ["L", c, p|None, f]    c << p
  ["X", p, name, f]      del p[name]   (Node)     ["S", v, [ranks], rev] v.sort(key=ranks[id], reverse=rev)
  ["Z", v, sep]          v.sep = sep   (Node)
f in none|pre|post: which user hook raises.  An id >= n stands for an object that is not a node.
"""
from __future__ import annotations
import itertools, json, os, random, sys
import core
from core import hx, nats

FAULT = {"kind": None, "skip": 0}
HANG_SECONDS = 5.0


class Hang(BaseException):
    """raised by the watchdog inside a call that does not return (BaseException: bigtree's
    `except Exception` roll-back handlers must not swallow it)"""


def _on_alarm(_sig, _frm):
    raise Hang()


def _watchdog(on: bool):
    import signal, threading
    if threading.current_thread() is not threading.main_thread():
        return
    if on:
        signal.signal(signal.SIGPROF, _on_alarm)
        signal.setitimer(signal.ITIMER_PROF, HANG_SECONDS)
    else:
        signal.setitimer(signal.ITIMER_PROF, 0)


def _fire(kind, node=None, others=()):
    if FAULT["kind"] == kind:
        if FAULT["skip"] <= 0:
            FAULT["kind"] = None
            # a hook may READ the tree before it refuses (depth limits, naming rules, ...): whatever the library
            # remembers from these reads must not survive the roll-back
            for x in [node] + [o for o in others if hasattr(o, "ancestors")]:
                if x is None:
                    continue
                for f in (lambda: x.depth, lambda: x.root, lambda: x.max_depth, lambda: list(x.ancestors),
                          lambda: x.siblings, lambda: x.children, lambda: x.parent, lambda: x.path_name, lambda: x.sep):
                    try:
                        f()
                    except Exception:  # noqa: BLE001 - BaseNode has no path_name / sep
                        pass
            raise core.hook_exc(FAULT.get("op"), "user hook: " + kind)
        FAULT["skip"] -= 1


_CLS = {}


def classes():
    """user subclasses whose four documented hooks raise on demand (docs/others/nodes.md)"""
    if _CLS:
        return _CLS
    from bigtree import BaseNode, Node

    class HB(BaseNode):
        def _BaseNode__pre_assign_parent(self, new_parent):
            _fire("pre", self, [new_parent])

        def _BaseNode__post_assign_parent(self, new_parent):
            _fire("post", self, [new_parent])

        def _BaseNode__pre_assign_children(self, new_children):
            _fire("pre", self, list(new_children) if isinstance(new_children, (list, tuple, set)) else [])

        def _BaseNode__post_assign_children(self, new_children):
            _fire("post", self, list(new_children) if isinstance(new_children, (list, tuple, set)) else [])

    class HN(Node):
        def _Node__pre_assign_parent(self, new_parent):
            _fire("pre", self, [new_parent])

        def _Node__post_assign_parent(self, new_parent):
            _fire("post", self, [new_parent])

        def _Node__pre_assign_children(self, new_children):
            _fire("pre", self, list(new_children) if isinstance(new_children, (list, tuple, set)) else [])

        def _Node__post_assign_children(self, new_children):
            _fire("post", self, list(new_children) if isinstance(new_children, (list, tuple, set)) else [])

    _CLS.update(base=HB, node=HN)
    return _CLS


# ------------------------------------------------------------------ protocol
def _on(x):
    return "-" if x is None else str(x)


def fmt_op(op) -> str:
    k = op[0]
    if k == "P":
        return f"P:{op[1]}:{_on(op[2])}:{op[3]}"
    if k == "C":
        return f"C:{op[1]}:{nats(op[2])}:{op[3]}"
    if k == "K":
        return f"K:{op[1]}:{op[2]}"
    if k == "D":
        return f"D:{op[1]}"
    if k in ("A", "R"):
        return f"{k}:{op[1]}:{op[2]}:{op[3]}"
    if k == "E":
        return f"E:{op[1]}:{nats(op[2])}:{op[3]}:{op[4]}"
    if k == "L":
        return f"L:{op[1]}:{_on(op[2])}:{op[3]}"
    if k == "X":
        return f"X:{op[1]}:{hx(op[2])}:{op[3]}"
    if k == "S":
        return f"S:{op[1]}:{nats(op[2])}:{1 if op[3] else 0}"
    if k == "Z":
        return f"Z:{op[1]}:{hx(op[2])}"
    if k == "N":
        # a refused constructor call: for the model a rejected no-op (written as the type-error assignment `children = 5`)
        return f"K:{op[1] if op[1] is not None else 0}:none"
    if k == "F":
        # a library call on OTHER, fresh objects that fails half-way: nothing the model knows about happens
        return "K:0:none"
    raise ValueError(op)


def mk_line(d) -> str:
    names = ",".join(hx(x) for x in d["names"]) if d["cls"] == "node" else "-"
    return (f"cls={d['cls']} n={d['n']} asrt={d.get('asrt', 1)} names={names} sep={hx(d['sep'])} ops= "
            + " ".join(fmt_op(o) for o in d["ops"]))


def mk_data(cls, n, names, sep, ops, asrt=1):
    return {"cls": cls, "n": n, "names": list(names) if cls == "node" else [], "sep": sep,
            "ops": [list(o) for o in ops], "asrt": asrt}


# ------------------------------------------------------------------ real objects
def make_nodes(d):
    C = classes()[d["cls"]]
    FAULT["kind"] = None
    if d["cls"] == "node":
        return [C(nm, sep=d["sep"]) for nm in d["names"]]
    return [C() for _ in range(d["n"])]


def _member(nodes, k):
    n = len(nodes)
    return nodes[k] if k < n else [None, object(), "s"][(k - n) % 3]


def _parent_arg(nodes, k):
    n = len(nodes)
    if k is None:
        return None
    return nodes[k] if k < n else [object(), "s", 5][(k - n) % 3]


def apply_op(nodes, op) -> str:
    """run one call of the real API; 'ok' or 'rej' (any exception)"""
    k = op[0]
    FAULT["kind"] = None
    FAULT["skip"] = 0
    FAULT["op"] = op      # the class of the exception a raising hook throws is a function of the op
    try:
        _watchdog(True)
        if k == "P":
            FAULT["kind"] = None if op[3] == "none" else op[3]
            nodes[op[1]].parent = _parent_arg(nodes, op[2])
        elif k == "C":
            FAULT["kind"] = None if op[3] == "none" else op[3]
            held = [_member(nodes, c) for c in op[2]]
            try:
                nodes[op[1]].children = held
            finally:
                # the caller goes on using ITS list object: whatever it does to it must not reach the tree
                held.append(held[0] if held else None)
                held.clear()
        elif k == "K":
            FAULT["kind"] = None if op[2] == "none" else op[2]
            nodes[op[1]].children = 5
        elif k == "D":
            del nodes[op[1]].children
        elif k == "A":
            FAULT["kind"] = None if op[3] == "none" else op[3]
            nodes[op[1]].append(_member(nodes, op[2]))
        elif k == "E":
            FAULT["kind"] = None if op[3] == "none" else op[3]
            FAULT["skip"] = op[4]
            nodes[op[1]].extend([_member(nodes, c) for c in op[2]])
        elif k == "R":
            FAULT["kind"] = None if op[3] == "none" else op[3]
            nodes[op[1]] >> _member(nodes, op[2])
        elif k == "L":
            FAULT["kind"] = None if op[3] == "none" else op[3]
            nodes[op[1]] << _parent_arg(nodes, op[2])
        elif k == "X":
            FAULT["kind"] = None if op[3] == "none" else op[3]
            del nodes[op[1]][op[2]]
        elif k == "S":
            ranks = op[2]
            idx = {id(x): i for i, x in enumerate(nodes)}
            nodes[op[1]].sort(key=lambda nd: ranks[idx[id(nd)]] if idx[id(nd)] < len(ranks) else 0, reverse=bool(op[3]))
        elif k == "Z":
            nodes[op[1]].sep = op[2]
        elif k == "F":
            failing_library_call(op[1])
        elif k == "N":
            # Node("", parent=p, children=[...]): refused (a Node must have a name) - and must not have linked anything
            type(nodes[0])("", parent=None if op[1] is None else nodes[op[1]], children=[nodes[c] for c in op[2]])
        else:
            raise ValueError(op)
        return "ok"
    except Exception:
        return "rej"
    except Hang:
        return "hang"
    finally:
        _watchdog(False)
        FAULT["kind"] = None
        FAULT["skip"] = 0


N_FAILING_CALLS = 7


def failing_library_call(variant):
    """a constructor / builder call on fresh objects that the library refuses HALF-WAY (after it has already built and
    linked part of the result).  It must raise; whatever process-wide state it touched on the way (the ASSERTIONS
    switch, module-level caches) must be what it was, or the calls that follow in the history behave differently."""
    import bigtree
    v = variant % N_FAILING_CALLS
    if v == 0:
        bigtree.list_to_tree(["a/b/c", "a/d", "x/y"])                       # second root
    elif v == 1:
        bigtree.nested_dict_to_tree({"name": "a", "children": [{"name": "b"}, {"name": "c", "children": [{"name": "d"}, {"name": "d"}]}]})
    elif v == 2:
        bigtree.list_to_dag([("a", "b"), ("b", "c"), ("c", "a")])           # cycle closes at the last relation
    elif v == 3:
        bigtree.list_to_binarytree([1, 2, 3, None, 5])
    elif v == 4:
        bigtree.list_to_tree(["a/b", "a/c/b"], duplicate_name_allowed=False)
    elif v == 5:
        bigtree.list_to_tree_by_relation([("a", "b"), ("a", "c"), ("c", "b"), ("b", "d")])   # non-leaf b under two parents
    else:
        bigtree.dict_to_dag({"a": {"parents": ["b"]}, "b": {"parents": ["a"]}})
    raise AssertionError("failing_library_call: the call was accepted")


def _warm_reads(nodes):
    """what a caller may do between two structural calls: look children up by name (`node[name]`, only Node has it),
    ask for derived properties.  Results are discarded; whatever the library remembers from these reads must not
    matter later."""
    if nodes and hasattr(type(nodes[0]), "__getitem__") and len(nodes) <= 12:
        names = {x.node_name for x in nodes}
        for x in nodes:
            for nm in names:
                try:
                    x[nm]
                except Exception:  # noqa: BLE001
                    pass


def snap(nodes):
    """(parent id | None | '?', [child ids]) per node, through the public properties"""
    _warm_reads(nodes)
    idx = {id(x): i for i, x in enumerate(nodes)}
    out = []
    for x in nodes:
        p = x.parent
        out.append((None if p is None else idx.get(id(p), "?"), [idx.get(id(c), "?") for c in x.children]))
    return out


def show_snap(sn) -> str:
    return " ".join(f"{i}>{_on(p)}[{','.join(str(c) for c in ch)}]" for i, (p, ch) in enumerate(sn))


def healthy(nodes) -> bool:
    """parent walks terminate and every link end is a node -- otherwise the real code may loop forever
    on the next call, so every history runner stops at the first unhealthy store"""
    ids = {id(x) for x in nodes}
    for x in nodes:
        y, steps = x, 0
        while y is not None and steps <= len(nodes):
            if id(y) not in ids:
                return False
            y = y.parent
            steps += 1
        if y is not None:
            return False
        try:
            if any(id(c) not in ids for c in x.children):
                return False
        except Exception:  # noqa: BLE001
            return False
    return True


def run_trace(d):
    """[(outcome, snapshot)] after every op, plus the live nodes (stops at the first corrupt store)"""
    nodes = make_nodes(d)
    tr = []
    for op in d["ops"]:
        o = apply_op(nodes, op)
        if o == "hang":
            tr.append(("hang", []))
            break
        tr.append((o, snap(nodes)))
        if not healthy(nodes):
            tr.append(("corrupt", []))
            break
    return nodes, tr


def show_trace(tr) -> str:
    return " ; ".join(o + " " + show_snap(sn) for o, sn in tr)


# ------------------------------------------------------------------ model-free checks on snapshots / objects
def forest_errors(nodes):
    """C01's invariant read off the real objects"""
    msgs = []
    ids = {id(x): i for i, x in enumerate(nodes)}
    occ = {i: [] for i in range(len(nodes))}   # node -> list of parents listing it
    for i, x in enumerate(nodes):
        for c in x.children:
            if id(c) not in ids:
                msgs.append(f"node {i} lists a non-node child")
                continue
            occ[ids[id(c)]].append(i)
            if c.parent is not x:
                msgs.append(f"node {ids[id(c)]} is listed by {i} but names {ids.get(id(c.parent), c.parent)} as parent")
    for i, x in enumerate(nodes):
        p = x.parent
        if p is None:
            if occ[i]:
                msgs.append(f"root {i} is listed as a child of {occ[i]}")
        elif id(p) not in ids:
            msgs.append(f"node {i} has a non-node parent")
        elif occ[i] != [ids[id(p)]]:
            msgs.append(f"node {i} with parent {ids[id(p)]} occurs in the child lists of {occ[i]} (must be exactly once, there)")
        # walking parents terminates
        y, steps = x, 0
        while y is not None and steps <= len(nodes):
            y = y.parent
            steps += 1
        if y is not None:
            msgs.append(f"walking parents from {i} does not terminate")
    return msgs


def _anc(sn, v):
    out, seen = [], set()
    p = sn[v][0]
    while p is not None and p not in seen and p != "?":
        out.append(p)
        seen.add(p)
        p = sn[p][0]
    return out


def spec_set_parent(sn, v, p):
    """documented effect of an accepted v.parent = p on a snapshot"""
    new = [(q, list(ch)) for q, ch in sn]
    old = sn[v][0]
    if old is not None:
        new[old] = (new[old][0], [c for c in new[old][1] if c != v])
    new[v] = (p, new[v][1])
    if p is not None:
        new[p] = (new[p][0], [c for c in new[p][1] if c != v] + [v])
    return new


def spec_set_children(sn, v, cs):
    new = []
    for i, (q, ch) in enumerate(sn):
        if i == v:
            ch2 = list(cs)
        else:
            ch2 = [c for c in ch if c not in cs]
        if i in cs:
            q2 = v
        elif q == v:
            q2 = None
        else:
            q2 = q
        new.append((q2, ch2))
    return new


def must_reject(sn, op, n):
    """self-loop, ancestor loop, repeated child, non-node member (checks on)"""
    k = op[0]
    if k in ("P", "L"):
        v, p = op[1], op[2]
        return p is not None and (p >= n or p == v or v in _anc(sn, p))
    if k in ("A", "R"):
        p, c = op[1], op[2]
        return c >= n or c == p or c in _anc(sn, p)
    if k == "C":
        v, cs = op[1], op[2]
        return any(c >= n or c == v or c in _anc(sn, v) for c in cs) or len(set(cs)) != len(cs)
    if k in ("K", "N", "F"):
        return True
    return False


def effect_errors(d, before, op, outcome, after, names=None):
    """per-op documented effect, recomputed from the before-snapshot (model-free)"""
    n = d["n"]
    k = op[0]
    msgs = []
    if d.get("asrt", 1) and must_reject(before, op, n) and outcome != "rej":
        msgs.append(f"{fmt_op(op)}: loop / repeated / non-node argument was accepted")
    if outcome == "rej":
        if k == "N" and [(q, list(c)) for q, c in after] != [(q, list(c)) for q, c in before]:
            msgs.append(f"refused constructor Node('', parent={op[1]}, children={op[2]}) changed the store: {show_snap(after)} (before: {show_snap(before)})")
        if k == "E":
            # a documented loop of assignments: some proper prefix was applied
            cands, cur = [before], before
            for c in op[2]:
                if c >= n:
                    break
                cur = spec_set_parent(cur, c, op[1])
                cands.append(cur)
            if after not in cands[:-1] and not (after in cands and len(cands) <= len(op[2])):
                msgs.append(f"{fmt_op(op)}: rejected extend left a store that is no prefix of the assignments")
        return msgs
    if k in ("P", "L"):
        want = spec_set_parent(before, op[1], op[2])
    elif k in ("A", "R"):
        want = spec_set_parent(before, op[2], op[1])
    elif k == "C":
        want = spec_set_children(before, op[1], op[2])
    elif k == "D":
        want = spec_set_children(before, op[1], [])
    elif k == "E":
        want = before
        for c in op[2]:
            want = spec_set_parent(want, c, op[1])
    elif k == "X":
        hits = [c for c in before[op[1]][1] if names[c] == op[2]]
        want = spec_set_parent(before, hits[0], None) if hits else before
    elif k == "S":
        ranks = op[2]
        key = lambda c: ranks[c] if c < len(ranks) else 0
        want = [(q, list(ch)) for q, ch in before]
        want[op[1]] = (want[op[1]][0], sorted(before[op[1]][1], key=key, reverse=bool(op[3])))
    elif k == "Z":
        want = before
    else:
        want = None
    if want is not None and [(q, list(c)) for q, c in after] != [(q, list(c)) for q, c in want]:
        msgs.append(f"{fmt_op(op)}: accepted, but the store is {show_snap(after)} instead of the documented {show_snap(want)} (before: {show_snap(before)})")
    return msgs


# ------------------------------------------------------------------ generators
NAMES = ["a", "b", "ab", "ba", "aa", "a b", "a.b"]
SEPS = ["/", ".", "\\", "|"]
FAULTS3 = ["none", "pre", "post"]


def arg_universe(n, cls, names, tier_small=True):
    """every op x every argument tuple over n nodes (id n = a non-node object)"""
    ops = []
    V = list(range(n))
    lists = [list(p) for r in range(n + 1) for p in itertools.permutations(V, r)]
    bad_lists = [[a, a] for a in V] + [[a, n] for a in V] + [[n], [n + 1, 0]]
    if n >= 3:
        bad_lists += [[0, 1, 0], [1, 2, 2]]
    for v in V:
        for f in FAULTS3:
            for p in [None] + V + [n]:
                ops.append(["P", v, p, f])
                ops.append(["L", v, p, f])
            for cs in lists + bad_lists:
                ops.append(["C", v, cs, f])
            ops.append(["K", v, f])
            for c in V + [n]:
                ops.append(["A", v, c, f])
                ops.append(["R", v, c, f])
        ops.append(["D", v])
        short = [l for l in lists if len(l) <= 2] + [[a, a] for a in V] + [[0, n]]
        for cs in short:
            ops.append(["E", v, cs, "none", 0])
            for f in ("pre", "post"):
                for k in range(max(1, len(cs))):
                    ops.append(["E", v, cs, f, k])
        ops.append(["S", v, list(range(n)), 0])
        ops.append(["S", v, list(range(n)), 1])
        ops.append(["S", v, [1] * n, 1])
        if cls == "node":
            for nm in sorted(set(names)) + ["zz"]:
                for f in FAULTS3:
                    ops.append(["X", v, nm, f])
            ops.append(["Z", v, "|"])
            ops.append(["N", v, []])
            for c in V:
                if c != v:
                    ops.append(["N", None, [c]])
                    ops.append(["N", v, [c]])
    return ops


UNHEALTHY = []          # histories found by `explore` whose final store is not a forest (real code misbehaving)
MAX_EXPLORE_STATES = 20000


def is_forest(nodes) -> bool:
    """every child list is duplicate-free, every listed child names that node as its parent, every
    non-root is listed by its parent (a BFS over anything else does not terminate)"""
    if not healthy(nodes):
        return False
    for x in nodes:
        ch = list(x.children)
        if len({id(c) for c in ch}) != len(ch):
            return False
        if any(c.parent is not x for c in ch):
            return False
        if x.parent is not None and not any(c is x for c in x.parent.children):
            return False
    return True


def drain_unhealthy(cls=None):
    """cases for the histories on which the exploration left the space of forests (the tie and the
    oracle then report them instead of the exploration running away)"""
    out = [d for d in UNHEALTHY if cls is None or d["cls"] == cls]
    UNHEALTHY[:] = [d for d in UNHEALTHY if d not in out]
    return out


def explore(cls, n, names, sep, universe):
    """all stores reachable from n fresh nodes through accepted calls, each with one access history
    (breadth first, on the real objects)"""
    base = mk_data(cls, n, names, sep, [])
    movers = [o for o in universe if o[0] in ("P", "C", "D", "S") and (len(o) < 4 or o[-1] not in ("pre", "post"))]
    start = tuple((p, tuple(ch)) for p, ch in snap(make_nodes(base)))
    paths = {start: []}
    frontier = [start]
    while frontier:
        nxt = []
        for st in frontier:
            for op in movers:
                d = dict(base, ops=paths[st] + [op])
                nodes = make_nodes(d)
                for o in d["ops"]:
                    apply_op(nodes, o)
                if not is_forest(nodes):
                    if len(UNHEALTHY) < 200:
                        UNHEALTHY.append(d)
                    continue
                if len(paths) > MAX_EXPLORE_STATES:
                    raise RuntimeError(f"state exploration on the real code exceeded {MAX_EXPLORE_STATES} stores for n={n}")
                s2 = tuple((p, tuple(ch)) for p, ch in snap(nodes))
                if s2 not in paths:
                    paths[s2] = paths[st] + [op]
                    nxt.append(s2)
        frontier = nxt
    return paths


def random_history(rng: random.Random, cls, n, names, sep, nops, fault_rate=0.25, bad_rate=0.2, seps=None):
    """random ops chosen while running the real objects, biased to donor parents with >= 4 children"""
    d = mk_data(cls, n, names, sep, [])
    nodes = make_nodes(d)
    ops = []
    V = list(range(n))
    seps = seps or [sep]

    def fault():
        return rng.choice(["pre", "post", "post"]) if rng.random() < fault_rate else "none"

    def member():
        return rng.choice(V) if rng.random() > bad_rate / 3 else n + rng.randrange(3)

    def ok_parents(sn, v):
        """nodes that are neither v nor below v (mostly-valid stream)"""
        return [p for p in V if p != v and v not in _anc(sn, p)]

    def ok_children(sn, v):
        a = _anc(sn, v)
        return [c for c in V if c != v and c not in a]

    for _ in range(nops):
        sn = snap(nodes)
        donors = [i for i, (_p, ch) in enumerate(sn) if len(ch) >= 4]
        r = rng.random()
        bad = rng.random() < bad_rate
        if not donors and rng.random() < 0.15:
            v = rng.choice(V)
            pool = ok_children(sn, v)
            op = ["C", v, rng.sample(pool, min(len(pool), rng.randint(4, 6))), "none"]
        elif donors and r < 0.3:
            # steal several children of a big donor, in arbitrary order, possibly failing
            dn = rng.choice(donors)
            cand = [x for x in V if x != dn and (bad or x not in sn[dn][1])] or [x for x in V if x != dn]
            v = rng.choice(cand)
            take = rng.sample(sn[dn][1], rng.randint(2, len(sn[dn][1])))
            extra = [x for x in (V if bad else ok_children(sn, v)) if x not in take and rng.random() < 0.15]
            cs = [c for c in take + extra if bad or c != v]
            rng.shuffle(cs)
            op = ["C", v, cs, fault()]
        elif r < 0.5:
            v = rng.choice(V)
            if bad:
                p = rng.choice([None] + V + [n + rng.randrange(3)])
            else:
                p = rng.choice([None] + ok_parents(sn, v) * 2)
            op = [rng.choice(["P", "P", "L"]), v, p, fault()]
        elif r < 0.62:
            p = rng.choice(V)
            c = member() if bad else rng.choice(ok_children(sn, p) or V)
            op = [rng.choice(["A", "R"]), p, c, fault()]
        elif r < 0.78:
            v = rng.choice(V)
            k = rng.randint(0, min(n, 5))
            if bad:
                cs = [member() for _ in range(k)]
            else:
                pool = ok_children(sn, v)
                cs = rng.sample(pool, min(k, len(pool)))
            op = ["C", v, cs, fault()]
        elif r < 0.84:
            p = rng.choice(V)
            pool = ok_children(sn, p)
            k = rng.randint(0, 4)
            cs = [member() for _ in range(k)] if bad else rng.sample(pool, min(k, len(pool)))
            f = fault()
            op = ["E", p, cs, f, rng.randrange(max(1, len(cs))) if f != "none" else 0]
        elif r < 0.88:
            op = ["D", rng.choice(V)]
        elif r < 0.93:
            ranks = [rng.randrange(4) for _ in V]
            op = ["S", rng.choice(donors) if donors and rng.random() < 0.7 else rng.choice(V), ranks, rng.random() < 0.4]
        elif r < 0.935:
            op = ["K", rng.choice(V), fault()]
        elif r < 0.94:
            op = ["F", rng.randrange(N_FAILING_CALLS)]
        elif cls == "node" and r < 0.955:
            pool = ok_children(sn, rng.choice(V))
            op = ["N", rng.choice([None] + V), rng.sample(pool, min(len(pool), rng.randint(0, 2)))]
        elif cls == "node" and r < 0.98:
            nm = rng.choice(names + ["zz"])
            if rng.random() < 0.35:
                # a name that is no child's name but SPELLS a path below the node (child/grandchild under some separator),
                # or a child's name with a separator in front: not a child, so `del p[name]` is a documented no-op
                a, b = rng.choice(names), rng.choice(names)
                sp = rng.choice(seps + ["/"])
                nm = rng.choice([a + sp + b, sp + a, a + sp])
            op = ["X", rng.choice(V), nm, fault()]
        elif cls == "node":
            op = ["Z", rng.choice(V), rng.choice(seps)]
        else:
            op = ["P", rng.choice(V), rng.choice([None] + V), fault()]
        o = apply_op(nodes, op)
        ops.append(op)
        if o == "hang" or not healthy(nodes):
            break
    return ops


def shrink_history(d):
    """smaller histories: drop one op, drop faults, shorten lists"""
    ops = d["ops"]
    for i in range(len(ops) - 1, -1, -1):
        yield dict(d, ops=ops[:i] + ops[i + 1:])
    for i, op in enumerate(ops):
        if op[0] in ("P", "C", "A", "R", "L", "X") and op[3] != "none":
            yield dict(d, ops=ops[:i] + [op[:3] + ["none"]] + ops[i + 1:])
        if op[0] in ("C", "E") and len(op[2]) > 0:
            for j in range(len(op[2])):
                yield dict(d, ops=ops[:i] + [op[:2] + [op[2][:j] + op[2][j + 1:]] + op[3:]] + ops[i + 1:])


def op_tags(op, outcome=None):
    t = ["op=" + op[0]]
    if op[0] in ("P", "C", "A", "R", "L", "X", "E") and op[3] != "none":
        t.append("fault=" + op[3])
    elif op[0] == "K" and op[2] != "none":
        t.append("fault=" + op[2])
    return t


# ------------------------------------------------------------------ C03 observables (Node)
def show_paths(nodes) -> str:
    return " ".join(f"{i}={hx(x.path_name)},{x.depth},{hx(x.sep)}" for i, x in enumerate(nodes))


def _lk(nodes, idx, start, path) -> str:
    from bigtree import find_full_path
    try:
        r = find_full_path(start, path)
    except Exception:
        return "!"
    if r is None:
        return "-"
    return str(idx.get(id(r), "?"))


def show_lookups(nodes) -> str:
    idx = {id(x): i for i, x in enumerate(nodes)}
    out = []
    for si, st in enumerate(nodes):
        for ui, u in enumerate(nodes):
            out.append(f"{si}>{ui}={_lk(nodes, idx, st, u.path_name)}")
    for ui, u in enumerate(nodes):
        sp = u.sep
        out.append(f"a:{ui}={_lk(nodes, idx, u, u.path_name[len(sp):])}")
        out.append(f"b:{ui}={_lk(nodes, idx, u, u.path_name + sp)}")
    return " ".join(out)


def path_errors(nodes, names):
    """C03 read off the real objects: sibling names unique, path = sep + sep.join(route names),
    depth = length of the route, sep = the root's, paths pairwise distinct inside a tree"""
    msgs = []
    idx = {id(x): i for i, x in enumerate(nodes)}
    by_root = {}
    for i, x in enumerate(nodes):
        kids = [c.node_name for c in x.children]
        if len(set(kids)) != len(kids):
            msgs.append(f"node {i} has two children with the same name: {kids}")
        route, y = [], x
        while y is not None and len(route) <= len(nodes):
            route.append(y)
            y = y.parent
        route.reverse()
        root = route[0]
        rs = root.sep
        if x.sep != rs:
            msgs.append(f"node {i}: sep {x.sep!r} differs from its root's {rs!r}")
        want = rs + rs.join(names[idx[id(r)]] for r in route)
        if x.path_name != want:
            msgs.append(f"node {i}: path_name {x.path_name!r}, route from the root gives {want!r}")
        if x.depth != len(route):
            msgs.append(f"node {i}: depth {x.depth}, route length {len(route)}")
        by_root.setdefault(idx[id(root)], []).append(x.path_name)
    for r, ps in by_root.items():
        if len(set(ps)) != len(ps):
            msgs.append(f"tree of root {r}: path names are not pairwise distinct: {sorted(ps)}")
    return msgs


def lookup_errors(nodes):
    from bigtree import find_full_path
    msgs = []
    idx = {id(x): i for i, x in enumerate(nodes)}
    for si, st in enumerate(nodes):
        for ui, u in enumerate(nodes):
            if st.root is not u.root:
                continue
            sp = u.sep
            for q in (u.path_name, u.path_name[len(sp):], u.path_name + sp):
                try:
                    r = find_full_path(st, q)
                except Exception as e:  # noqa: BLE001
                    r = type(e).__name__
                if r is not u:
                    msgs.append(f"find_full_path(node {si}, {q!r}) returned {idx.get(id(r), r)} instead of node {ui}")
    return msgs


def dup_refusal_errors(before, op, outcome, after, names):
    """an attachment that would give two siblings the same name is refused and changes nothing"""
    k = op[0]
    clash = False
    if k in ("P", "L") and op[2] is not None and op[2] < len(before):
        v, p = op[1], op[2]
        clash = any(c != v and names[c] == names[v] for c in before[p][1])
    elif k in ("A", "R") and op[2] < len(before):
        p, v = op[1], op[2]
        clash = any(c != v and names[c] == names[v] for c in before[p][1])
    elif k == "C" and all(c < len(before) for c in op[2]):
        nm = [names[c] for c in op[2]]
        clash = len(set(nm)) != len(nm)
    if not clash:
        return []
    msgs = []
    if outcome != "rej":
        msgs.append(f"{fmt_op(op)}: would give two siblings the same name but was accepted")
    if [(p, list(c)) for p, c in after] != [(p, list(c)) for p, c in before]:
        msgs.append(f"{fmt_op(op)}: refused duplicate changed the store: {show_snap(before)} -> {show_snap(after)}")
    return msgs


# ------------------------------------------------------------------ C20: two-process evaluation
def _ids(idx, xs):
    return [idx.get(id(x), "?") for x in xs]


def battery(nodes, cls):
    """a battery of reader functions on the final objects; JSON-able, ids instead of objects"""
    import bigtree
    idx = {id(x): i for i, x in enumerate(nodes)}
    out = {}
    for i, x in enumerate(nodes):
        out[f"q{i}"] = [_ids(idx, x.ancestors), _ids(idx, x.descendants), _ids(idx, x.leaves), _ids(idx, x.siblings),
                        idx.get(id(x.left_sibling)), idx.get(id(x.right_sibling)), _ids(idx, x.node_path), x.is_root,
                        x.is_leaf, idx.get(id(x.root)), x.depth, x.max_depth, x.diameter]
    roots = [x for x in nodes if x.parent is None]
    for r in roots:
        k = idx[id(r)]
        out[f"it{k}"] = [_ids(idx, bigtree.preorder_iter(r)), _ids(idx, bigtree.postorder_iter(r)),
                         _ids(idx, bigtree.levelorder_iter(r)), [_ids(idx, g) for g in bigtree.levelordergroup_iter(r)],
                         _ids(idx, bigtree.zigzag_iter(r)), [_ids(idx, g) for g in bigtree.zigzaggroup_iter(r)],
                         _ids(idx, bigtree.preorder_iter(r, max_depth=2)),
                         _ids(idx, bigtree.findall(r, lambda nd: idx[id(nd)] % 2 == 0))]
        for other in nodes:
            if other.root is r:
                out[f"go{k}-{idx[id(other)]}"] = _ids(idx, r.go_to(other))
        if cls == "node":
            out[f"ex{k}"] = [bigtree.tree_to_dict(r), bigtree.tree_to_nested_dict(r), bigtree.tree_to_newick(r),
                             [list(t) for t in bigtree.yield_tree(r)] if hasattr(bigtree, "yield_tree") else None,
                             [list(map(str, t)) for t in bigtree.tree_to_dict(r, parent_key="p", name_key="n").items()]]
            # readers asked for something that is not there: which refusal (if any) is part of "the same result"
            def refusal(f):
                try:
                    f()
                    return "accepted"
                except Exception as e:  # noqa: BLE001
                    return type(e).__name__
            out[f"rf{k}"] = [refusal(lambda: bigtree.prune_tree(r, "zz/missing")),
                             refusal(lambda: bigtree.prune_tree(r, [r.path_name, "zz_missing"])),
                             refusal(lambda: bigtree.get_subtree(r, "zz_missing")),
                             refusal(lambda: bigtree.find_relative_path(r, "zz_missing")),
                             refusal(lambda: bigtree.shift_nodes(r.copy(), ["zz_missing"], [r.node_name + "/q"])),
                             refusal(lambda: bigtree.find_name(r, nodes[0].node_name) if False else bigtree.find_names(r, "zz"))]
            out[f"se{k}"] = [_ids(idx, bigtree.find_names(r, nodes[0].node_name)),
                             [idx.get(id(bigtree.find_full_path(r, x.path_name))) for x in nodes if x.root is r],
                             _ids(idx, bigtree.find_children(r, lambda nd: True)),
                             [x.path_name for x in nodes if x.root is r]]
    return out


def worker_eval(d):
    """executed inside a worker process: run the history, return the trace text and the reader battery"""
    nodes, tr = run_trace(d)
    if tr and tr[-1][0] in ("corrupt", "hang"):
        return {"trace": show_trace(tr), "battery": json.dumps({"corrupt": True})}
    try:
        bat = json.dumps(battery(nodes, d["cls"]), sort_keys=True, default=str)
    except Exception as e:  # noqa: BLE001  (a reader failing is itself an observable result)
        bat = json.dumps({"reader-raised": type(e).__name__})
    return {"trace": show_trace(tr), "battery": bat}


def accepted_history(rng: random.Random, cls, n, names, sep, nops):
    """a history every call of which is accepted with the checks on (built on the real objects; a
    refused candidate is dropped and the objects are rebuilt from the kept calls)"""
    d = mk_data(cls, n, names, sep, [])
    kept = []
    tries = 0
    nodes = make_nodes(d)
    while len(kept) < nops and tries < 4 * nops + 10:
        tries += 1
        cand = random_history(rng, cls, n, names, sep, 1, fault_rate=0.0, bad_rate=0.0, seps=[sep, "|"])[0]
        # random_history proposes from fresh nodes; re-draw arguments against the live state instead
        sn = snap(nodes)
        donors = [i for i, (_p, ch) in enumerate(sn) if len(ch) >= 3]
        if donors and rng.random() < 0.3:
            dn = rng.choice(donors)
            v = rng.choice([x for x in range(n) if x != dn])
            take = rng.sample(sn[dn][1], rng.randint(2, len(sn[dn][1])))
            cand = ["C", v, take, "none"]
        if apply_op(nodes, cand) == "ok" and healthy(nodes):
            kept.append(cand)
        else:
            nodes = make_nodes(d)
            for o in kept:
                apply_op(nodes, o)
    return kept
