"""Worker process of the two-interpreter tie (C20): started once with BIGTREE_CONF_ASSERTIONS unset
and once with it set to "" (bigtree reads the flag once, at import).  Protocol: one JSON object per
line on stdin {"fn": "<module>:<function>", "data": …} -> one JSON line on stdout {"ok": result} or
{"err": text}.  The first line printed is the handshake {"assertions": <flag as imported>}."""
import importlib, json, os, sys

HERE = os.path.dirname(os.path.abspath(__file__))
sys.path.insert(0, os.path.dirname(HERE))
import core  # noqa: E402,F401  (puts the repository on sys.path)


def main():
    import bigtree.globals as g
    import bigtree.node.basenode as bn
    sys.stdout.write(json.dumps({"assertions": bool(g.ASSERTIONS), "basenode": bool(bn.ASSERTIONS)}) + "\n")
    sys.stdout.flush()
    cache = {}
    for line in sys.stdin:
        line = line.strip()
        if not line:
            continue
        try:
            req = json.loads(line)
            fn = cache.get(req["fn"])
            if fn is None:
                modname, fname = req["fn"].split(":")
                fn = getattr(importlib.import_module(modname), fname)
                cache[req["fn"]] = fn
            out = {"ok": fn(req["data"])}
        except Exception as e:  # noqa: BLE001
            out = {"err": type(e).__name__ + ":" + str(e)[:300]}
        sys.stdout.write(json.dumps(out) + "\n")
        sys.stdout.flush()


if __name__ == "__main__":
    main()
