"""C13 — relation, nested-dict and heap-list constructors build exactly the given edges."""
from __future__ import annotations
import itertools, random, zlib
import core
from core import hx
from runner import Case
from props import _e_util as U

THEOREMS = ["C13.heap_store", "C13.heap_parent", "C13.heap_tree", "C13.heap_empty_refused",
            "C13.nested_mirror", "C13.nested_accepted_iff",
            "C13.relation_exact", "C13.relation_exact_rootrow", "C13.relation_children_in_row_order", "C13.root_candidates", "C13.relation_refused"]
PROOF_IMPORTS = ["BigtreeProofs.Properties.C13"]
NAMED_REJ = ("ValueError",)
LIBS = ["list", "pd", "pdobj", "pl"]

RULE = ("[25% of the cases build TWICE from the same input object and every constructor's input is deep-compared before/after; "
        "40% of the nested dictionaries contain one sub-dictionary OBJECT referenced from two places] relation constructors (list / pandas default dtypes / pandas dtype=object / polars, through the real "
        "libraries) on shuffled edge lists of random trees (<=30 nodes) with distinct non-leaf names, duplicated LEAF "
        "names, attribute columns with missing cells, optional null-parent root row, both allow_duplicates settings; "
        "malformed stream: no root, two roots, repeated non-leaf names, repeated rows, empty input; nested dicts "
        "mirroring random trees (custom keys, attributes, missing/empty child lists; malformed: equal sibling names, "
        "empty dict); heap lists of every length 0-70 with random ints; non-trivial = result has >=3 nodes")
EXHAUSTIVE = {
    "quick": "relations: every ordered tree with <=5 nodes x EVERY permutation of its edge rows (list and polars "
             "variants); heap: every list length 0..70",
    "thorough": "relations: every ordered tree with <=6 nodes x EVERY permutation of its edge rows (list variant; "
                "polars up to 5 nodes, pandas up to 4 nodes); heap: every list length 0..70",
}
MODELLED = [
    "inputs are values on the model side: a sub-dictionary object referenced from two places is seen expanded, and two "
    "builds from the same input object must both equal the model's single answer; the input itself is deep-compared "
    "before/after every call (oracle clause 'input not modified')",
    "a relation DataFrame is a list of rows (child, parent|missing, cells); columns are homogeneous "
    "(int|str|bool + missing); pandas' int->float up-casting is normalised (1.0 == 1)",
    "list_to_binarytree computes the parent index as int((i+1)/2)-1 in binary64 floats; the model computes "
    "(i+1)/2-1 on natural numbers (identical for i+1 < 2^53)",
    "the recursive descent of the relation constructors is modelled with fuel rows+1 (Python: recursion limit); "
    "cyclic inputs are outside the property's domain and are not generated",
    "EXCLUDED (environment): with the installed pandas 3.0.5 string columns have dtype `str` and a missing parent is "
    "NaN, which `set(parents) - set(children) - {None}` does not remove, so a null-parent root row is refused "
    "(ValueError 'Possible root nodes: [nan, a]'); witness dataframe_to_tree_by_relation(pd.DataFrame([['a',None,90],"
    "['b','a',65]],columns=['child','parent','age'])) and list_to_tree_by_relation([(None,'a'),('a','b')]). "
    "Null-parent root rows are generated for polars and for dtype=object pandas frames only.",
]
ASSUMPTIONS = [
    "theorem relation_exact: rows are a permutation of the edge list of a tree whose non-leaf names are pairwise "
    "distinct and differ from every leaf name, sibling names distinct, names non-empty",
    "heap elements are Python ints",
]


# ---------------------------------------------------------------- lines
def _line(d):
    fn = d["fn"]
    if fn == "rel":
        parts = ["fn=rel", "dupok=%d" % (1 if d["dupok"] else 0), "lib=" + d["lib"], "rep=%d" % d.get("rep", 1)]
        for c, p, a in d["rows"]:
            parts += ["R", hx(c), "-" if p is None else hx(p), core.enc_attrs(a)]
        return " ".join(parts)
    if fn == "nested":
        extra = "rep=%d alias=%s" % (d.get("rep", 1), ";".join(".".join(map(str, a)) + ">" + ".".join(map(str, b))
                                                                 for a, b in d.get("alias", [])) or "-")
        if d["nd"] is None:
            return "fn=nested keys=%s %s E" % (d.get("keys", 0), extra)
        def enc(t):
            return " ".join(["(", hx(t[0]), core.enc_attrs(t[1])] + [enc(c) for c in t[2]] + [")"])
        return "fn=nested keys=%s %s N %s" % (d.get("keys", 0), extra, enc(d["nd"]))
    if fn == "heap":
        return "fn=heap rep=%d xs=" % d.get("rep", 1) + (",".join(str(x) for x in d["xs"]) if d["xs"] else "e")
    raise ValueError(fn)


def mk(d, tags=()):
    return Case(_line(d), d, tags)


def rehydrate(case):
    return Case(_line(case.data), case.data, case.tags)


# ---------------------------------------------------------------- running the real code
def _prepare(d):
    """build the input OBJECT once; returns (invoke, inp, same) where invoke() calls the constructor on that very
    object, inp is the (mutable) input and same(x, y) compares two inputs deeply"""
    import bigtree, copy
    fn = d["fn"]
    plain = lambda x, y: x == y
    if fn == "rel":
        rows, lib = d["rows"], d["lib"]
        if lib == "list":
            inp = [(p, c) for c, p, _a in rows]
            return (lambda: bigtree.list_to_tree_by_relation(inp, allow_duplicates=d["dupok"])), inp, plain
        cols = []
        for _c, _p, a in rows:
            for k in a:
                if k not in cols:
                    cols.append(k)
        order = d.get("colorder", 0)
        if order == 0:
            frame = U.make_frame(lib, ["child", "parent"] + cols, [[c, p] + [a.get(k) for k in cols] for c, p, a in rows],
                                 str_cols=("child", "parent"))
            kw = {}
        else:
            frame = U.make_frame(lib, cols + ["parent", "child"], [[a.get(k) for k in cols] + [p, c] for c, p, a in rows],
                                 str_cols=("child", "parent"))
            kw = {"child_col": "child", "parent_col": "parent"}
        same = lambda x, y: (list(x.columns) == list(y.columns) and bool(x.equals(y))
                             and dict(getattr(x, "attrs", {}) or {}) == dict(getattr(y, "attrs", {}) or {}))
        if lib == "pl":
            return (lambda: bigtree.polars_to_tree_by_relation(frame, allow_duplicates=d["dupok"], **kw)), frame, same
        return (lambda: bigtree.dataframe_to_tree_by_relation(frame, allow_duplicates=d["dupok"], **kw)), frame, same
    if fn == "nested":
        keys = d.get("keys", 0)
        nk, ck = ("name", "children") if keys == 0 else ("node_name", "kids")
        if d["nd"] is None:
            arg = {}
        else:
            alias = {}                                   # the two addresses carry the SAME dict object
            for src, dst in d.get("alias", []):
                alias[tuple(dst)] = tuple(src)
                alias[tuple(src)] = tuple(dst)
            objs = {}
            def build(t, addr):
                if addr in alias and alias[addr] in objs:
                    return objs[alias[addr]]
                dd = {nk: t[0]}
                dd.update(t[1])
                if t[2] or (len(t[0]) + len(addr)) % 2 == 0:   # leaves: child list sometimes absent, sometimes []
                    dd[ck] = [build(c, addr + (k,)) for k, c in enumerate(t[2])]
                objs[addr] = dd
                return dd
            arg = build(d["nd"], ())
        if keys == 0:
            return (lambda: bigtree.nested_dict_to_tree(arg)), arg, plain
        return (lambda: bigtree.nested_dict_to_tree(arg, name_key=nk, child_key=ck)), arg, plain
    if fn == "heap":
        inp = list(d["xs"])
        return (lambda: bigtree.list_to_binarytree(inp)), inp, plain
    raise ValueError(fn)


def _snapshot(inp):
    import copy
    if hasattr(inp, "clone"):       # polars
        return inp.clone()
    if hasattr(inp, "copy") and hasattr(inp, "columns"):   # pandas
        return inp.copy(deep=True)
    return copy.deepcopy(inp)


def _runs(d):
    """[(root | None, exception | None)] for each of the d['rep'] builds from the same input object,
    and whether the input object was left unchanged"""
    invoke, inp, same = _prepare(d)
    before = _snapshot(inp)
    out = []
    for _ in range(d.get("rep", 1)):
        try:
            out.append((invoke(), None))
        except Exception as e:
            out.append((None, e))
    return out, bool(same(before, inp))


def _show(root):
    out = []
    def go(n):
        out.append("( %s %s" % (hx(n.node_name), U.enc_attrs_sorted(U.node_attrs(n))))
        for c in n.children:
            go(c)
        out.append(")")
    go(root)
    return " ".join(out)


def _showb(n):
    if n is None:
        return "_"
    return "( %s %s %s )" % (hx(n.node_name), _showb(n.left), _showb(n.right))


def _canon1(d, root, err):
    if err is not None:
        return U.rej(err, NAMED_REJ)
    if d["fn"] == "heap":
        return "ok " + _showb(root)
    return "ok " + _show(root)


def impl(case):
    d = case.data
    runs, _unchanged = _runs(d)
    outs = [_canon1(d, r, e) for r, e in runs]
    # repeated builds from the same input object must all give the model's answer
    return outs[0] if all(o == outs[0] for o in outs) else " || ".join(outs)


def worker_impl(d):
    """executed in a worker interpreter (props/_twoproc.py): the outcome line of one case"""
    return impl(Case("", d, ()))


# ---------------------------------------------------------------- oracle (model-free)
def oracle(case):
    msgs = _oracle(case)
    if not msgs:
        here = impl(case)
        if here.startswith("rej:"):
            # no / several roots, an ambiguous non-leaf name, ...: refused whatever BIGTREE_CONF_ASSERTIONS says
            from props import _twoproc
            off = _twoproc.refusal_differs_off("props.C13:worker_impl", case.data, here, case.line, every=4)
            if off is not None:
                msgs.append(f"with BIGTREE_CONF_ASSERTIONS switched off the input is no longer refused as {here}: {off[:120]}")
        elif case.data["fn"] == "heap" and len(case.data["xs"]) <= 120 and zlib.crc32(case.line.encode()) % 2 == 0:
            # the heap placement is no matter of the optional type / loop checks either: the same list in the interpreter
            # started with BIGTREE_CONF_ASSERTIONS="" gives the same tree
            from props import _twoproc
            off = _twoproc.call("off", "props.C13:worker_impl", case.data)
            if off != here:
                msgs.append(f"with BIGTREE_CONF_ASSERTIONS switched off list_to_binarytree builds another tree: {off[:160]} vs {here[:160]}")
    return msgs


def _oracle(case):
    d = case.data
    runs, unchanged = _runs(d)
    msgs = []
    for k, (root, err) in enumerate(runs):
        for m in _oracle1(d, root, err):
            msgs.append(m if k == 0 else "build #%d from the same input object: %s" % (k + 1, m))
    if not unchanged:
        msgs.append(f"{d['fn']}: the constructor modified its input")
    return msgs


def _oracle1(d, root, err):
    fn = d["fn"]
    msgs = []
    if fn == "heap":
        xs = d["xs"]
        if not xs:
            return msgs
        if err is not None:
            return [f"heap: list of length {len(xs)} refused: {type(err).__name__}: {err}"]
        # element i must be the child of element (i-1)//2: left for odd i, right for even i
        pos = {}
        def walk(n, i):
            if n is None:
                return
            pos.setdefault(i, []).append(n)
            walk(n.left, 2 * i + 1)
            walk(n.right, 2 * i + 2)
        walk(root, 0)
        if sorted(pos) != list(range(len(xs))) or any(len(v) != 1 for v in pos.values()):
            return [f"heap: occupied heap positions {sorted(pos)} for a list of length {len(xs)}"]
        for i, x in enumerate(xs):
            n = pos[i][0]
            if n.node_name != str(x) or n.val != x:
                msgs.append(f"heap: position {i} holds {n.node_name}, expected {x}")
                break
            if i >= 1:
                p = pos[(i - 1) // 2][0]
                if n.parent is not p or (p.left if i % 2 == 1 else p.right) is not n:
                    msgs.append(f"heap: element {i} is not the {'left' if i % 2 else 'right'} child of element {(i - 1) // 2}")
                    break
        return msgs
    if fn == "nested":
        nd = d["nd"]
        if nd is None:
            return msgs
        def sibdup(t):
            nm = [c[0] for c in t[2]]
            return len(set(nm)) != len(nm) or any(sibdup(c) for c in t[2])
        def emptyname(t):
            return t[0] == "" or any(emptyname(c) for c in t[2])
        if sibdup(nd) or emptyname(nd):
            return msgs     # not a tree bigtree can represent; the property does not speak about it
        if err is not None:
            return [f"nested: valid nested dict refused: {type(err).__name__}: {err}"]
        def cmp(n, t, path):
            if n.node_name != t[0]:
                msgs.append(f"nested: node at {path} is called {n.node_name!r}, dict says {t[0]!r}"); return
            if U.node_attrs(n) != {k: U.norm_val(v) for k, v in t[1].items()}:
                msgs.append(f"nested: attributes at {path}: {U.node_attrs(n)} vs {t[1]}"); return
            if [c.node_name for c in n.children] != [c[0] for c in t[2]]:
                msgs.append(f"nested: children at {path}: {[c.node_name for c in n.children]} vs {[c[0] for c in t[2]]}"); return
            for k, (c, tc) in enumerate(zip(n.children, t[2])):
                cmp(c, tc, path + (k,))
        if root.parent is not None:
            msgs.append("nested: result is not a root")
        cmp(root, nd, ())
        return msgs
    # ---- relations
    rows = d["rows"]
    if not rows:
        return msgs
    edge_rows = [(c, p, a) for c, p, a in rows if p is not None]
    root_rows = [(c, p, a) for c, p, a in rows if p is None]
    children = [c for c, _p, _a in edge_rows]
    parents = [p for _c, p, _a in edge_rows]
    never_child = sorted({p for p in parents if p not in set(children)} | {c for c, _p, _a in root_rows})
    if len(never_child) != 1:
        if err is None:
            msgs.append(f"rel: {len(never_child)} possible roots {never_child} but the input was accepted")
        elif type(err).__name__ != "ValueError":
            msgs.append(f"rel: bad root refused with {type(err).__name__} instead of ValueError")
        return msgs
    # repeated non-leaf child under different parents
    nonleaf = set(parents)
    amb = sorted({c for c in children if c in nonleaf and len({p for c2, p, _ in edge_rows if c2 == c}) > 1})
    if amb and not d["dupok"]:
        if err is None:
            msgs.append(f"rel: ambiguous repeated non-leaf name(s) {amb} accepted with allow_duplicates=False")
        elif type(err).__name__ != "ValueError":
            msgs.append(f"rel: ambiguous input refused with {type(err).__name__} instead of ValueError")
        return msgs
    tree_like = (not amb and len(set((p, c) for c, p, _ in edge_rows)) == len(edge_rows)
                 and all(c != "" for c in children) and len(root_rows) <= 1
                 and len({c for c in children if c in nonleaf}) == len([c for c in children if c in nonleaf])
                 and never_child[0] not in children)
    if tree_like:
        # every non-leaf name occurs as a child at most once; is everything reachable from the root?
        reach, todo = {never_child[0]}, [never_child[0]]
        while todo:
            x = todo.pop()
            for c, p, _ in edge_rows:
                if p == x and c not in reach:
                    reach.add(c); todo.append(c)
        tree_like = all(p in reach for p in parents)
    if not tree_like:
        return msgs       # not a tree presented as relations: outside the property
    if err is not None:
        return [f"rel: tree-shaped relation list refused: {type(err).__name__}: {err}"]
    if root.node_name != never_child[0] or root.parent is not None:
        msgs.append(f"rel: root is {root.node_name}, the never-child name is {never_child[0]}")
    nodes = U.preorder(root)
    if len(nodes) != len(edge_rows) + 1:
        msgs.append(f"rel: {len(nodes)} nodes for {len(edge_rows)} edges")
    got_edges = sorted((n.parent.node_name, n.node_name) for n in nodes if n.parent is not None)
    if got_edges != sorted((p, c) for c, p, _ in edge_rows):
        msgs.append(f"rel: edges {got_edges} differ from the given pairs")
    for n in nodes:
        want = [c for c, p, _ in edge_rows if p == n.node_name]
        if [c.node_name for c in n.children] != want:
            msgs.append(f"rel: children of {n.node_name} are {[c.node_name for c in n.children]}, rows say {want}")
            break
    for n in nodes:
        if n.parent is None:
            cells = root_rows[0][2] if root_rows else {}
        else:
            cells = [a for c, p, a in edge_rows if c == n.node_name and p == n.parent.node_name][0]
        want = {k: U.norm_val(v) for k, v in cells.items() if v is not None}
        if U.node_attrs(n) != want:
            msgs.append(f"rel: attributes of {n.node_name} under {n.parent.node_name if n.parent else None}: "
                        f"{U.node_attrs(n)}, row says {want}")
            break
    return msgs


# ---------------------------------------------------------------- generators
def _rel_rows_of(spec, cols, rng, p_none=0.25):
    """edge rows (child, parent, cells) in pre-order; spec = [name, attrs, kids]"""
    rows = []
    def go(t):
        for c in t[2]:
            a = {k: (None if rng.random() < p_none else U.rand_attr_value(rng, k)) for k in cols}
            rows.append([c[0], t[0], a])
            go(c)
    go(spec)
    return rows


def _label_rel(shape, rng, leaf_pool):
    """distinct non-leaf names; leaf names drawn from a small pool (duplicates across parents allowed,
    never among siblings, never equal to a non-leaf name)"""
    ctr = itertools.count()
    def go(s):
        if not s:
            return None
        nm = "N%d" % next(ctr)
        kids = []
        used = set()
        for c in s:
            if c:
                kids.append(go(c))
            else:
                pool = [x for x in leaf_pool if x not in used] or ["L%d" % next(ctr)]
                x = rng.choice(pool)
                used.add(x)
                kids.append([x, {}, []])
        return [nm, {}, kids]
    r = go(shape)
    return r if r is not None else ["N0", {}, []]


def _rand_rel(rng, malformed=False):
    lib = rng.choice(LIBS)
    size = rng.choice([2, 3, 4, 6, 9, 14, 20, 30])
    shape = core.random_shape(rng, size)
    spec = _label_rel(shape, rng, rng.choice([U.NAME_FAMILY, ["x", "y"], ["l%d" % i for i in range(40)]]))
    cols = [] if lib == "list" else rng.choice([[], ["v"], ["v", "w"], ["age", "f"], ["w"], ["g"], ["v", "g"], ["first name", "class"], ["2024"]])
    rows = _rel_rows_of(spec, cols, rng)
    rng.shuffle(rows)
    tags = ["rel", "lib=" + lib]
    if lib in ("pl", "pdobj") and rng.random() < 0.4:
        a = {k: (None if rng.random() < 0.25 else U.rand_attr_value(rng, k)) for k in cols}
        rows.insert(rng.randint(0, len(rows)), [spec[0], None, a])
        tags.append("rootrow")
    dupok = rng.random() < 0.4
    if malformed:
        kind = rng.choice(["noroot", "tworoots", "tworoots", "dupnonleaf", "dupnonleaf", "duprow", "empty"])
        tags.append("malformed:" + kind)
        blank = {k: None for k in cols}
        if kind == "noroot":
            rows = [r for r in rows if r[1] is not None]
            rows.insert(rng.randint(0, len(rows)), [spec[0], rng.choice([r[0] for r in rows]), dict(blank)])
        elif kind == "tworoots":
            rows.insert(rng.randint(0, len(rows)), ["zz1", "ZZ", dict(blank)])
            if rng.random() < 0.5:
                rows.insert(rng.randint(0, len(rows)), ["zz2", "ZZ", dict(blank)])
        elif kind == "dupnonleaf":
            nonleaf = sorted({r[1] for r in rows if r[1] is not None} - {spec[0]})
            if nonleaf:
                x = rng.choice(nonleaf)
                others = sorted({r[1] for r in rows if r[1] is not None and r[1] != x} - {x})
                par_of_x = [r[1] for r in rows if r[0] == x]
                others = [o for o in others if o not in par_of_x]
                # avoid creating a cycle: the new parent must not be a descendant of x
                desc, todo = {x}, [x]
                while todo:
                    y = todo.pop()
                    for r in rows:
                        if r[1] == y and r[0] not in desc:
                            desc.add(r[0]); todo.append(r[0])
                others = [o for o in others if o not in desc]
                if others:
                    rows.insert(rng.randint(0, len(rows)), [x, rng.choice(others), dict(blank)])
                    dupok = rng.random() < 0.25
        elif kind == "duprow":
            r = rng.choice([r for r in rows if r[1] is not None])
            rows.insert(rng.randint(0, len(rows)), [r[0], r[1], dict(r[2])])
        elif kind == "empty":
            rows = []
    d = {"fn": "rel", "lib": lib, "dupok": dupok, "rows": rows, "colorder": rng.choice([0, 0, 1]),
         "rep": rng.choice([1, 1, 1, 2])}
    tags.append("dupok" if dupok else "nodup")
    tags.append("rep=%d" % d["rep"])
    tags.append("n=%d" % min(30, len(rows)))
    return mk(d, tags)


def _rand_nested(rng, malformed=False):
    size = rng.choice([1, 2, 3, 5, 8, 13, 21, 30])
    shape = core.random_shape(rng, size)
    spec = core.label_sibling_unique(shape, rng, U.NAME_FAMILY + ["n%d" % i for i in range(8)])
    cols = rng.choice([[], ["v"], ["v", "w"], ["age", "f", "w"]])
    def deco(t):
        a = {}
        for k in cols:
            if rng.random() < 0.6:
                a[k] = None if rng.random() < 0.15 else U.rand_attr_value(rng, k)
        return [t[0], a, [deco(c) for c in t[2]]]
    nd = deco(spec)
    tags = ["nested", "n=%d" % size]
    if malformed:
        kind = rng.choice(["sibdup", "sibdup", "empty"])
        tags.append("malformed:" + kind)
        if kind == "empty":
            nd = None
        else:
            nodes = [s for _a, s in core.spec_nodes(nd) if len(s[2]) >= 1]
            if nodes:
                s = rng.choice(nodes)
                s[2].insert(rng.randint(0, len(s[2])), [rng.choice(s[2])[0], {}, []])
            else:
                nd = None
    alias = []
    if nd is not None and not malformed and rng.random() < 0.4:
        # one sub-dictionary OBJECT referenced from two places: copy a subtree under another parent
        for _ in range(1):
            nodes = core.spec_nodes(nd)
            cand = [(a, s) for a, s in nodes if a != ()]
            if not cand:
                break
            withkids = [(a, s) for a, s in cand if s[2]]
            a_src, s_src = rng.choice(withkids or cand)
            parents = [(a, s) for a, s in nodes
                       if tuple(a[:len(a_src)]) != tuple(a_src) and all(c[0] != s_src[0] for c in s[2])]
            if not parents:
                break
            a_par, s_par = rng.choice(parents)
            import copy as _copy
            s_par[2].append(_copy.deepcopy(s_src))
            alias.append([list(a_src), list(a_par) + [len(s_par[2]) - 1]])
        if alias:
            tags.append("alias")
    rep = rng.choice([1, 1, 1, 2])
    tags.append("rep=%d" % rep)
    return mk({"fn": "nested", "nd": nd, "keys": rng.choice([0, 0, 1]), "alias": alias, "rep": rep}, tags)


def _heap(rng, n):
    xs = [rng.choice([rng.randint(-5, 20), rng.randint(-10 ** 6, 10 ** 6), 7]) for _ in range(n)]
    rep = rng.choice([1, 1, 2])
    return mk({"fn": "heap", "xs": xs, "rep": rep}, ("heap", "len=%d" % n, "rep=%d" % rep))


def _exhaustive(tier):
    out = []
    nmax = 5 if tier == "quick" else 6
    for shape in core.all_shapes_upto(nmax):
        n = core.shape_size(shape)
        if n < 2:
            continue
        ctr = itertools.count()
        def go(s):
            return ["N%d" % next(ctr), {}, [go(c) for c in s]]
        spec = go(shape)
        rows = _rel_rows_of(spec, [], random.Random(0))
        for perm in itertools.permutations(rows):
            libs = ["list", "pl"] if n <= 5 else ["list"]
            if tier == "thorough" and n <= 4:
                libs = ["list", "pl", "pd"]
            for lib in libs:
                out.append(mk({"fn": "rel", "lib": lib, "dupok": False, "rows": [list(r) for r in perm], "colorder": 0},
                              ("exh-rel", "lib=" + lib)))
    return out


def _corpus():
    out = []
    # docstring examples
    rel = [("a", "b"), ("a", "c"), ("b", "d"), ("b", "e"), ("c", "f"), ("e", "g"), ("e", "h")]
    out.append(mk({"fn": "rel", "lib": "list", "dupok": False, "rows": [[c, p, {}] for p, c in rel], "colorder": 0}, ("corpus",)))
    # duplicated leaf names, deep chain in reverse row order (fuel = rows + 1 is needed)
    chain = [["N%d" % (i + 1), "N%d" % i, {}] for i in range(12)][::-1]
    out.append(mk({"fn": "rel", "lib": "list", "dupok": False, "rows": chain, "colorder": 0}, ("corpus", "chain")))
    out.append(mk({"fn": "rel", "lib": "pl", "dupok": False,
                   "rows": [["x", "N1", {"v": 1}], ["x", "N2", {"v": 2}], ["N1", "N0", {"v": None}], ["N2", "N0", {"v": 4}],
                            ["N0", None, {"v": 9}]], "colorder": 0}, ("corpus", "dupleaf")))
    out.append(mk({"fn": "heap", "xs": list(range(1, 11))}, ("corpus",)))
    # one sub-dictionary object at two places; two builds from the same input object
    shared = ["x", {"kind": "shared"}, [["y", {}, []], ["z", {}, []]]]
    import copy as _copy
    nd = ["r", {}, [["left", {}, [_copy.deepcopy(shared)]], ["right", {}, [_copy.deepcopy(shared)]]]]
    for rep in (1, 2):
        for al in ([], [[[0, 0], [1, 0]]]):
            out.append(mk({"fn": "nested", "nd": _copy.deepcopy(nd), "keys": 0, "alias": al, "rep": rep}, ("corpus", "alias")))
    out.append(mk({"fn": "rel", "lib": "list", "dupok": False, "rows": [[c, p, {}] for p, c in rel], "colorder": 0, "rep": 2},
                  ("corpus", "rep=2")))
    out.append(mk({"fn": "rel", "lib": "pd", "dupok": False, "rows": [[c, p, {"v": 1}] for p, c in rel], "colorder": 0,
                   "rep": 2}, ("corpus", "rep=2")))
    out.append(mk({"fn": "rel", "lib": "pl", "dupok": False, "rows": [[c, p, {"v": 1}] for p, c in rel], "colorder": 0,
                   "rep": 2}, ("corpus", "rep=2")))
    out.append(mk({"fn": "heap", "xs": [3, 0, 0, 5, 0], "rep": 2}, ("corpus", "rep=2")))
    # refusals, once per library and duplicate setting
    amb = [["x", "a", {}], ["b", "a", {}], ["x", "b", {}], ["y", "x", {}]]           # x is a parent, under a and under b
    noroot = [["b", "a", {}], ["c", "b", {}], ["a", "c", {}]]
    tworoots = [["b", "a", {}], ["d", "c", {}], ["e", "d", {}]]
    dupleafs = [["x", "a", {}], ["b", "a", {}], ["x", "b", {}]]                       # fine: x is a leaf twice
    for lib in LIBS:
        for dupok in (False, True):
            for nm, rows in (("amb", amb), ("noroot", noroot), ("tworoots", tworoots), ("dupleafs", dupleafs)):
                out.append(mk({"fn": "rel", "lib": lib, "dupok": dupok, "rows": [list(r) for r in rows], "colorder": 0},
                              ("corpus", nm, "lib=" + lib)))
    return out


def gen(rng: random.Random, tier: str):
    cases = list(_corpus())
    cases += _exhaustive(tier)
    n = 500 if tier == "quick" else 5000
    for _ in range(n):
        cases.append(_rand_rel(rng, malformed=(rng.random() < 0.3)))
    for _ in range(n // 2):
        cases.append(_rand_nested(rng, malformed=(rng.random() < 0.2)))
    for ln in range(0, 71):
        for _ in range(1 if tier == "quick" else 6):
            cases.append(_heap(rng, ln))
    # large inputs: more than 1000 relation rows in shuffled order (own PRNG), a heap list beyond 1000 elements
    r2 = random.Random(20240)
    for lib in LIBS:
        rows = [["n%02d" % i, "r", ({"v": i} if lib != "list" and i % 5 == 0 else {})] for i in range(34)]
        rows += [["l%02d_%02d" % (i, j), "n%02d" % i, ({"v": j} if lib != "list" and j % 9 == 0 else {})]
                 for i in range(34) for j in range(30)]
        r2.shuffle(rows)
        cases.append(mk({"fn": "rel", "lib": lib, "dupok": False, "rows": rows, "colorder": 0, "rep": 1}, ("rel", "large", "lib=" + lib)))
    cases.append(_heap(r2, 1100))
    return cases


def nontrivial(case):
    d = case.data
    if d["fn"] == "heap":
        return len(d["xs"]) >= 3
    if d["fn"] == "nested":
        return d["nd"] is not None and core.spec_size(d["nd"]) >= 3
    return len(d["rows"]) >= 2


# ---------------------------------------------------------------- shrinking
def shrink(case):
    d = case.data
    if d["fn"] != "nested" and d.get("rep", 1) > 1:
        yield mk(dict(d, rep=1), case.tags)
    if d["fn"] == "heap":
        xs = d["xs"]
        if len(xs) > 1:
            yield mk(dict(d, xs=xs[:-1]), case.tags)
        if any(x != i for i, x in enumerate(xs)):
            yield mk(dict(d, xs=list(range(len(xs)))), case.tags)
        return
    if d["fn"] == "rel":
        rows = d["rows"]
        for k in range(len(rows)):
            # removing a leaf edge keeps a tree a tree
            if not any(r[1] == rows[k][0] for r in rows):
                yield mk(dict(d, rows=rows[:k] + rows[k + 1:]), case.tags)
        for k, r in enumerate(rows):
            if any(v is not None for v in r[2].values()):
                yield mk(dict(d, rows=rows[:k] + [[r[0], r[1], {key: None for key in r[2]}]] + rows[k + 1:]), case.tags)
        if d["lib"] != "list" and not any(r[2] for r in rows) and not any(r[1] is None for r in rows):
            yield mk(dict(d, lib="list"), case.tags)
        return
    nd = d["nd"]
    if nd is None:
        return
    if d.get("rep", 1) > 1 and not d.get("alias"):
        yield mk(dict(d, rep=1), case.tags)
    if d.get("alias"):
        yield mk(dict(d, alias=[]), case.tags)
        return          # addresses in `alias` would dangle after removing nodes
    nodes = core.spec_nodes(nd)
    for idx in range(len(nodes) - 1, 0, -1):
        addr, s = nodes[idx]
        if s[2]:
            continue
        def remove(t, a):
            if len(a) == 1:
                return [t[0], t[1], t[2][:a[0]] + t[2][a[0] + 1:]]
            return [t[0], t[1], [remove(c, a[1:]) if k == a[0] else c for k, c in enumerate(t[2])]]
        yield mk(dict(d, nd=remove(nd, list(addr))), case.tags)


NOT_READY = False
LEVEL_TEXT = ("proof: Lean 4 kernel-checked theorems about the executable models: relation_exact (rows = ANY permutation of "
              "the edge list of a tree with pairwise different sibling names whose non-leaf names are carried by no other "
              "node: accepted for both allow_duplicates settings, root = the unique root candidate, edges of the result = "
              "the rows as a multiset, so the fuel rows+1 sufficed), relation_children_in_row_order (for EVERY accepted "
              "input the children of each node are the rows naming it as parent, in row order, with the row's non-null "
              "cells), relation_exact_rootrow (the same with a null-parent root row: the root carries its non-null cells), "
              "root_candidates, relation_refused (no/several root candidates, repeated non-leaf child under different "
              "parents => ValueError), nested_mirror and nested_accepted_iff (the result read back as a nested dict is the "
              "input; accepted iff names non-empty and sibling names distinct), heap_store / heap_parent / heap_tree "
              "(element i is the child of element (i-1)/2, left for odd i, right for even i, no other slot points to it; "
              "the returned tree is the heap-shaped tree of the list)")
LEVEL_NOTE = ("relation_exact is stated for plain edge lists, relation_exact_rootrow for edge lists with one null-parent "
              "root row; the float index expression "
              "int((i+1)/2)-1 is modelled on natural numbers; pandas/polars are exercised through the real libraries by "
              "the correspondence check (list / pandas / pandas dtype=object / polars), not proved; a null-parent root row "
              "in a default-dtype pandas 3 frame is refused by the pinned code (environment incompatibility, excluded)")
TECHNIQUE = ("machine-checked proof (Lean 4) on an executable model + differential correspondence check against the real "
             "constructors, model-free oracle on every case")
RULE = RULE + ' Fourth session: non-default unique pandas indices, DataFrame.attrs in the input-unmodified comparison, an opaque float column g (incl. +-inf), 1054 relation rows per library, a heap list of 1100 elements.'
RULE = RULE + ' Fifth session: half of the heap lists up to 120 elements are also built in the interpreter started with the checks off.'
