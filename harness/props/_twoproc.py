"""Two persistent interpreter processes, one with the assertion checks on (BIGTREE_CONF_ASSERTIONS
unset) and one with them off (set to the empty string); see _twoproc_worker.py."""
from __future__ import annotations
import atexit, json, os, subprocess, sys

HERE = os.path.dirname(os.path.abspath(__file__))
_PROCS = {}


def _start(which: str):
    env = dict(os.environ)
    env.pop("BIGTREE_CONF_ASSERTIONS", None)
    if which == "off":
        env["BIGTREE_CONF_ASSERTIONS"] = ""
    # "onO": the default configuration in an optimising interpreter (python -O, variable unset): the checks are
    # documented to be on unless BIGTREE_CONF_ASSERTIONS says otherwise; what it reports is compared, not assumed
    flags = ["-O"] if which == "onO" else []
    p = subprocess.Popen([sys.executable] + flags + [os.path.join(HERE, "_twoproc_worker.py")], stdin=subprocess.PIPE,
                         stdout=subprocess.PIPE, text=True, env=env, bufsize=1)
    hello = json.loads(p.stdout.readline())
    want = which == "on"
    if which != "onO" and (hello.get("assertions") is not want or hello.get("basenode") is not want):
        raise RuntimeError(f"worker '{which}' imported bigtree with ASSERTIONS={hello}")
    _PROCS[which] = p
    return p


def call(which: str, fn: str, data):
    """run `fn` ("module:function") on `data` in the process with the checks `which` in {"on","off"}"""
    p = _PROCS.get(which)
    if p is None or p.poll() is not None:
        p = _start(which)
    p.stdin.write(json.dumps({"fn": fn, "data": data}) + "\n")
    p.stdin.flush()
    line = p.stdout.readline()
    if not line:
        raise RuntimeError(f"worker '{which}' died")
    out = json.loads(line)
    if "err" in out:
        raise RuntimeError(f"worker '{which}': {out['err']}")
    return out["ok"]


def refusal_differs_off(fn_ref: str, d, here: str, line: str, every: int = 5):
    """`here` is the in-process outcome of a case that the library REFUSED for a reason the property itself demands (not one
    of the optional type / loop checks).  For one in `every` such cases the same case is run in the interpreter that was
    started with BIGTREE_CONF_ASSERTIONS=""; returns its outcome when it differs, else None."""
    import zlib
    if zlib.crc32(line.encode()) % every:
        return None
    off = call("off", fn_ref, d)
    return None if off == here else off


@atexit.register
def _stop():
    for p in _PROCS.values():
        try:
            p.stdin.close()
            p.wait(timeout=5)
        except Exception:  # noqa: BLE001
            p.kill()
