"""C03 — a Node's path identifies it: sibling names unique, paths exact, separator = the root's."""
from __future__ import annotations
import random
from runner import Case
from props import _store_util as U

THEOREMS = [
    "C03.sib_unique_step", "C03.sib_unique_run", "C03.pathNames_injective", "C03.split_join",
    "C03.path_name_injective", "C03.path_name_eq", "C03.depth_eq_length", "C03.sep_is_root_sep",
    "C03.find_full_path_path_name", "C03.find_full_path_variants", "C03.dup_refused_unchanged",
    "C03.split_join_multi", "C03.path_name_injective_multi", "C03.find_full_path_multi",
]
RULE = ("Node histories (user subclass with raising hooks) with names from {a,b,ab,ba,aa,'a b','a.b'} (equal names in "
        "different branches, prefix/suffix related names), separators / . \\ | and '::' sharing no character with a "
        "name; after every call: outcome, store, path_name/depth/sep of every node; on the final store "
        "find_full_path(start, path_name(u)) for every ordered pair of nodes plus the variants without leading / with "
        "trailing separator.  Non-trivial: some node reaches depth >= 2 in the history.")
EXHAUSTIVE = {
    "quick": "all forests reachable on 3 Node objects x every op/argument/fault tuple, for the name assignments (a,b,a) and (a,ab,b)",
    "thorough": "the same on 3 nodes for four name assignments and on 4 nodes for (a,b,a,ab)",
}
MODELLED = ["strings are lists of characters; str.split / lstrip / rstrip / join re-implemented on them",
            "find_child_by_name raising SearchError (two children with one name) is an outcome, unreachable under the invariant"]
ASSUMPTIONS = ["theorems about path strings assume non-empty names and a non-empty separator (of any length) that shares no "
               "character with a name (for a one-character separator: it occurs in no name); names that merely start or end "
               "with a character of a multi-character separator are mis-parsed by lstrip/rstrip - known finding K7",
               "renaming through node.name = ... / set_attrs is not a structural operation (excluded by the statement)"]


def mk_case(d, tags=()):
    return Case(U.mk_line(d), d, tags)


def pick_names(rng, n, seps, mode):
    pool = [x for x in U.NAMES if not any(ch in x for s in seps for ch in s)]
    if mode == "clashy":
        return [rng.choice(pool[:3] if len(pool) >= 3 else pool) for _ in range(n)]
    if mode == "distinctish":
        out = [pool[k % len(pool)] + ("" if k < len(pool) else "b") for k in range(n)]
        rng.shuffle(out)
        return out
    return [rng.choice(pool) for _ in range(n)]


def corpus():
    out = []
    # >= 5 siblings, the clash is with the LAST one (the "first three siblings" mutant)
    names = ["r", "a", "b", "ab", "ba", "aa", "aa", "ba", "a"]
    for op in (["P", 6, 0, "none"], ["A", 0, 6, "none"], ["R", 0, 6, "none"], ["L", 6, 0, "none"],
               ["P", 7, 0, "none"], ["E", 0, [8, 6], "none", 0], ["C", 0, [1, 2, 3, 4, 5, 6], "none"],
               ["C", 0, [6, 1, 2, 3, 4, 5], "none"], ["C", 0, [1, 2, 3, 7, 4], "none"]):
        out.append(mk_case(U.mk_data("node", 9, names, "/", [["C", 0, [1, 2, 3, 4, 5], "none"], op, ["P", 5, None, "none"], op]), ("corpus", "clash-last")))
    # a WIDE parent (66 children attached one by one), then one child swapped for a new one through the children setter
    # (same length), then a duplicate of the new child's name (refused) and a node named like the dropped child (accepted)
    wnames = ["r"] + ["c%d" % i for i in range(1, 67)] + ["new", "new", "c66"]
    wops = [["P", i, 0, "none"] for i in range(1, 67)]
    wops += [["C", 0, list(range(1, 66)) + [67], "none"], ["P", 68, 0, "none"], ["P", 69, 0, "none"], ["X", 0, "c66", "none"],
             ["P", 66, 0, "none"], ["P", 68, 0, "post"], ["A", 0, 68, "none"]]
    out.append(mk_case(U.mk_data("node", 70, wnames, "/", wops), ("corpus", "wide-parent")))
    # re-rooting and separator changes
    out.append(mk_case(U.mk_data("node", 4, ["a", "b", "a", "ab"], "/", [["P", 1, 0, "none"], ["P", 2, 1, "none"], ["Z", 2, "."], ["P", 1, None, "none"], ["Z", 2, "|"], ["P", 3, 2, "none"], ["P", 1, 0, "none"]]), ("corpus", "reroot")))
    out.append(mk_case(U.mk_data("node", 3, ["a", "b", "c"], "::", [["P", 1, 0, "none"], ["P", 2, 1, "none"], ["Z", 0, "/"], ["P", 2, None, "none"]]), ("corpus", "sep::")))
    return out


def gen(rng: random.Random, tier: str):
    cases = corpus()
    plan = [(3, ["a", "b", "a"]), (3, ["a", "ab", "b"])]
    if tier == "thorough":
        plan += [(3, ["a", "a", "a"]), (3, ["a b", "a.b", "aa"]), (4, ["a", "b", "a", "ab"])]
    for n, names in plan:
        uni = U.arg_universe(n, "node", names)
        paths = U.explore("node", n, names, "/", uni)
        for _st, path in paths.items():
            for op in uni:
                cases.append(mk_case(U.mk_data("node", n, names, "/", path + [op]), ("enum", f"enum-n={n}") + tuple(U.op_tags(op))))
    nr = 300 if tier == "quick" else 4000
    for i in range(nr):
        n = rng.randint(5, 9)
        sep = rng.choice(U.SEPS) if rng.random() > 0.1 else "::"
        others = [s for s in U.SEPS if s != sep and rng.random() < 0.5]
        seps = [sep] + others
        names = pick_names(rng, n, seps, rng.choice(["clashy", "distinctish", "random"]))
        ops = U.random_history(rng, "node", n, names, sep, rng.randint(1, 40), fault_rate=0.15, bad_rate=0.1, seps=seps)
        # more separator changes and re-rootings than the generic mix
        for _ in range(rng.randint(0, 3)):
            pos = rng.randrange(len(ops) + 1)
            ops.insert(pos, rng.choice([["Z", rng.randrange(n), rng.choice(seps)], ["P", rng.randrange(n), None, "none"]]))
        tags = ["random", "n=%d" % n, "sep=" + sep] + [t for op in ops for t in U.op_tags(op)]
        cases.append(mk_case(U.mk_data("node", n, names, sep, ops), tags))
    # wide parents (9-12 children under one node), look-ups after every call, children replaced by other nodes of the
    # same name (the child count stays the same), sorted, detached and re-attached
    for i in range(40 if tier == "quick" else 400):
        n = rng.randint(11, 14)
        sep = rng.choice(U.SEPS)
        base = ["r"] + ["k%d" % j for j in range(1, n)]
        k = rng.randint(9, n - 2)
        names = list(base)
        for j in range(k + 1, n):            # the spare nodes carry names of children: same-name replacements
            names[j] = names[rng.randint(1, k)]
        ops = [["C", 0, list(range(1, k + 1)), "none"]]
        for _ in range(rng.randint(2, 8)):
            r = rng.random()
            spare = rng.randint(k + 1, n - 1)
            twin = names.index(names[spare])
            if r < 0.5:
                ops += [["P", twin, None, "none"], ["P", spare, 0, "none"]]
            elif r < 0.65:
                ops.append(["S", 0, [rng.randrange(5) for _ in range(n)], rng.random() < 0.5])
            elif r < 0.8:
                c = rng.randint(1, k)
                ops += [["P", c, None, "none"], ["P", c, 0, "none"]]
            else:
                ops.append(["P", rng.randint(1, n - 1), rng.choice([None, 0, rng.randint(1, k)]), rng.choice(["none", "none", "post"])])
        d = U.mk_data("node", n, names, sep, ops)
        d["warm"] = 1
        cases.append(mk_case(d, ("wide-parent", "n=%d" % n, "warm-lookups")))
    for d in U.drain_unhealthy():   # exploration met a store that is not a forest: let the tie and the oracle see it
        cases.append(mk_case(d, ("explore-unhealthy",)))
    return cases


def rehydrate(case):
    return Case(case.line, case.data)


def impl(case):
    d = case.data
    nodes = U.make_nodes(d)
    parts = []
    for op in d["ops"]:
        o = U.apply_op(nodes, op)
        if o == "hang" or not U.healthy(nodes):
            parts.append("corrupt")
            return " ; ".join(parts)
        parts.append(o + " " + U.show_snap(U.snap(nodes)) + " | " + U.show_paths(nodes))
        if d.get("warm") or len(nodes) <= 9:
            U.show_lookups(nodes)       # look-ups after every call, results discarded (what they leave behind must not matter)
    return " ; ".join(parts) + " ;; " + U.show_lookups(nodes)


def oracle(case):
    d = case.data
    nodes = U.make_nodes(d)
    msgs = []
    before = U.snap(nodes)
    for i, op in enumerate(d["ops"]):
        o = U.apply_op(nodes, op)
        if o == "hang":
            return [f"op {i} {U.fmt_op(op)} did not return within {U.HANG_SECONDS} s"]
        after = U.snap(nodes)
        if not U.healthy(nodes):
            return [f"after op {i} {U.fmt_op(op)}: the links no longer form a forest"]
        msgs += [f"after op {i} {U.fmt_op(op)}: {m}" for m in U.path_errors(nodes, d["names"])]
        msgs += [f"op {i}: {m}" for m in U.dup_refusal_errors(before, op, o, after, d["names"])]
        if op[0] == "Z" and o == "ok":
            tree = [x for x in nodes if x.root is nodes[op[1]].root]
            if any(x.sep != op[2] for x in tree):
                msgs.append(f"op {i} {U.fmt_op(op)}: some node of the tree does not report the new separator")
        before = after
        if msgs:
            return msgs
        if d.get("warm") or len(nodes) <= 9:
            msgs += [f"after op {i} {U.fmt_op(op)}: {m}" for m in U.lookup_errors(nodes)]
            if msgs:
                return msgs
        if not U.healthy(nodes):
            return [f"after op {i} {U.fmt_op(op)}: the links no longer form a forest"]
    return msgs + U.lookup_errors(nodes)


def nontrivial(case):
    d = case.data
    return sum(1 for op in d["ops"] if op[0] in ("P", "C", "A", "R", "L", "E")) >= 2


def shrink(case):
    for d in U.shrink_history(case.data):
        yield Case(U.mk_line(d), d, case.tags)


def replay_known(entry) -> bool:
    """K7: multi-character separator stripped as a character set"""
    w = entry.get("witness", {})
    if w.get("clause") != "multichar_sep_edge_chars":
        return False
    import bigtree
    r = bigtree.Node("r", sep="__")
    a = bigtree.Node("a", parent=r)
    a_ = bigtree.Node("a_", parent=r)
    try:
        got = bigtree.find_full_path(r, a_.path_name)
    except Exception:
        return True
    return got is not a_


NOT_READY = False
LEVEL_TEXT = "Proof. On the Node instance of the pointer-store model (pre-assign hooks run the user hook, then the duplicate-name check) and a List-Char model of path_name / depth / sep / find_full_path (str.split, lstrip, rstrip, join re-implemented): C03.sib_unique_step / sib_unique_run - in every state reachable through the structural API no two children of one parent share a name; dup_refused_unchanged - a duplicate attachment is refused and the store is unchanged; pathNames_injective - route names identify a node inside its tree; split_join - split(sep) inverts join(sep) for a one-character separator occurring in no piece; path_name_eq, path_name_injective - the path name is sep + sep.join(route names) and path names are pairwise distinct in a tree; depth_eq_length; sep_is_root_sep - every node reports the separator stored on its root, a node and its parent agree, after v.sep = x exactly v's tree reports x, a detached node reports its own field; find_full_path_path_name (+ find_full_path_variants: leading separator omitted / trailing separator added) - looking a node's path name up from any node of its tree returns that very node; split_join_multi, path_name_injective_multi, find_full_path_multi - the same three laws for EVERY non-empty separator ('::', '->', ...) and names sharing no character with it, incl. any run of separator characters in front of / behind the path (lstrip/rstrip strip a character set; a name starting or ending with a separator character falls outside: K7). Tied to /repo by differential testing of Node histories (names a,b,ab,ba,aa,'a b','a.b'; separators / . \\ | and ::) comparing path_name/depth/sep of every node after every call and all pairwise look-ups on the final store."
LEVEL_NOTE = "String theorems assume non-empty names (what Node enforces) and a non-empty separator sharing no character with a name (one character: it occurs in no name); outside that domain multi-character separators are mis-stripped (known finding K7). The constructors (list/dict/dataframe/nested) are covered through C05/C13's models, not here. Renaming via node.name= is excluded by the statement." + " Known finding K7: multi-character separators are stripped as a character set (sep '__', names 'a' and 'a_'); names never start or end with a character of the separator in the tie, so it is replayed separately on every run."
TECHNIQUE = 'Lean 4 invariant proof (SibUnique) + injectivity/round-trip theorems on List Char + correspondence check + model-free path oracle'
